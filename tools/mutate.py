#!/usr/bin/env python3
"""mutate.py [K] [SEED] — simple operator mutants (relational, arithmetic, constant, boolean) in the Go files the
properties are anchored in; K sites per file, chosen by SEED. For each mutant: build, run the package's own
tests (mutants they kill are skipped), then the quick tier of every check anchored in that file (isolated copy,
tools/seedtest.sh). Prints one line per mutant; 'SURVIVED' = tests pass and every relevant check exits 0."""
import json, os, random, re, subprocess, sys, tempfile, shutil
ROOT = os.path.dirname(os.path.dirname(os.path.abspath(__file__)))
K = int(sys.argv[1]) if len(sys.argv) > 1 else 3
SEED = int(sys.argv[2]) if len(sys.argv) > 2 else 1
ENV = dict(os.environ, GOFLAGS="-mod=mod", GOPROXY="off", GOSUMDB="off", GOTOOLCHAIN="local")
files = {}
for l in open(os.path.join(ROOT, "properties.jsonl")):
    d = json.loads(l)
    for f in d["anchors"]["files"]:
        if f.endswith(".go") and not f.endswith("_asm.go"):
            files.setdefault(f, []).append(d["id"])
OPS = [
    (r"(?<![<>=!])<=(?!=)", "<"), (r"(?<![<>=!-])<(?![<=-])", "<="), (r"(?<![<>=!])>=(?!=)", ">"), (r"(?<![<>=!-])>(?![>=])", ">="),
    (r"==", "!="), (r"!=", "=="), (r"&&", "||"), (r"\|\|", "&&"),
    (r"(?<=[\w\)\]]) \+ (?=[\w\(])", " - "), (r"(?<=[\w\)\]]) - (?=[\w\(])", " + "),
    (r"\+ 1\b", "+ 2"), (r"- 1\b", "- 2"), (r"\b0\b", "1"), (r"\b1\b", "0"),
]
def sites(path):
    out = []
    src = open(os.path.join("/repo", path)).read().split("\n")
    infunc = False
    for i, line in enumerate(src):
        s = line.strip()
        if s.startswith("func "):
            infunc = True
        if not infunc or s.startswith("//") or '"' in line or "`" in line or s.startswith("case ") and ":" in s and False:
            continue
        code = line.split("//")[0]
        for pat, rep in OPS:
            for m in re.finditer(pat, code):
                out.append((i, m.start(), m.end(), rep))
    return src, out
rnd = random.Random(SEED)
n = 0
for path in sorted(files):
    src, st = sites(path)
    rnd.shuffle(st)
    for (i, a, b, rep) in st[:K]:
        n += 1
        new = src[:]
        new[i] = src[i][:a] + rep + src[i][b:]
        tmp = tempfile.mkdtemp(prefix="mut.")
        try:
            r = os.path.join(tmp, "repo")
            subprocess.run(["rsync", "-a", "--exclude", ".git", "/repo/", r + "/"], check=True)
            open(os.path.join(r, path), "w").write("\n".join(new))
            desc = f"{path}:{i+1}: `{src[i].strip()[:70]}` -> `{new[i].strip()[:70]}`"
            if subprocess.run(["go", "build", "./..."], cwd=r, env=ENV, capture_output=True).returncode != 0:
                print(f"M{n} NOBUILD {desc}", flush=True); continue
            pkg = "./" + os.path.dirname(path) + "/..."
            t = subprocess.run(["go", "test", "-vet=off", "-count=1", pkg], cwd=r, env=ENV, capture_output=True, text=True)
            out = t.stdout + t.stderr
            fails = [l for l in out.split("\n") if l.startswith("--- FAIL") and "TestEnglish" not in l and "TestJapanese" not in l]
            if t.returncode != 0 and (fails or "panic" in out or "FAIL" in out and "wordlists" not in out):
                print(f"M{n} KILLED-BY-TESTS {desc}", flush=True); continue
            patch = os.path.join(tmp, "patch.diff")
            d = subprocess.run(["diff", "-u", "--label", "a/" + path, "--label", "b/" + path, os.path.join("/repo", path), os.path.join(r, path)], capture_output=True, text=True).stdout
            open(patch, "w").write(d)
            res = []
            for pid in files[path]:
                o = subprocess.run([os.path.join(ROOT, "tools/seedtest.sh"), pid, patch, "quick"], capture_output=True, text=True, env=dict(os.environ, SEEDTEST_LINES="1")).stdout
                m = re.search(r"EXIT=(\d+)", o)
                res.append(f"{pid}={m.group(1) if m else '?'}")
            verdict = "CAUGHT" if any(x.endswith("=1") for x in res) else ("INCONCLUSIVE" if any(x.endswith("=2") for x in res) else "SURVIVED")
            print(f"M{n} {verdict} [{' '.join(res)}] {desc}", flush=True)
        finally:
            shutil.rmtree(tmp, ignore_errors=True)
