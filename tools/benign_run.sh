#!/bin/bash
# benign_run.sh [names…] — run the quick tier of each behaviour-preserving refactoring's check against /repo + patch.
# Expected: EXIT=0 for every one (an alarm here is a false alarm of the check).
ROOT="$(cd "$(dirname "${BASH_SOURCE[0]}")/.." && pwd)"
cd "$ROOT"
names="${@:-$(ls benign)}"
for n in $names; do
  P=${n%%-*}
  out=$(SEEDTEST_LINES=3 tools/seedtest.sh $P benign/$n/patch.diff quick 2>&1); rc=$(echo "$out" | grep -o "EXIT=[0-9]*" | cut -d= -f2)
  echo "$n exit=$rc $(echo "$out" | grep -E 'class=|INCONCLUSIVE|PATCH-FAILED' | head -2 | cut -c1-220 | tr '\n' ' ')"
done
