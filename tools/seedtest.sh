#!/bin/bash
# seedtest.sh <ID> <patch.diff> [tier]  — run one check against /repo + patch in an isolated scratch copy
# (neither /repo nor /verif's evidence/bin are touched). Prints the check's verdict lines.
set -u
ID="$1"; PATCH="$(readlink -f "$2")"; TIER="${3:-quick}"
S="$(mktemp -d /tmp/seedrun.XXXXXX)"
trap 'rm -rf "$S"' EXIT
rsync -a --exclude .git /repo/ "$S/repo/"
if ! (cd "$S/repo" && patch -p1 -s < "$PATCH"); then echo "PATCH-FAILED $PATCH"; exit 3; fi
rsync -a --exclude .git --exclude bin --exclude work --exclude replays /verif/ "$S/verif/"
VERIF_REPO="$S/repo" "$S/verif/run_check.sh" "$ID" "$TIER" > "$S/out.txt" 2>&1
rc=$?
grep -E "^(VIOLATION|  class=|SUMMARY|INCONCLUSIVE|KNOWN-FINDING)" "$S/out.txt" | cut -c1-400 | head -${SEEDTEST_LINES:-8}
echo "EXIT=$rc"
exit $rc
