#!/bin/bash
# seed_regress.sh [names…] — re-run the quick tier of each seed's check against /repo + its patch; one line per seed
ROOT="$(cd "$(dirname "${BASH_SOURCE[0]}")/.." && pwd)"
cd "$ROOT"
names="${@:-$(ls seeded)}"
for n in $names; do
  P=$(python3 -c "import json;print(json.load(open('seeded/$n/meta.json'))['property'])")
  out=$(SEEDTEST_LINES=1 tools/seedtest.sh $P seeded/$n/patch.diff quick 2>&1); rc=$(echo "$out" | grep -o "EXIT=[0-9]*" | cut -d= -f2)
  echo "$n $P exit=$rc $(echo "$out" | grep -E 'class=' | head -1 | cut -c1-120)"
done
