#!/usr/bin/env python3
"""seed_finalize.py <name>… — re-run the quick check against each stored seed and (re)write summary.txt and the
caught/caught_by fields of meta.json. A seed whose meta said caught=false before and is caught now gets the note
"missed by the check as first built; caught after the strengthening described in DESIGN.md §4"."""
import json, os, re, subprocess, sys
ROOT = os.path.dirname(os.path.dirname(os.path.abspath(__file__)))
for name in sys.argv[1:]:
    d = os.path.join(ROOT, "seeded", name)
    m = json.load(open(os.path.join(d, "meta.json")))
    tier = os.environ.get("TIER", "quick")
    out = subprocess.run([os.path.join(ROOT, "tools/seedtest.sh"), m["property"], os.path.join(d, "patch.diff"), tier],
                         capture_output=True, text=True, env=dict(os.environ, SEEDTEST_LINES="3")).stdout
    rc = re.search(r"EXIT=(\d+)", out)
    rc = int(rc.group(1)) if rc else None
    cls = re.search(r"class=(\S+)", out)
    was_missed = m.get("caught") is False and "note" not in m
    m["check_exit"], m["caught"] = rc, rc == 1
    m["check_run"] = f"tools/seedtest.sh {m['property']} seeded/{name}/patch.diff {tier}"
    if rc == 1:
        m["caught_by"] = f"{m['property']} {cls.group(1) if cls else ''}".strip()
        if was_missed:
            m["note"] = "missed by the check as first built; caught after the strengthening described in DESIGN.md §4"
    json.dump(m, open(os.path.join(d, "meta.json"), "w"), indent=1, ensure_ascii=False)
    sp = os.path.join(d, "summary.txt")
    if not os.path.exists(sp):
        notes = open(os.path.join(d, "NOTES.md")).read()
        title = notes.splitlines()[0].lstrip("# ").strip()
        title = re.sub(r"^(C\d\d\s*/\s*)?m\d\s*[-—–]+\s*", "", title)
        open(sp, "w").write(title + "\n")
    print(name, "exit", rc, m.get("caught_by", ""), "(was missed)" if was_missed else "")
