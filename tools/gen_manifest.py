#!/usr/bin/env python3
"""Regenerates /verif/MANIFEST.json from the table below (kept next to the code so the
manifest never drifts from what is built).  Usage: tools/gen_manifest.py"""
import json, os, subprocess

ROOT = os.path.dirname(os.path.dirname(os.path.abspath(__file__)))

# id -> (technique, level text, level note, design ref)
CHECKS = {
 "C10": ("runtime monitor: every ParsePath/String call judged by an independent recogniser of the stated grammar (two-sided) on generated hostile strings",
         "Exploration: ~0.8 M (quick) / 25 M (thorough) seeded strings and paths driven through the real ParsePath/String/MarshalText; each call is judged two-sidedly against a hand-written recogniser with big-integer decimal values. Held-on-observed, not a proof; the grammar-aware generator concentrates on leading zeros, the 2^31 boundary and malformed separators.",
         "Trusts math/big decimal parsing and the recogniser (self-tested on literals at the start of every run). Non-ASCII digits (all Nd/No/Nl runes) and look-alike characters are generated and must be rejected.",
         "DESIGN.md §3 C10"),
 "C01": ("runtime monitor: every ed25519.Verify call judged two-sidedly (accept iff ZIP-215 predicate) by an independent big-integer model; one-sided against crypto/ed25519",
         "Exploration: ~33 k (quick) / ~1.6 M (thorough) structured triples (honest, bit flips, S+jL for all j, 8x8 torsion shifts of A and R, every encoding of every small-order point, all y>=p encodings, undecodable points, wrong lengths, random) driven through the real Verify; verdict compared both ways with a math/big ZIP-215 model. Held-on-observed.",
         "Trusts SHA-512, math/big and the model in harness/oracle/ed (self-tested on RFC 8032 vectors, crypto/ed25519 and the 8 known small-order encodings at every run). Accepting inputs with a non-canonical non-small-order A/R cannot be constructed (needs a discrete log).",
         "DESIGN.md §3 C01"),
 "C07": ("runtime monitor: byte equality of keys and signatures against crypto/ed25519 and an independent RFC 8032 big-integer signer, over every message length 0..300",
         "Exploration: ~13 k (quick) / ~750 k (thorough) (seed, message) pairs through NewKeyFromSeed, Sign, PrivateKey.Sign, GenerateKey, Verify; outputs compared byte for byte with crypto/ed25519 and (on a quarter of the cases) with the model signer; determinism, pre-hash refusal and short-reader failure monitored.",
         "Trusts crypto/ed25519, SHA-512 and harness/oracle/ed (self-tested on RFC 8032 vectors).",
         "DESIGN.md §3 C07"),
 "C18": ("runtime monitor: Prove bytes and two-sided Verify/decoding verdicts judged by an independent RFC 9381 model; uniqueness monitor over accepted proof variants",
         "Exploration: ~17 k (quick) / ~450 k (thorough) cases: proofs for alpha of length 0..200 incl. multi-round try-and-increment, all single-bit flips of honest proofs, torsion-shifted / non-canonical / undecodable Gamma, s boundary values, all small-order and y>=p key encodings, forged proofs that verify iff validate_key is dropped, valid malleable-Gamma proofs (hash must not change), random and wrong-length strings; decode strictness two-sided.",
         "Trusts SHA-512, math/big and harness/oracle/ecvrf (self-tested on the three RFC 9381 TAI examples). Non-canonical prime-order keys with known discrete log cannot be constructed; canonical-key checking is observed on the reject side only.",
         "DESIGN.md §3 C18"),
 "C02": ("runtime monitor: every node of stepwise and path derivations compared with an independent SLIP-0010 model; retry and permanent-error branches driven through fault-injecting pluggable curves",
         "Exploration: ~2.9 k (quick) / 67 k (thorough) (curve, seed, path) cases (every prefix of every path is a judged node) plus paths of 255..513 elements on secp256k1, P-256, ed25519 and four harness-defined curves that declare a quarter of all candidates invalid (or return a permanent error for a sixteenth); each master/child/public node, each prefix via DeriveKeyFromPath and one public-side child per node is compared (key, chain code, serialized public key, fingerprint) with the model; undefined derivations must fail, permanent errors must surface.",
         "Trusts HMAC-SHA512/SHA-256/RIPEMD-160 and harness/oracle/slip10m (self-tested on the published SLIP-0010 vectors incl. P-256 retry vectors). Retries on the real curves occur only at 2^-32 / 2^-127 and are exercised through the pluggable curves.",
         "DESIGN.md §3 C02"),
 "C03": ("runtime monitor: sentences and decode verdicts judged by a bit-level BIP-0039 model; both built-in word lists read through the API and compared index for index with the official lists",
         "Exploration with an exhaustive part: all 2 x 2048 word indices (exhaustive), every entropy length x structured entropies (every leading-zero count, every single-bit position) plus ~200 k (quick) / 4 M (thorough) random and mutated cases; encode equality, decode two-sided verdict, error class, fixed point.",
         "Trusts SHA-256 and the embedded official word lists (verified against the published SHA-256 digests of english.txt/japanese.txt at every run).",
         "DESIGN.md §3 C03"),
 "C08": ("runtime monitor: commutation of private/public derivation and of the two Shift methods, with an affine-model oracle for validity and results",
         "Exploration: ~2.4 k (quick) / 80 k (thorough) derivation pairs and ~4 k / 160 k (scalar, shift) pairs concentrated on shift in {0, k, n-k, n-k+-1, n-1, n, n+1, 2^256-1}; both sides must agree on ErrInvalidKey and on the resulting key, and match the model; panics are violations.",
         "Trusts math/big and harness/oracle/weier (self-tested).",
         "DESIGN.md §3 C08"),
 "C09": ("runtime monitor: seeds compared with an own PBKDF2 over python-unicodedata NFKD (independent of x/text); parser metamorphic relations on white space and compatibility forms",
         "Exploration: ~8 k (quick) / 300 k (thorough) seeds over passphrases covering every character (assigned since Unicode 3.2) that changes under NFKD, plus ~10 k / 0.5 M parser cases; invalid mnemonics must yield an error and no seed.",
         "Trusts python3 unicodedata, HMAC-SHA512 and the model in harness/oracle/bip39m; characters restricted to those assigned since Unicode 3.2 outside the CJK compatibility ideograph blocks so that Unicode versions agree.",
         "DESIGN.md §3 C09"),
 "C17": ("runtime monitor: every Add/Double/ScalarMult/ScalarBaseMult/IsOnCurve call on both curve copies compared with an affine chord-and-tangent model; algebraic identities; panic monitor",
         "Exploration: ~12 k (quick) / 500 k (thorough) calls over equal, opposite and identity operands and scalars {0, n-1, n, n+1, n+2, 2n, 2^256-1, leading zeros, 1..40 bytes}.",
         "Trusts math/big and harness/oracle/weier (self-tested on published multiples of G and against crypto/elliptic P-256).",
         "DESIGN.md §3 C17"),
 "C06": ("runtime monitor over recorded operation histories: each Absorb/Squeeze/Clone/Reset of a seeded history is mirrored on independent single-lane Curl-P-81 sponges (executable model) and every squeezed lane compared; default (assembly) and purego builds, digests compared",
         "Exploration: ~1 k (quick) / 30 k (thorough) histories per build (default, default+cpuoff, purego; fewer on 386) over batch sizes 1..64, split absorbs, repeated squeezes, clones continued differently, resets, rejected calls (state must stay untouched).",
         "Trusts harness/oracle/curlp (self-tested on published Curl-P-81 hashes). Lanes beyond the absorbed batch and absorb-after-squeeze are outside the statement.",
         "DESIGN.md §3 C06"),
 "C11": ("runtime monitor: every nonce returned by Mine re-scored with the package's and an independent model score; process-survival monitor (child process per shard, case-in-flight slot); Score and the bit-plane lane test (hook) against exact definitions",
         "Exploration: ~2.4 k (quick) / 130 k (thorough) Mine calls with targets at, +-1 and +-2 ulp around 3^k/len, below 1/len, zero and negative, 1..16 workers; 40 k / 2 M Score calls; 40 k / 2 M crafted lane states.",
         "Trusts BLAKE2b, float64 arithmetic and harness/oracle/curlp. Boundaries for k > 9 are not mined (cost 3^k).",
         "DESIGN.md §3 C11"),
 "C12": ("runtime monitor: lane verdicts of checkStateTrits (hook) on crafted bit-plane states judged by exact big-integer difficulty (sound / nothing passed over with margin); single-worker Mine scans re-hashed block by block by the model; Score and toInt against definitions",
         "Exploration: ~60 k (quick) / 1.5 M (thorough) crafted 64-lane states incl. hashes at T-1, T, T+1 and difficulty exactly lx, ~250 / 6 k Mine runs (every skipped nonce re-hashed), 20 k / 0.5 M Score and toInt calls.",
         "Trusts BLAKE2b, math/big and harness/oracle/curlp. s and T are taken from the real code and not asserted. Score's big-integer fall-back is unreachable.",
         "DESIGN.md §3 C12"),
 "C13": ("race detector (go build -race) plus runtime monitors over boundary event logs: result/ordering monitor, bounded-return monitor with goroutine-dump classification, goroutine-accounting (leak) monitor, under stress (worker counts, simultaneous finds, cancellation instants, GOMAXPROCS, CPU hogs, delays injected in a harness context)",
         "Exploration: ~1.6 k (quick) / 60 k (thorough) executions per build (race and default) of both Mine versions; evidence lists the observed orderings of CALL/DONE-CALLED/CANCEL-ISSUED/RETURN, outcomes and race-log counts.",
         "Interleavings are sampled, not enumerated (no controlled scheduler; rr unavailable). Watchdog bounds 30 s / 2.5 s are orders of magnitude above expected latencies.",
         "DESIGN.md §3 C13"),
 "C14": ("runtime monitor: exhaustive group tables (all 256 bytes, 729 b1t6 and 6561 b1t8 groups) and sequence-level codec model; error sentinel and decoded-count monitors",
         "Exploration with an exhaustive part (exhaustive: true for all groups) plus ~1.1 M (quick) / 67 M (thorough) multi-group sequences with an invalid group at every position and every remainder length.",
         "Trusts harness/oracle/tern (self-tested by brute-force enumeration and TIP-5 vectors). Non-trit inputs are documented as undefined and not generated.",
         "DESIGN.md §3 C14"),
 "C15": ("runtime monitor: Hash compared with an independent bottom-up tree construction for every leaf count; model-generated RFC 6962 audit paths verified against the library's root; instrumented leaves log marshaling calls and inject errors",
         "Exploration: every n in 0..1500 (quick) / 0..20000 (thorough) plus 2^k-1, 2^k, 2^k+1, four hash functions, ~18 k / 1.4 M cases.",
         "Trusts SHA-2/SHA-1/BLAKE2b and harness/oracle/merklem (self-tested against the recursive RFC 6962 definition and CT reference roots).",
         "DESIGN.md §3 C15"),
 "C20": ("guard-page sanitizer written for this task (mmap/mprotect arenas, buffers flush against upper and lower guards, SetPanicOnFault, canaries) around the assembly routine, plus a three-way differential (assembly, portable, per-lane definition) and cross-build digest comparison",
         "Exploration: ~4 k (quick) / 60 k (thorough) states per build, every one fenced in both placements and compared on all 2x729 words with 81 rounds of the round function per lane; the routine has no data-dependent control flow or addresses, so each fenced execution observes every access it can make.",
         "Trusts the per-lane model (self-tested against the Curl-P truth table and oracle/curlp). The fence sees accesses within 1 MiB of a buffer; amd64 only.",
         "DESIGN.md §3 C20"),
 "C04": ("runtime monitor: two-sided Decode verdict and outputs judged by an independent BIP-173 port; re-encode fixed point; error-offset range and panic monitors on hostile byte strings",
         "Exploration: ~3.9 M (quick) / 340 M (thorough) strings: model-encoded arbitrary 5-bit symbol sequences of every length and padding pattern, case variants, byte substitutions 0..255, insertions/deletions, truncations, separator anomalies, runes whose case mapping changes byte length, invalid UTF-8, random bytes.",
         "Trusts harness/oracle/bech32m (self-tested on the BIP-173 valid/invalid strings and segwit regrouping vectors). Case is ASCII-only as in BIP-173. Error kinds and exact offsets are not asserted, only 0 <= Offset <= len(input).",
         "DESIGN.md §3 C04"),
 "C05": ("runtime monitor: Encode output compared with an independent BIP-173 encoder, Decode inversion, success-domain monitor",
         "Exploration: ~0.74 M (quick) / 78 M (thorough) (hrp, data) pairs over every data length 0..51, totals on both sides of the 90-character limit, every hrp case class and invalid hrps.",
         "Trusts harness/oracle/bech32m. Error ordering is not asserted.",
         "DESIGN.md §3 C05"),
 "C16": ("runtime monitor in three layers: exhaustive weight-1/2 substitutions and sampled weight-3/4 through Decode; exhaustive checksum-syndrome table recorded from the real polymod (hook) with an offline meet-in-the-middle checker whose hits are confirmed through Decode",
         "Exploration with exhaustive parts: ~12 M (quick) / 600 M (thorough) corrupted strings decoded; syndromes sigma(j,v) for all distances j <= 88 and symbols v recorded from the real code, ~3.8 M single/pair sums searched for collisions (covers every pattern of weight <= 4 for every length <= 90).",
         "Trusts harness/oracle/bech32m for building valid strings; the syndrome layer judges the polymod the hook exposes, layers (a)/(b) observe that Decode uses it.",
         "DESIGN.md §3 C16"),
 "C19": ("runtime monitor: ParseBech32 verdict table over model-built strings (every version byte, payload lengths 0..50, known/unknown/upper/mixed prefixes), canonicity; migration decoder two-sided against an own b1t6/BLAKE2b model incl. all single-tryte substitutions",
         "Exploration: ~1.4 M (quick) / 180 M (thorough) cases.",
         "Trusts harness/oracle/bech32m, BLAKE2b (x/crypto) and the b1t6 model inside prop/c19 (self-tested).",
         "DESIGN.md §3 C19"),
}

NOT_BUILT_REASON = "check not built yet in this round (planned in DESIGN.md §3; runtime monitoring does apply)"

PARALLEL = {"C01","C02","C04","C05","C06","C07","C08","C10","C14","C15","C17","C18","C19"}
BUILD386 = {"C01","C02","C03","C04","C05","C06","C07","C08","C09","C10","C11","C12","C13","C14","C15","C16","C17","C18","C19","C20"}
EXTRA = {
 "C01": " Call sequences on related keys with inputs in buffers reused in place and interleaved Sign calls; canonical S in [2^252, L) built from small-order keys. Messages of 4 KiB..400 KiB next to multiples of powers of two; undecodable points with the signature that verifies if they are taken for the neutral element.",
 "C02": " Wrap-around shift candidates, sibling-derivation histories, one parent object used by 4 goroutines, appends into the spare capacity of returned slices. Pluggable curves refusing 15 of 16 candidates (runs of 8..32+ consecutive retries).",
 "C03": " Concurrent class on a freshly selected list.",
 "C04": " Acceptance-set scan over checksum values (all 2^30 in thorough); returned slices re-inspected after later calls. A twelfth of the human-readable parts are deployed prefixes (iota, atoi, smr, rms, bc, tb, ...).",
 "C06": " Reused dst slices with retained outputs; closing squeezes of originals and clones run concurrently. Related input slices (same slice in a run of lanes, adjacent and overlapping windows).",
 "C07": " Dense message-length sweep, chunked readers, reused key/message buffers. Message lengths next to 2x/3x powers of two up to 400 KiB.",
 "C09": " Seed sequences across word-list switches, concurrent class, caller-overwritten UnmarshalText buffers. Mostly-ASCII sentences with one variant word at every byte length modulo 64.",
 "C10": " Caller-modified results and reused receivers.",
 "C11": " Shared-Worker and long-lived-Worker (message buffer edited in place) classes. Data of 8 KiB..400 KiB next to multiples of powers of two.",
 "C12": " Shared-Worker and long-lived-Worker classes; long single-worker mines re-hashed by a bit-sliced 64-lane model. Data of 8 KiB..128 KiB next to multiples of powers of two.",
 "C13": " Optional second caller on the same Worker.",
 "C14": " Sequences of up to 5000 groups with late faults.",
 "C15": " Leaf counts up to 2^18 (2^20 thorough), shared Hasher objects, delayed first failing leaf. Leaves that are hash preimages or digests of other parts of the same tree (domain separation).",
 "C16": " Acceptance-set scan (targeted constants; all 2^30 checksum values in thorough) converted into weight<=4 witnesses; concurrent Decode class. Acceptance-set scan also on deployed prefixes (the accepted checksum values may depend on the prefix); a valid string that Decode rejects is left to C04 and its neighbourhood scanned all the same.",
 "C17": " Constructed boundary points, t*n+d scalars, argument immutability, reused scalar buffers. The generator's relatives (-G, (beta*Gx, +-Gy)) as operands.",
 "C18": " Dense alpha-length sweep; reuse (one Proof object), related (prefix-sharing alphas) and concurrent classes.",
 "C05": " Every deployed prefix (iota, atoi, smr, rms, bc, tb, ...) in both cases.",
 "C08": " Scalars and shifts made of 8..64-bit words that are zero / all ones / one / random.",
 "C19": " Two-fault migration strings (invalid group plus a checksum matching what a failed decode leaves behind).",
 "C20": " Concurrent class; ptrace single-step trace of every memory access in thorough.",
}

def main():
    props = [json.loads(l) for l in open(os.path.join(ROOT, "properties.jsonl")) if l.strip()]
    checks, na = [], []
    for p in props:
        pid = p["id"]
        if pid in CHECKS:
            tech, text, note, ref = CHECKS[pid]
            if pid in {"C01","C03","C09","C10","C14","C15","C16","C18","C20"}:
                tech += "; Go race detector (-race build) over the classes that run several goroutines inside the library"
            text += EXTRA.get(pid, "")
            if pid in PARALLEL:
                text += " Cases of a shard are judged on 4 goroutines (shared state inside the library shows up as wrong verdicts)."
            if pid != "C13":
                text += " Every second shard process runs with GOMAXPROCS set to 1, 2, 3, 5, 7, 48, 64 or 128."
            if pid in {"C01","C03","C09","C10","C14","C15","C16","C18","C20"}:
                text += " The classes in which several goroutines are inside the library at once are run a second time under the Go race detector (-race build); a report with a library frame is a violation."
            if pid in BUILD386:
                text += " Additionally run as a 32-bit build (GOARCH=386) at reduced volume."
            checks.append({
                "property_id": pid,
                "quick_cmd": f"./run_check.sh {pid} quick",
                "thorough_cmd": f"./run_check.sh {pid} thorough",
                "evidence_file": f"/verif/evidence/{pid}.json",
                "replay_cmd_template": "./run_check.sh replay {path}",
                "engine": "vmon",
                "level_claimed": {"category": "exploration", "text": text, "design_ref": ref},
                "level_note": note,
                "technique": tech,
            })
        else:
            na.append({"property_id": pid, "reason": NOT_BUILT_REASON})
    commits = subprocess.run(["git", "-C", "/repo", "log", "--format=%H %s"], capture_output=True, text=True).stdout.splitlines()
    hook_commits = [c.split()[0] for c in commits if " verif hooks:" in c or c.split(" ", 1)[1].startswith("verif:")]
    man = {
        "version": 1,
        "setup_cmd": "./run_check.sh build",
        "hooks": {
            "guard": "verif",
            "enable": "go build -tags verif (Go build tag; hook files are new files named export_verif.go with //go:build verif)",
            "baseline_off_cmd": "for m in . ./pkg/curl/asm; do (cd /repo/$m && GOFLAGS=-mod=mod GOPROXY=off GOSUMDB=off GOTOOLCHAIN=local go test -json -vet=off -count=1 -timeout 25m ./...); done",
            "source_commits": hook_commits,
            "add_only": True,
        },
        "engines": [{
            "name": "vmon",
            "path": "/verif/harness",
            "serves_properties": sorted(CHECKS),
            "kind_free_text": "Go runtime-monitoring harness: supervisor + sharded child processes (case-in-flight slot survives process death), independent reference models as oracles, race-detector and guard-page builds; see DESIGN.md",
        }],
        "checks": checks,
        "not_applicable": na,
        "notes": "Exit 0 = held on everything observed; exit 1 + VIOLATION line = violation not listed in known_findings.txt; exit 2 + INCONCLUSIVE line = monitors could not decide (never on the unchanged tree). VERIF_SEED selects the seeded case lists.",
    }
    with open(os.path.join(ROOT, "MANIFEST.json"), "w") as f:
        json.dump(man, f, indent=1)
        f.write("\n")
    try:
        import jsonschema
        jsonschema.validate(man, json.load(open("/root/.vp/MANIFEST.schema.json")))
        print("MANIFEST.json valid;", len(checks), "checks,", len(na), "not applicable")
    except ImportError:
        print("MANIFEST.json written (jsonschema not available to validate)")

if __name__ == "__main__":
    main()
