#!/usr/bin/env python3
"""Prints the markdown table of seeded defects (DESIGN.md §4) from seeded/*/meta.json and summary.txt."""
import json, glob, os, re
ROOT = os.path.dirname(os.path.dirname(os.path.abspath(__file__)))
print("| Seed | Property | What was changed / what it needs | Caught by (violation class) | First built check |")
print("|------|----------|----------------------------------|-----------------------------|-------------------|")
for f in sorted(glob.glob(os.path.join(ROOT, "seeded", "*", "meta.json"))):
    m = json.load(open(f)); d = os.path.dirname(f)
    s = ""
    sp = os.path.join(d, "summary.txt")
    if os.path.exists(sp):
        s = open(sp).read().strip().replace("\n", " ")
    by = m.get("caught_by", m["property"])
    first = "missed, then strengthened" if "missed by the check as first built" in m.get("note", "") else (("NOT caught: " + m["why_not"] if m.get("why_not") else "NOT caught") if m.get("caught") is False else "caught")
    print(f"| {m['name']} | {m['property']} | {s} | {by} | {first} |")
