#!/usr/bin/env python3
"""Independent NFKD oracle for C09: python's unicodedata (not golang.org/x/text).

usage: nfkd_corpus.py <seed> <n_pass> <n_words>   -> JSON lines on stdout

  {"k":"p","s":[code points],"n":[code points of NFKD(s)]}          passphrases
  {"k":"w","v":[code points of a variant],"n":[NFKD code points]}    words for the parser monitor
       (variant in {w, NFC(w), NFD(w), NFKC(w)}; NFKD(w) contains no white space)

Only characters assigned since Unicode 3.2 and outside the CJK compatibility
ideograph blocks are drawn: for those the normalization stability policy makes
every Unicode version >= 4.1 agree, so the Unicode versions of python and of
x/text do not matter.
"""
import json
import random
import sys
import unicodedata as ud

old = ud.ucd_3_2_0

GO_SPACE = {0x09, 0x0A, 0x0B, 0x0C, 0x0D, 0x20, 0x85, 0xA0, 0x1680, 0x2028, 0x2029, 0x202F, 0x205F, 0x3000} | set(range(0x2000, 0x200B))


def allowed(cp):
    if 0xD800 <= cp <= 0xDFFF:
        return False
    if 0xF900 <= cp <= 0xFAFF or 0x2F800 <= cp <= 0x2FA1F:
        return False
    c = chr(cp)
    return old.category(c) != "Cn"


def main():
    seed, n_pass, n_words = int(sys.argv[1]), int(sys.argv[2]), int(sys.argv[3])
    rnd = random.Random(seed)
    pool = [cp for cp in range(1, 0x30000) if allowed(cp)]
    changing = [cp for cp in pool if ud.normalize("NFKD", chr(cp)) != chr(cp)]
    combining = [cp for cp in pool if ud.combining(chr(cp)) > 0]
    hangul = list(range(0xAC00, 0xD7A4))
    kana = list(range(0x3041, 0x3097)) + list(range(0x30A1, 0x30FB)) + [0x3099, 0x309A]
    latin = list(range(0x21, 0x7F)) + list(range(0xC0, 0x250))
    fullwidth = list(range(0xFF01, 0xFF5F)) + list(range(0xFF65, 0xFFA0))
    ascii_pr = list(range(0x20, 0x7F))

    def draw():
        r = rnd.random()
        if r < 0.30:
            return rnd.choice(changing)
        if r < 0.45:
            return rnd.choice(combining)
        if r < 0.55:
            return rnd.choice(hangul)
        if r < 0.65:
            return rnd.choice(kana)
        if r < 0.75:
            return rnd.choice(latin)
        if r < 0.80:
            return rnd.choice(fullwidth)
        if r < 0.92:
            return rnd.choice(ascii_pr)
        return rnd.choice(pool)

    out = sys.stdout
    # every character that changes under NFKD appears at least once (round-robin), then random strings
    idx = 0
    for i in range(n_pass):
        r = rnd.random()
        if r < 0.05:
            ln = 0
        elif r < 0.6:
            ln = rnd.randint(1, 12)
        elif r < 0.95:
            ln = rnd.randint(13, 60)
        else:
            ln = rnd.randint(61, 200)
        cps = [draw() for _ in range(ln)]
        # systematic coverage of the changing characters
        for _ in range(min(4, ln)):
            cps[rnd.randrange(ln)] = changing[idx % len(changing)]
            idx += 1
        # runs of combining marks in arbitrary order exercise canonical reordering
        if ln >= 4 and rnd.random() < 0.3:
            p = rnd.randrange(ln - 3)
            for j in range(1, 4):
                cps[p + j] = rnd.choice(combining)
        s = "".join(map(chr, cps))
        n = ud.normalize("NFKD", s)
        out.write(json.dumps({"k": "p", "s": cps, "n": [ord(c) for c in n]}) + "\n")

    def wordchar():
        r = rnd.random()
        if r < 0.25:
            return rnd.choice(kana)
        if r < 0.45:
            return rnd.choice(fullwidth)
        if r < 0.60:
            return rnd.choice(latin)
        if r < 0.70:
            return rnd.choice(hangul)
        if r < 0.85:
            return rnd.choice(changing)
        if r < 0.92:
            return rnd.choice(combining)
        return rnd.choice(ascii_pr[1:])

    made = 0
    while made < n_words:
        ln = rnd.randint(1, 8)
        w = "".join(chr(wordchar()) for _ in range(ln))
        n = ud.normalize("NFKD", w)
        if not n or any(ord(c) in GO_SPACE or c.isspace() for c in n) or any(ord(c) in GO_SPACE or c.isspace() for c in w):
            continue
        form = rnd.choice(["", "NFC", "NFD", "NFKC"])
        v = ud.normalize(form, w) if form else w
        if ud.normalize("NFKD", v) != n or any(ord(c) in GO_SPACE or c.isspace() for c in v):
            continue
        out.write(json.dumps({"k": "w", "v": [ord(c) for c in v], "n": [ord(c) for c in n]}) + "\n")
        made += 1


if __name__ == "__main__":
    main()
