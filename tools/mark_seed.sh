#!/bin/bash
# mark_seed.sh <seed name> [tier]  — re-run the seed's check against /repo + patch and record the outcome in meta.json
# (a seed that was stored as missed and is caught now gets the note "missed by the check as first built …")
N="$1"; TIER="${2:-quick}"; D=/verif/seeded/$N
P=$(python3 -c "import json;print(json.load(open('$D/meta.json'))['property'])")
R="$(SEEDTEST_LINES=3 /verif/tools/seedtest.sh "$P" "$D/patch.diff" "$TIER" 2>&1)"
rc=$(echo "$R" | grep -o "EXIT=[0-9]*" | cut -d= -f2)
cls=$(echo "$R" | grep -o "class=[a-z0-9_/+-]*" | head -1 | cut -d= -f2)
python3 - "$D/meta.json" "$rc" "$cls" "$TIER" "${MARK_NOTE:-}" <<'PY'
import json,sys
p,rc,cls,tier,note=sys.argv[1:6]
m=json.load(open(p))
was=m.get("caught")
m["check_exit"]=int(rc) if rc.isdigit() else None
m["caught"]= rc=="1"
if rc=="1":
    m["caught_by"]=f"{m['property']} {cls}"+(" (thorough tier)" if tier!="quick" else "")
    m.pop("why_not",None)
    if was is False:
        m["note"]="missed by the check as first built; "+(note or "caught after the check was strengthened")
json.dump(m,open(p,"w"),indent=1)
print(m["name"],"caught" if rc=="1" else f"exit {rc}",cls)
PY
