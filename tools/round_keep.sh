#!/bin/bash
# round_keep.sh <round tag, e.g. r7> <PROP> [pkgdir for m1] [pkgdir for m2] ...  — confirm and store the changes
# /tmp/wt/<PROP>/out/m<k> of one sub-agent as seeded/<PROP>-<tag>m<k>; the demo package is read from NOTES.md
# (first pkg/... directory mentioned together with demo_test.go) unless given.
TAG="$1"; P="$2"; shift 2
k=0
for M in /tmp/wt/$P/out/m[0-9]*; do
  k=$((k+1)); [ -d "$M" ] || continue
  n=$(basename "$M")
  pkg="${1:-}"; [ $# -gt 0 ] && shift
  if [ -z "$pkg" ] || [ "$pkg" = "-" ]; then
    if [ -f "$M/demo/main.go" ] && ! ls "$M"/demo*_test.go >/dev/null 2>&1; then pkg=prog
    else
      pkg=$(grep -ohE "pkg/[a-z0-9_/]+" "$M/NOTES.md" | grep -vE "\.go$" | sed 's#/$##' | awk '{c[$0]++} END{for(k in c) print c[k], k}' | sort -rn | head -1 | cut -d' ' -f2)
      # prefer the directory named right next to "go test"
      t=$(grep -ohE "go test[^\n]*\./pkg/[a-z0-9_/]+" "$M/NOTES.md" | grep -ohE "pkg/[a-z0-9_/]+" | grep -v "\.\.\." | head -1)
      [ -n "$t" ] && pkg="${t%/}"
    fi
  fi
  echo "=== $P-$TAG$n demo in: $pkg"
  /verif/tools/keep_seed.sh "$P" "$M" "$pkg" "$P-$TAG$n" 2>&1 | tail -7
done
