#!/bin/bash
# confirm_seed.sh <mutation dir> <package dir for demo_test.go | "prog">
# Confirms a seeded change independently in a scratch copy of /repo:
#   demo passes on the unpatched tree; patch applies; tree builds; existing tests pass
#   (apart from the two network tests); demo fails on the patched tree.
set -u
M="$(readlink -f "$1")"; PKG="${2:-}"
export GOFLAGS=-mod=mod GOPROXY=off GOSUMDB=off GOTOOLCHAIN=local
S="$(mktemp -d /tmp/confirm.XXXXXX)"; trap 'rm -rf "$S"' EXIT
rsync -a --exclude .git /repo/ "$S/repo/"; cd "$S/repo"
rundemo() {
  if [ "$PKG" = "prog" ]; then
    mkdir -p "$S/repo/zz_demo" && cp "$M"/demo/main.go "$S/repo/zz_demo/main.go" && timeout 900 env ${DEMO_ENV:-} go run ./zz_demo
  else
    for f in "$M"/demo*_test.go; do cp "$f" "$S/repo/$PKG/zz_$(basename "$f")"; done; timeout 900 env ${DEMO_ENV:-} go test -vet=off -count=1 -run "${DEMO_RUN:-Demo}" ${DEMO_FLAGS:-} "./$PKG"
  fi
}
rundemo > "$S/demo_before.txt" 2>&1; b=$?
patch -p1 -s < "$M/patch.diff" || { echo "CONFIRM patch does not apply"; exit 3; }
rm -f "$S/repo/$PKG"/zz_demo*_test.go; rm -rf "$S/repo/zz_demo"
go build ./... > "$S/build.txt" 2>&1; bl=$?
go test -vet=off -count=1 ./... > "$S/tests.txt" 2>&1
fails=$(grep -E "^(--- FAIL|FAIL|panic:)" "$S/tests.txt" | grep -v -E "TestEnglish|TestJapanese|bip39/internal/wordlists|^FAIL$" | head -5)
rundemo > "$S/demo_after.txt" 2>&1; a=$?
echo "CONFIRM demo_before_exit=$b build_exit=$bl unexpected_test_failures=[${fails}] demo_after_exit=$a"
if [ $b -eq 0 ] && [ $bl -eq 0 ] && [ -z "$fails" ] && [ $a -ne 0 ]; then echo "CONFIRMED"; else echo "NOT-CONFIRMED"; tail -5 "$S/demo_before.txt"; tail -5 "$S/demo_after.txt"; fi
