#!/bin/bash
# keep_seed.sh <PROP> <mutation dir> <demo package dir|prog> <name>  — confirm, run the check, store under /verif/seeded/<name>
set -u
P="$1"; M="$(readlink -f "$2")"; PKG="$3"; NAME="$4"; TIER="${5:-quick}"
C="$(/verif/tools/confirm_seed.sh "$M" "$PKG" 2>&1 | tail -3)"
echo "$C" | tail -2
if ! echo "$C" | grep -q "^CONFIRMED"; then echo "not kept: $NAME"; exit 1; fi
R="$(SEEDTEST_LINES=4 /verif/tools/seedtest.sh "$P" "$M/patch.diff" "$TIER" 2>&1)"
echo "$R" | cut -c1-260
rc=$(echo "$R" | grep -o "EXIT=[0-9]*" | cut -d= -f2)
D=/verif/seeded/$NAME; mkdir -p "$D"
cp "$M/patch.diff" "$D/"; cp "$M"/NOTES.md "$D/" 2>/dev/null
[ -f "$M/demo_test.go" ] && cp "$M"/demo*_test.go "$D/"
[ -d "$M/demo" ] && cp -r "$M/demo" "$D/"
python3 - "$P" "$NAME" "$PKG" "$rc" "$TIER" <<'PY' > "$D/meta.json"
import json,sys,re,os
p,name,pkg,rc,tier=sys.argv[1:6]
notes=open(f"/verif/seeded/{name}/NOTES.md").read() if os.path.exists(f"/verif/seeded/{name}/NOTES.md") else ""
first=[l.strip() for l in notes.splitlines() if l.strip()][:12]
print(json.dumps({
 "property": p, "name": name, "author": "independent sub-agent given only the property text and a scratch worktree",
 "demo": {"kind": "go test file copied into "+pkg if pkg!="prog" else "program demo/main.go", "run": (f"go test -vet=off -count=1 -run Demo ./{pkg}" if pkg!="prog" else "go run ./demo")},
 "needs_to_manifest_and_clause": " ".join(first)[:1500],
 "confirmed_by_me": "tools/confirm_seed.sh: demo passes on unpatched tree, patch applies, go build ok, existing suite passes (apart from the 2 network tests), demo fails on patched tree",
 "check_run": f"tools/seedtest.sh {p} seeded/{name}/patch.diff {tier}",
 "check_exit": int(rc) if rc.isdigit() else None,
 "caught": rc=="1",
},indent=1))
PY
echo "kept $NAME (check exit $rc)"
