#!/bin/bash
# sweep.sh <tier> <seed...> — run every registered check at the given seeds, one line per run
ROOT="$(cd "$(dirname "${BASH_SOURCE[0]}")/.." && pwd)"
TIER="$1"; shift
IDS="${SWEEP_IDS:-$(python3 -c "import json;print(' '.join(c['property_id'] for c in json.load(open('$ROOT/MANIFEST.json'))['checks']))")}"
for seed in "$@"; do
  for id in $IDS; do
    t0=$(date +%s)
    out=$(VERIF_SEED=$seed "$ROOT/run_check.sh" $id $TIER 2>&1); rc=$?
    echo "seed=$seed $id rc=$rc total=$(( $(date +%s) - t0 ))s $(echo "$out" | grep SUMMARY | sed 's/SUMMARY property=[A-Z0-9]* //')"
    if [ $rc -ne 0 ]; then echo "$out" | grep -E "VIOLATION|class=|INCONCLUSIVE" | cut -c1-400 | head -6; fi
  done
done
