#!/bin/bash
# sweep.sh <tier> <seed...> — run every registered check at the given seeds, one line per run
TIER="$1"; shift
for seed in "$@"; do
  for id in $(python3 -c "import json;print(' '.join(c['property_id'] for c in json.load(open('/verif/MANIFEST.json'))['checks']))"); do
    out=$(VERIF_SEED=$seed /verif/run_check.sh $id $TIER 2>&1); rc=$?
    echo "seed=$seed $id rc=$rc $(echo "$out" | grep SUMMARY | sed 's/SUMMARY property=[A-Z0-9]* //')"
    if [ $rc -ne 0 ]; then echo "$out" | grep -E "VIOLATION|class=|INCONCLUSIVE" | cut -c1-400 | head -6; fi
  done
done
