// vmon: supervisor, child and replay entry points of the runtime monitors.
package main

import (
	"fmt"
	"os"
	"strconv"

	"verif/harness/asmtrace"
	"verif/harness/fw"
	_ "verif/harness/prop"
)

func usage() {
	fmt.Fprintln(os.Stderr, "usage: vmon run <ID> <quick|thorough> | vmon replay <file> | vmon list")
	os.Exit(2)
}

func main() {
	if len(os.Args) < 2 {
		usage()
	}
	switch os.Args[1] {
	case "list":
		for _, id := range fw.IDs() {
			fmt.Println(id)
		}
	case "asmprobe":
		style, _ := strconv.Atoi(os.Args[2])
		seed, _ := strconv.ParseInt(os.Args[3], 10, 64)
		asmtrace.Probe(style, seed)
	case "asmtrace":
		exe, _ := os.Executable()
		os.Exit(asmtrace.Main(exe))
	case "run":
		if len(os.Args) < 4 {
			usage()
		}
		p := fw.Lookup(os.Args[2])
		if p == nil {
			fmt.Fprintln(os.Stderr, "unknown property", os.Args[2])
			os.Exit(2)
		}
		os.Exit(fw.Supervise(p, os.Args[3]))
	case "replay":
		if len(os.Args) < 3 {
			usage()
		}
		os.Exit(fw.Replay(os.Args[2]))
	case "child":
		// child <ID> <tier> <seed> <shard> <nshards> <build> <dir>
		if len(os.Args) < 9 {
			usage()
		}
		p := fw.Lookup(os.Args[2])
		if p == nil {
			os.Exit(2)
		}
		seed, _ := strconv.ParseInt(os.Args[4], 10, 64)
		shard, _ := strconv.Atoi(os.Args[5])
		nshards, _ := strconv.Atoi(os.Args[6])
		if err := fw.RunChild(p, os.Args[3], seed, shard, nshards, os.Args[7], os.Args[8]); err != nil {
			fmt.Fprintln(os.Stderr, "child error:", err)
			os.Exit(3)
		}
	default:
		usage()
	}
}
