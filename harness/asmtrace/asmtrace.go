//go:build amd64 && linux

// Package asmtrace is a ptrace-based single-step tracer for the amd64 assembly
// permutation: it executes one call of curl.transform instruction by
// instruction in a child process, decodes the memory operand of every executed
// instruction from the registers, and checks that each effective address lies
// inside one of the four 729-word buffers (or the argument slots on the stack).
// Two different input states must produce the same relative trace, which is the
// run-time evidence that the routine has no data-dependent branch or address.
package asmtrace

import (
	"bufio"
	"crypto/sha256"
	"encoding/hex"
	"encoding/json"
	"fmt"
	"os"
	"os/exec"
	"regexp"
	"runtime"
	"strconv"
	"strings"
	"syscall"
	"unsafe"

	"github.com/wollac/iota-crypto-demo/pkg/curl"
)

const symbol = `github.com/wollac/iota-crypto-demo/pkg/curl\.transform(\.abi0)?$`

// Result summarises one traced call.
type Result struct {
	Steps         int               `json:"instructions_executed"`
	MemAccesses   int               `json:"memory_accesses"`
	Reads         map[string]int    `json:"reads_per_buffer"`
	Writes        map[string]int    `json:"writes_per_buffer"`
	MinOff        map[string]int64  `json:"min_offset_per_buffer"`
	MaxOff        map[string]int64  `json:"max_offset_per_buffer"`
	StackAccesses int               `json:"stack_argument_accesses"`
	TraceDigest   string            `json:"relative_trace_digest"`
	Violations    []string          `json:"violations"`
	UnknownForms  []string          `json:"unknown_instruction_forms"`
	FunctionBytes int               `json:"function_size_bytes"`
	DistinctInsns int               `json:"distinct_instructions_executed"`
	StaticInsns   int               `json:"instructions_in_function"`
	OutputDigest  string            `json:"output_digest"`
	Extra         map[string]string `json:"-"`
}

type insn struct {
	addr uint64
	text string
}

// disassemble returns the instructions of the assembly transform in exe.
func disassemble(exe string) ([]insn, error) {
	out, err := exec.Command("go", "tool", "objdump", "-s", symbol, exe).Output()
	if err != nil {
		return nil, fmt.Errorf("go tool objdump: %v", err)
	}
	var ins []insn
	sc := bufio.NewScanner(strings.NewReader(string(out)))
	for sc.Scan() {
		f := strings.Split(sc.Text(), "\t")
		if len(f) < 4 || !strings.HasPrefix(strings.TrimSpace(f[1]), "0x") {
			continue
		}
		a, err := strconv.ParseUint(strings.TrimPrefix(strings.TrimSpace(f[1]), "0x"), 16, 64)
		if err != nil {
			continue
		}
		// fields: file:line, address, (empty), bytes, text, ...
		text := ""
		for _, x := range f[3:] {
			x = strings.TrimSpace(x)
			if x != "" && !isHex(x) {
				text = x
				break
			}
		}
		ins = append(ins, insn{a, text})
	}
	if len(ins) == 0 {
		return nil, fmt.Errorf("assembly transform not found in %s (purego build?)", exe)
	}
	return ins, nil
}

func isHex(s string) bool {
	for _, c := range s {
		if !strings.ContainsRune("0123456789abcdef", c) {
			return false
		}
	}
	return true
}

var memRe = regexp.MustCompile(`(-?0x[0-9a-f]+|-?\d+)?\((\w+)\)(?:\((\w+)\*(\d)\))?`)

func regVal(r *syscall.PtraceRegs, name string) (uint64, bool) {
	switch name {
	case "AX":
		return r.Rax, true
	case "BX":
		return r.Rbx, true
	case "CX":
		return r.Rcx, true
	case "DX":
		return r.Rdx, true
	case "SI":
		return r.Rsi, true
	case "DI":
		return r.Rdi, true
	case "SP":
		return r.Rsp, true
	case "BP":
		return r.Rbp, true
	case "R8":
		return r.R8, true
	case "R9":
		return r.R9, true
	case "R10":
		return r.R10, true
	case "R11":
		return r.R11, true
	case "R12":
		return r.R12, true
	case "R13":
		return r.R13, true
	case "R14":
		return r.R14, true
	case "R15":
		return r.R15, true
	}
	return 0, false
}

// Probe is the body of the traced child: one call of the build-selected transform.
func Probe(style int, seed int64) {
	runtime.LockOSThread()
	var lto, hto, lfrom, hfrom [curl.StateSize]uint
	x := uint64(seed)*6364136223846793005 + 1442695040888963407
	next := func() uint64 { x ^= x << 13; x ^= x >> 7; x ^= x << 17; return x }
	for i := range lfrom {
		switch style {
		case 0:
			lfrom[i], hfrom[i] = uint(next()), uint(next())
		case 1:
			lfrom[i], hfrom[i] = ^uint(0), ^uint(0)
		default:
		}
	}
	curl.VerifTransform(&lto, &hto, &lfrom, &hfrom)
	h := sha256.New()
	for i := range lto {
		fmt.Fprintf(h, "%x,%x;", lto[i], hto[i])
	}
	fmt.Printf("OUTPUT %s\n", hex.EncodeToString(h.Sum(nil)))
}

// Trace runs `exe asmprobe <style> <seed>` under ptrace and checks every access.
func Trace(exe string, style int, seed int64) (*Result, error) {
	ins, err := disassemble(exe)
	if err != nil {
		return nil, err
	}
	byAddr := map[uint64]string{}
	for _, i := range ins {
		byAddr[i.addr] = i.text
	}
	entry := ins[0].addr
	end := ins[len(ins)-1].addr + 16

	runtime.LockOSThread()
	defer runtime.UnlockOSThread()
	rd, wr, err := os.Pipe()
	if err != nil {
		return nil, err
	}
	cmd := exec.Command(exe, "asmprobe", strconv.Itoa(style), strconv.FormatInt(seed, 10))
	cmd.Env = append(os.Environ(), "GODEBUG=asyncpreemptoff=1", "GOMAXPROCS=1")
	cmd.Stdout = wr
	cmd.Stderr = wr
	cmd.SysProcAttr = &syscall.SysProcAttr{Ptrace: true}
	if err := cmd.Start(); err != nil {
		return nil, fmt.Errorf("start traced child: %v", err)
	}
	wr.Close()
	pid := cmd.Process.Pid
	defer func() { syscall.Kill(pid, syscall.SIGKILL); cmd.Wait() }()
	var ws syscall.WaitStatus
	if _, err := syscall.Wait4(pid, &ws, 0, nil); err != nil {
		return nil, fmt.Errorf("wait for exec stop: %v", err)
	}
	if !ws.Stopped() {
		return nil, fmt.Errorf("child did not stop at exec: %v", ws)
	}
	syscall.PtraceSetOptions(pid, 0x100000) // PTRACE_O_EXITKILL
	// breakpoint at the function entry
	orig := make([]byte, 1)
	if _, err := syscall.PtracePeekText(pid, uintptr(entry), orig); err != nil {
		return nil, fmt.Errorf("peek entry: %v", err)
	}
	if _, err := syscall.PtracePokeText(pid, uintptr(entry), []byte{0xCC}); err != nil {
		return nil, fmt.Errorf("poke breakpoint: %v", err)
	}
	var regs syscall.PtraceRegs
	sig := 0
	for {
		if err := syscall.PtraceCont(pid, sig); err != nil {
			return nil, fmt.Errorf("cont: %v", err)
		}
		if _, err := syscall.Wait4(pid, &ws, 0, nil); err != nil {
			return nil, fmt.Errorf("wait: %v", err)
		}
		if ws.Exited() || ws.Signaled() {
			return nil, fmt.Errorf("child ended before reaching the assembly routine: %v", ws)
		}
		sig = 0
		if ws.StopSignal() == syscall.SIGTRAP {
			if err := syscall.PtraceGetRegs(pid, &regs); err != nil {
				return nil, err
			}
			if regs.Rip == entry+1 {
				break
			}
			continue
		}
		sig = int(ws.StopSignal()) // pass other signals (SIGURG, SIGCHLD, ...) on
	}
	if _, err := syscall.PtracePokeText(pid, uintptr(entry), orig); err != nil {
		return nil, err
	}
	regs.Rip = entry
	if err := syscall.PtraceSetRegs(pid, &regs); err != nil {
		return nil, err
	}
	// arguments: ABI0, after CALL: 8(SP)=lto 16(SP)=hto 24(SP)=lfrom 32(SP)=hfrom
	args := make([]byte, 40)
	if _, err := syscall.PtracePeekData(pid, uintptr(regs.Rsp), args); err != nil {
		return nil, fmt.Errorf("peek args: %v", err)
	}
	names := []string{"lto", "hto", "lfrom", "hfrom"}
	base := make([]uint64, 4)
	for k := range base {
		base[k] = *(*uint64)(unsafe.Pointer(&args[8+8*k]))
	}
	argLo, argHi := regs.Rsp+8, regs.Rsp+40
	const bufBytes = 729 * 8

	res := &Result{Reads: map[string]int{}, Writes: map[string]int{}, MinOff: map[string]int64{}, MaxOff: map[string]int64{},
		FunctionBytes: int(ins[len(ins)-1].addr - entry), StaticInsns: len(ins)}
	digest := sha256.New()
	seenInsn := map[uint64]bool{}
	unknown := map[string]bool{}
	var line [24]byte
	for {
		if regs.Rip < entry || regs.Rip >= end {
			break // returned to the caller
		}
		text, ok := byAddr[regs.Rip]
		if !ok {
			res.Violations = append(res.Violations, fmt.Sprintf("execution at 0x%x inside the routine's range is not an instruction boundary of the disassembly", regs.Rip))
			break
		}
		res.Steps++
		seenInsn[regs.Rip] = true
		le64(line[0:], regs.Rip-entry)
		kind, rel := uint64(0), uint64(0)
		if m := memRe.FindStringSubmatch(text); m != nil && !strings.HasPrefix(text, "J") && !strings.HasPrefix(text, "LEA") {
			var disp int64
			if m[1] != "" {
				d, err := strconv.ParseInt(m[1], 0, 64)
				if err != nil {
					unknown[text] = true
				}
				disp = d
			}
			b, ok1 := regVal(&regs, m[2])
			ea := b + uint64(disp)
			ok2 := true
			if m[3] != "" {
				var idx uint64
				idx, ok2 = regVal(&regs, m[3])
				sc, _ := strconv.Atoi(m[4])
				ea += idx * uint64(sc)
			}
			mnemonic := strings.Fields(text)[0]
			if !ok1 || !ok2 || (mnemonic != "MOVQ") {
				unknown[text] = true
			}
			// destination is the last operand in Go syntax
			isWrite := strings.HasSuffix(strings.TrimSpace(text), ")")
			res.MemAccesses++
			found := false
			for k := range base {
				if ea >= base[k] && ea+8 <= base[k]+bufBytes {
					found = true
					off := int64(ea - base[k])
					if isWrite {
						res.Writes[names[k]]++
					} else {
						res.Reads[names[k]]++
					}
					if v, ok := res.MinOff[names[k]]; !ok || off < v {
						res.MinOff[names[k]] = off
					}
					if v, ok := res.MaxOff[names[k]]; !ok || off > v {
						res.MaxOff[names[k]] = off
					}
					kind, rel = uint64(k+1), uint64(off)
					if isWrite {
						kind += 8
					}
				}
			}
			if !found {
				if !isWrite && ea >= argLo && ea+8 <= argHi {
					res.StackAccesses++
					kind, rel = 16, ea-argLo
				} else if len(res.Violations) < 10 {
					where := fmt.Sprintf("0x%x", ea)
					for k := range base {
						if d := int64(ea) - int64(base[k]); d > -1<<21 && d < 1<<21 {
							where = fmt.Sprintf("buffer %s %+d bytes", names[k], d)
						}
					}
					w := "read"
					if isWrite {
						w = "write"
					}
					res.Violations = append(res.Violations, fmt.Sprintf("instruction %q at +0x%x: %s of 8 bytes at %s is outside the four buffers (step %d)", text, regs.Rip-entry, w, where, res.Steps))
				}
			}
		} else if strings.HasPrefix(text, "RET") {
			kind = 32 // reads the return address
		}
		le64(line[8:], kind)
		le64(line[16:], rel)
		digest.Write(line[:])
		if res.Steps > 5000000 {
			res.Violations = append(res.Violations, "more than 5,000,000 instructions executed inside the routine")
			break
		}
		if err := syscall.PtraceSingleStep(pid); err != nil {
			return nil, fmt.Errorf("singlestep: %v", err)
		}
		if _, err := syscall.Wait4(pid, &ws, 0, nil); err != nil {
			return nil, fmt.Errorf("wait: %v", err)
		}
		if ws.Exited() || ws.Signaled() {
			res.Violations = append(res.Violations, fmt.Sprintf("child died inside the routine: %v", ws))
			break
		}
		if ws.StopSignal() != syscall.SIGTRAP {
			// a signal arrived (e.g. a fault): report and stop
			if ws.StopSignal() == syscall.SIGSEGV || ws.StopSignal() == syscall.SIGBUS {
				res.Violations = append(res.Violations, fmt.Sprintf("signal %v inside the routine at +0x%x (%s)", ws.StopSignal(), regs.Rip-entry, text))
				break
			}
		}
		if err := syscall.PtraceGetRegs(pid, &regs); err != nil {
			return nil, err
		}
	}
	res.TraceDigest = hex.EncodeToString(digest.Sum(nil))
	res.DistinctInsns = len(seenInsn)
	for u := range unknown {
		res.UnknownForms = append(res.UnknownForms, u)
	}
	// let the child finish and collect its output digest
	syscall.PtraceDetach(pid)
	outb := make([]byte, 4096)
	n, _ := rd.Read(outb)
	rd.Close()
	for _, l := range strings.Split(string(outb[:n]), "\n") {
		if strings.HasPrefix(l, "OUTPUT ") {
			res.OutputDigest = strings.TrimPrefix(l, "OUTPUT ")
		}
	}
	return res, nil
}

func le64(b []byte, v uint64) {
	for i := 0; i < 8; i++ {
		b[i] = byte(v >> (8 * uint(i)))
	}
}

// Main is the entry point of `vmon asmtrace`: traces three inputs, compares the relative
// traces and prints a JSON report. Exit code 0 = clean, 1 = violation, 2 = unavailable.
func Main(exe string) int {
	type report struct {
		Available bool      `json:"available"`
		Reason    string    `json:"reason,omitempty"`
		Runs      []*Result `json:"runs"`
		SameTrace bool      `json:"relative_traces_identical"`
		Problems  []string  `json:"problems"`
	}
	rep := report{Available: true}
	code := 0
	for i, in := range [][2]int64{{0, 1}, {0, 2}, {1, 0}} {
		r, err := Trace(exe, int(in[0]), in[1])
		if err != nil {
			rep.Available = false
			rep.Reason = err.Error()
			code = 2
			break
		}
		rep.Runs = append(rep.Runs, r)
		for _, v := range r.Violations {
			rep.Problems = append(rep.Problems, fmt.Sprintf("input %d: %s", i, v))
		}
		for _, u := range r.UnknownForms {
			rep.Problems = append(rep.Problems, fmt.Sprintf("input %d: memory operand in an unexpected instruction form %q", i, u))
		}
	}
	if rep.Available {
		rep.SameTrace = true
		for _, r := range rep.Runs[1:] {
			if r.TraceDigest != rep.Runs[0].TraceDigest || r.Steps != rep.Runs[0].Steps {
				rep.SameTrace = false
			}
		}
		if !rep.SameTrace {
			rep.Problems = append(rep.Problems, "the instruction/address trace depends on the input data")
		}
		if len(rep.Problems) > 0 {
			code = 1
		}
	}
	js, _ := json.MarshalIndent(rep, "", " ")
	fmt.Println(string(js))
	return code
}
