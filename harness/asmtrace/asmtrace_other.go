//go:build !(amd64 && linux)

// Package asmtrace: the single-step tracer exists for linux/amd64 only (there is no assembly
// routine on other targets).
package asmtrace

import "fmt"

// Probe is a no-op on this target.
func Probe(style int, seed int64) {}

// Main reports that the tracer is unavailable.
func Main(exe string) int {
	fmt.Println(`{"available": false, "reason": "no assembly routine on this target"}`)
	return 2
}
