// Package weier is a naive affine model of short-Weierstrass curves
// y^2 = x^3 + a*x + b over a prime field with an explicit point at infinity,
// used as the oracle for secp256k1 and NIST P-256.
package weier

import (
	"crypto/elliptic"
	"fmt"
	"math/big"
	"math/rand"
)

// Curve holds the domain parameters.
type Curve struct {
	Name       string
	P, A, B, N *big.Int
	Gx, Gy     *big.Int
	sqrtExp    *big.Int
}

// Pt is an affine point or the point at infinity.
type Pt struct {
	X, Y *big.Int
	Inf  bool
}

func hexInt(s string) *big.Int {
	v, ok := new(big.Int).SetString(s, 16)
	if !ok {
		panic("bad hex")
	}
	return v
}

var secp = &Curve{
	Name: "secp256k1",
	P:    hexInt("FFFFFFFFFFFFFFFFFFFFFFFFFFFFFFFFFFFFFFFFFFFFFFFFFFFFFFFEFFFFFC2F"),
	A:    big.NewInt(0),
	B:    big.NewInt(7),
	N:    hexInt("FFFFFFFFFFFFFFFFFFFFFFFFFFFFFFFEBAAEDCE6AF48A03BBFD25E8CD0364141"),
	Gx:   hexInt("79BE667EF9DCBBAC55A06295CE870B07029BFCDB2DCE28D959F2815B16F81798"),
	Gy:   hexInt("483ADA7726A3C4655DA4FBFC0E1108A8FD17B448A68554199C47D08FFB10D4B8"),
}

var p256 = &Curve{
	Name: "P-256",
	P:    hexInt("ffffffff00000001000000000000000000000000ffffffffffffffffffffffff"),
	A:    hexInt("ffffffff00000001000000000000000000000000fffffffffffffffffffffffc"),
	B:    hexInt("5ac635d8aa3a93e7b3ebbd55769886bc651d06b0cc53b0f63bce3c3e27d2604b"),
	N:    hexInt("ffffffff00000000ffffffffffffffffbce6faada7179e84f3b9cac2fc632551"),
	Gx:   hexInt("6b17d1f2e12c4247f8bce6e563a440f277037d812deb33a0f4a13945d898c296"),
	Gy:   hexInt("4fe342e2fe1a7f9b8ee7eb4a7c0f9e162bce33576b315ececbb6406837bf51f5"),
}

func init() {
	for _, c := range []*Curve{secp, p256} {
		e := new(big.Int).Add(c.P, big.NewInt(1))
		c.sqrtExp = e.Rsh(e, 2)
	}
}

// Secp256k1 returns the secp256k1 parameters (SEC 2, 2.4.1).
func Secp256k1() *Curve { return secp }

// P256 returns the NIST P-256 parameters (FIPS 186-4, D.1.2.3).
func P256() *Curve { return p256 }

// Inf returns the point at infinity.
func Inf() Pt { return Pt{Inf: true} }

// G returns the base point.
func (c *Curve) G() Pt { return Pt{X: new(big.Int).Set(c.Gx), Y: new(big.Int).Set(c.Gy)} }

func (c *Curve) mod(x *big.Int) *big.Int { return x.Mod(x, c.P) }

// OnCurve reports whether (x, y) with 0 <= x, y < p satisfies the curve equation.
func (c *Curve) OnCurve(x, y *big.Int) bool {
	if x.Sign() < 0 || y.Sign() < 0 || x.Cmp(c.P) >= 0 || y.Cmp(c.P) >= 0 {
		return false
	}
	l := c.mod(new(big.Int).Mul(y, y))
	r := new(big.Int).Mul(x, x)
	r.Mul(r, x)
	r.Add(r, new(big.Int).Mul(c.A, x))
	r.Add(r, c.B)
	c.mod(r)
	return l.Cmp(r) == 0
}

// Neg returns -p.
func (c *Curve) Neg(p Pt) Pt {
	if p.Inf {
		return p
	}
	return Pt{X: new(big.Int).Set(p.X), Y: c.mod(new(big.Int).Neg(p.Y))}
}

// Add returns p + q by the textbook chord-and-tangent rule.
func (c *Curve) Add(p, q Pt) Pt {
	if p.Inf {
		return q
	}
	if q.Inf {
		return p
	}
	var lam *big.Int
	if p.X.Cmp(q.X) == 0 {
		if p.Y.Cmp(q.Y) != 0 || p.Y.Sign() == 0 {
			return Inf()
		}
		// tangent: (3x^2 + a) / (2y)
		num := new(big.Int).Mul(p.X, p.X)
		num.Mul(num, big.NewInt(3))
		num.Add(num, c.A)
		den := new(big.Int).Lsh(p.Y, 1)
		lam = num.Mul(num, new(big.Int).ModInverse(c.mod(den), c.P))
	} else {
		num := new(big.Int).Sub(q.Y, p.Y)
		den := c.mod(new(big.Int).Sub(q.X, p.X))
		lam = num.Mul(num, new(big.Int).ModInverse(den, c.P))
	}
	c.mod(lam)
	x3 := new(big.Int).Mul(lam, lam)
	x3.Sub(x3, p.X)
	x3.Sub(x3, q.X)
	c.mod(x3)
	y3 := new(big.Int).Sub(p.X, x3)
	y3.Mul(y3, lam)
	y3.Sub(y3, p.Y)
	c.mod(y3)
	return Pt{X: x3, Y: y3}
}

// MulAffine returns [k]p for k >= 0 by double-and-add over the affine chord-and-tangent rule
// (the reference the faster Jacobian ladder is checked against in SelfTest).
func (c *Curve) MulAffine(k *big.Int, p Pt) Pt {
	r := Inf()
	for i := k.BitLen() - 1; i >= 0; i-- {
		r = c.Add(r, r)
		if k.Bit(i) == 1 {
			r = c.Add(r, p)
		}
	}
	return r
}

type jac struct{ x, y, z *big.Int } // z = 0 is the point at infinity

func (c *Curve) mm(a, b *big.Int) *big.Int { return c.mod(new(big.Int).Mul(a, b)) }

func (c *Curve) jdouble(p jac) jac {
	if p.z.Sign() == 0 || p.y.Sign() == 0 {
		return jac{big.NewInt(1), big.NewInt(1), big.NewInt(0)}
	}
	y2 := c.mm(p.y, p.y)
	s := c.mm(big.NewInt(4), c.mm(p.x, y2))
	z2 := c.mm(p.z, p.z)
	m := c.mm(big.NewInt(3), c.mm(p.x, p.x))
	m.Add(m, c.mm(c.A, c.mm(z2, z2)))
	c.mod(m)
	x3 := c.mm(m, m)
	x3.Sub(x3, new(big.Int).Lsh(s, 1))
	c.mod(x3)
	y3 := new(big.Int).Sub(s, x3)
	y3 = c.mm(m, c.mod(y3))
	y3.Sub(y3, c.mm(big.NewInt(8), c.mm(y2, y2)))
	c.mod(y3)
	z3 := c.mm(big.NewInt(2), c.mm(p.y, p.z))
	return jac{x3, y3, z3}
}

func (c *Curve) jadd(p, q jac) jac {
	if p.z.Sign() == 0 {
		return q
	}
	if q.z.Sign() == 0 {
		return p
	}
	z1z1, z2z2 := c.mm(p.z, p.z), c.mm(q.z, q.z)
	u1, u2 := c.mm(p.x, z2z2), c.mm(q.x, z1z1)
	s1, s2 := c.mm(p.y, c.mm(q.z, z2z2)), c.mm(q.y, c.mm(p.z, z1z1))
	if u1.Cmp(u2) == 0 {
		if s1.Cmp(s2) != 0 {
			return jac{big.NewInt(1), big.NewInt(1), big.NewInt(0)}
		}
		return c.jdouble(p)
	}
	h := c.mod(new(big.Int).Sub(u2, u1))
	r := c.mod(new(big.Int).Sub(s2, s1))
	h2 := c.mm(h, h)
	h3 := c.mm(h2, h)
	u1h2 := c.mm(u1, h2)
	x3 := c.mm(r, r)
	x3.Sub(x3, h3)
	x3.Sub(x3, new(big.Int).Lsh(u1h2, 1))
	c.mod(x3)
	y3 := c.mm(r, c.mod(new(big.Int).Sub(u1h2, x3)))
	y3.Sub(y3, c.mm(s1, h3))
	c.mod(y3)
	z3 := c.mm(h, c.mm(p.z, q.z))
	return jac{x3, y3, z3}
}

func (c *Curve) toAffine(p jac) Pt {
	if p.z.Sign() == 0 {
		return Inf()
	}
	zi := new(big.Int).ModInverse(p.z, c.P)
	zi2 := c.mm(zi, zi)
	return Pt{X: c.mm(p.x, zi2), Y: c.mm(p.y, c.mm(zi2, zi))}
}

// Mul returns [k]p for k >= 0 (Jacobian double-and-add with explicit exceptional cases; checked
// against MulAffine in SelfTest).
func (c *Curve) Mul(k *big.Int, p Pt) Pt {
	if p.Inf {
		return Inf()
	}
	base := jac{new(big.Int).Set(p.X), new(big.Int).Set(p.Y), big.NewInt(1)}
	r := jac{big.NewInt(1), big.NewInt(1), big.NewInt(0)}
	for i := k.BitLen() - 1; i >= 0; i-- {
		r = c.jdouble(r)
		if k.Bit(i) == 1 {
			r = c.jadd(r, base)
		}
	}
	return c.toAffine(r)
}

// BaseMul returns [k]G.
func (c *Curve) BaseMul(k *big.Int) Pt { return c.Mul(k, c.G()) }

// Equal compares two points.
func Equal(p, q Pt) bool {
	if p.Inf || q.Inf {
		return p.Inf == q.Inf
	}
	return p.X.Cmp(q.X) == 0 && p.Y.Cmp(q.Y) == 0
}

// Compress returns the 33-byte SEC1 compressed encoding of a finite point.
func (c *Curve) Compress(p Pt) []byte {
	if p.Inf {
		panic("weier: cannot compress the point at infinity")
	}
	out := make([]byte, 33)
	out[0] = 2 + byte(p.Y.Bit(0))
	p.X.FillBytes(out[1:])
	return out
}

// LiftX returns a point with the given x coordinate, if one exists (p = 3 mod 4 for both curves).
func (c *Curve) LiftX(x *big.Int) (Pt, bool) {
	r := new(big.Int).Mul(x, x)
	r.Mul(r, x)
	r.Add(r, new(big.Int).Mul(c.A, x))
	r.Add(r, c.B)
	c.mod(r)
	y := new(big.Int).Exp(r, c.sqrtExp, c.P)
	if c.mod(new(big.Int).Mul(y, y)).Cmp(r) != 0 {
		return Pt{}, false
	}
	return Pt{X: new(big.Int).Set(x), Y: y}, true
}

func (p Pt) String() string {
	if p.Inf {
		return "(infinity)"
	}
	return fmt.Sprintf("(%x, %x)", p.X, p.Y)
}

// SelfTest validates the model: published multiples of the secp256k1 base
// point, group order, and agreement with crypto/elliptic P-256.
func SelfTest() error {
	for _, c := range []*Curve{secp, p256} {
		if !c.OnCurve(c.Gx, c.Gy) {
			return fmt.Errorf("weier: %s base point not on curve", c.Name)
		}
		if !c.BaseMul(c.N).Inf {
			return fmt.Errorf("weier: %s [n]G is not infinity", c.Name)
		}
		nm1 := new(big.Int).Sub(c.N, big.NewInt(1))
		if !Equal(c.BaseMul(nm1), c.Neg(c.G())) {
			return fmt.Errorf("weier: %s [n-1]G != -G", c.Name)
		}
		if !c.P.ProbablyPrime(20) || !c.N.ProbablyPrime(20) {
			return fmt.Errorf("weier: %s parameters not prime", c.Name)
		}
	}
	// the Jacobian ladder agrees with affine double-and-add, including the exceptional scalars
	rr := rand.New(rand.NewSource(3))
	for _, c := range []*Curve{secp, p256} {
		ks := []*big.Int{big.NewInt(0), big.NewInt(1), big.NewInt(2), big.NewInt(3), new(big.Int).Sub(c.N, big.NewInt(1)), new(big.Int).Set(c.N),
			new(big.Int).Add(c.N, big.NewInt(1)), new(big.Int).Add(c.N, big.NewInt(2)), new(big.Int).Lsh(c.N, 1)}
		for i := 0; i < 6; i++ {
			b := make([]byte, 33)
			rr.Read(b)
			ks = append(ks, new(big.Int).SetBytes(b))
		}
		pt := c.MulAffine(big.NewInt(int64(5+rr.Intn(100))), c.G())
		for _, k := range ks {
			if !Equal(c.Mul(k, pt), c.MulAffine(k, pt)) || !Equal(c.Mul(k, c.G()), c.MulAffine(k, c.G())) {
				return fmt.Errorf("weier: %s Jacobian ladder disagrees with affine double-and-add for k=%v", c.Name, k)
			}
		}
	}
	// secp256k1: 2G and 3G from the published test vectors
	g2 := secp.BaseMul(big.NewInt(2))
	if g2.X.Cmp(hexInt("C6047F9441ED7D6D3045406E95C07CD85C778E4B8CEF3CA7ABAC09B95C709EE5")) != 0 ||
		g2.Y.Cmp(hexInt("1AE168FEA63DC339A3C58419466CEAEEF7F632653266D0E1236431A950CFE52A")) != 0 {
		return fmt.Errorf("weier: secp256k1 2G mismatch: %v", g2)
	}
	g3 := secp.BaseMul(big.NewInt(3))
	if g3.X.Cmp(hexInt("F9308A019258C31049344F85F89D5229B531C845836F99B08601F113BCE036F9")) != 0 ||
		g3.Y.Cmp(hexInt("388F7B0F632DE8140FE337E62A37F3566500A99934C2231B6CB9FD7584B8E672")) != 0 {
		return fmt.Errorf("weier: secp256k1 3G mismatch: %v", g3)
	}
	// P-256 against the standard library
	std := elliptic.P256()
	r := rand.New(rand.NewSource(11))
	for i := 0; i < 8; i++ {
		kb := make([]byte, 32)
		r.Read(kb)
		k := new(big.Int).SetBytes(kb)
		sx, sy := std.ScalarBaseMult(kb)
		m := p256.BaseMul(k)
		if m.Inf || m.X.Cmp(sx) != 0 || m.Y.Cmp(sy) != 0 {
			return fmt.Errorf("weier: P-256 [k]G differs from crypto/elliptic")
		}
		if string(p256.Compress(m)) != string(elliptic.MarshalCompressed(std, sx, sy)) {
			return fmt.Errorf("weier: compressed encoding differs from crypto/elliptic")
		}
	}
	return nil
}
