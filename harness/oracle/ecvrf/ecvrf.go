// Package ecvrf is an independent model of ECVRF-EDWARDS25519-SHA512-TAI
// (RFC 9381, suite 0x03) over the big-integer curve model in oracle/ed.
package ecvrf

import (
	"bytes"
	"crypto/sha512"
	"encoding/hex"
	"fmt"
	"math/big"

	"verif/harness/oracle/ed"
)

const suite = 0x03

// EncodeToCurve is ECVRF_encode_to_curve_try_and_increment (section 5.4.1.1);
// it also reports the counter value at which a point was found.
func EncodeToCurve(salt, alpha []byte) (*ed.Point, int) {
	for ctr := 0; ctr < 256; ctr++ {
		h := sha512.New()
		h.Write([]byte{suite, 0x01})
		h.Write(salt)
		h.Write(alpha)
		h.Write([]byte{byte(ctr), 0x00})
		hs := h.Sum(nil)
		pt, ok := ed.Decode(hs[:32], true)
		if !ok {
			continue
		}
		pt = pt.Mul8()
		if pt.IsIdentity() {
			continue
		}
		return pt, ctr
	}
	panic("ecvrf model: encode_to_curve failed")
}

// Challenge is ECVRF_challenge_generation (section 5.4.3) on encoded points.
func Challenge(p1, p2, p3, p4, p5 []byte) *big.Int { return challenge(p1, p2, p3, p4, p5) }

func challenge(p1, p2, p3, p4, p5 []byte) *big.Int {
	h := sha512.New()
	h.Write([]byte{suite, 0x02})
	h.Write(p1)
	h.Write(p2)
	h.Write(p3)
	h.Write(p4)
	h.Write(p5)
	h.Write([]byte{0x00})
	return ed.LE(h.Sum(nil)[:16])
}

// Prove returns the 80-byte proof pi_string for the 32-byte secret seed and alpha (section 5.1).
func Prove(seed, alpha []byte) []byte {
	pub, x, _ := ed.PublicFromSeed(seed)
	hsk := sha512.Sum512(seed)
	H, _ := EncodeToCurve(pub, alpha)
	hStr := H.Encode()
	gamma := H.Mul(x)
	// nonce generation (section 5.4.2.2)
	k := ed.HashModL(hsk[32:], hStr)
	c := challenge(pub, hStr, gamma.Encode(), ed.BaseMul(k).Encode(), H.Mul(k).Encode())
	s := new(big.Int).Mul(c, x)
	s.Add(s, k).Mod(s, ed.L)
	out := append([]byte(nil), gamma.Encode()...)
	out = append(out, ed.ToLE(c, 16)...)
	return append(out, ed.ToLE(s, 32)...)
}

// DecodeProof is ECVRF_decode_proof (section 5.4.4).
func DecodeProof(pi []byte) (gamma *ed.Point, c, s *big.Int, ok bool) {
	if len(pi) != 80 {
		return nil, nil, nil, false
	}
	gamma, ok = ed.Decode(pi[:32], true)
	if !ok {
		return nil, nil, nil, false
	}
	c = ed.LE(pi[32:48])
	s = ed.LE(pi[48:80])
	if s.Cmp(ed.L) >= 0 {
		return nil, nil, nil, false
	}
	return gamma, c, s, true
}

// ProofToHash is ECVRF_proof_to_hash (section 5.2); ok=false for an undecodable proof.
func ProofToHash(pi []byte) ([]byte, bool) {
	gamma, _, _, ok := DecodeProof(pi)
	if !ok {
		return nil, false
	}
	return hashOf(gamma), true
}

func hashOf(gamma *ed.Point) []byte {
	h := sha512.New()
	h.Write([]byte{suite, 0x03})
	h.Write(gamma.Mul8().Encode())
	h.Write([]byte{0x00})
	return h.Sum(nil)
}

// Verify is ECVRF_verify (section 5.3) with validate_key = TRUE.
func Verify(pub, alpha, pi []byte) (bool, []byte) {
	if len(pub) != 32 {
		return false, nil
	}
	Y, ok := ed.Decode(pub, true)
	if !ok {
		return false, nil
	}
	if Y.Mul8().IsIdentity() {
		return false, nil
	}
	gamma, c, s, ok := DecodeProof(pi)
	if !ok {
		return false, nil
	}
	H, _ := EncodeToCurve(pub, alpha)
	U := ed.BaseMul(s).Sub(Y.Mul(c))
	V := H.Mul(s).Sub(gamma.Mul(c))
	c2 := challenge(pub, H.Encode(), gamma.Encode(), U.Encode(), V.Encode())
	if c.Cmp(c2) != 0 {
		return false, nil
	}
	return true, hashOf(gamma)
}

// RFC 9381 appendix B.3 examples 16-18 (ECVRF-EDWARDS25519-SHA512-TAI): sk, pk, alpha, pi, beta.
var rfc9381 = [][5]string{
	{"9d61b19deffd5a60ba844af492ec2cc44449c5697b326919703bac031cae7f60", "d75a980182b10ab7d54bfed3c964073a0ee172f3daa62325af021a68f707511a", "",
		"8657106690b5526245a92b003bb079ccd1a92130477671f6fc01ad16f26f723f26f8a57ccaed74ee1b190bed1f479d9727d2d0f9b005a6e456a35d4fb0daab1268a1b0db10836d9826a528ca76567805",
		"90cf1df3b703cce59e2a35b925d411164068269d7b2d29f3301c03dd757876ff66b71dda49d2de59d03450451af026798e8f81cd2e333de5cdf4f3e140fdd8ae"},
	{"4ccd089b28ff96da9db6c346ec114e0f5b8a319f35aba624da8cf6ed4fb8a6fb", "3d4017c3e843895a92b70aa74d1b7ebc9c982ccf2ec4968cc0cd55f12af4660c", "72",
		"f3141cd382dc42909d19ec5110469e4feae18300e94f304590abdced48aed5933bf0864a62558b3ed7f2fea45c92a465301b3bbf5e3e54ddf2d935be3b67926da3ef39226bbc355bdc9850112c8f4b02",
		"eb4440665d3891d668e7e0fcaf587f1b4bd7fbfe99d0eb2211ccec90496310eb5e33821bc613efb94db5e5b54c70a848a0bef4553a41befc57663b56373a5031"},
	{"c5aa8df43f9f837bedb7442f31dcb7b166d38535076f094b85ce3a2e0b4458f7", "fc51cd8e6218a1a38da47ed00230f0580816ed13ba3303ac5deb911548908025", "af82",
		"9bc0f79119cc5604bf02d23b4caede71393cedfbb191434dd016d30177ccbf8096bb474e53895c362d8628ee9f9ea3c0e52c7a5c691b6c18c9979866568add7a2d41b00b05081ed0f58ee5e31b3a970e",
		"645427e5d00c62a23fb703732fa5d892940935942101e456ecca7bb217c61c452118fec1219202a0edcf038bb6373241578be7217ba85a2687f7a0310b2df19f"},
}

// SelfTest checks the model against the RFC 9381 examples.
func SelfTest() error {
	if err := ed.SelfTest(); err != nil {
		return err
	}
	for _, v := range rfc9381 {
		sk, _ := hex.DecodeString(v[0])
		pk, _ := hex.DecodeString(v[1])
		alpha, _ := hex.DecodeString(v[2])
		pi, _ := hex.DecodeString(v[3])
		beta, _ := hex.DecodeString(v[4])
		if got := Prove(sk, alpha); !bytes.Equal(got, pi) {
			return fmt.Errorf("ecvrf model: RFC 9381 proof mismatch for sk %s: %x", v[0], got)
		}
		ok, b := Verify(pk, alpha, pi)
		if !ok || !bytes.Equal(b, beta) {
			return fmt.Errorf("ecvrf model: RFC 9381 example rejected or wrong beta for sk %s", v[0])
		}
		if b2, ok := ProofToHash(pi); !ok || !bytes.Equal(b2, beta) {
			return fmt.Errorf("ecvrf model: proof_to_hash mismatch")
		}
		bad := append([]byte(nil), pi...)
		bad[40] ^= 1
		if ok, _ := Verify(pk, alpha, bad); ok {
			return fmt.Errorf("ecvrf model: corrupted proof accepted")
		}
	}
	return nil
}
