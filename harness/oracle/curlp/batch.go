package curlp

// A bit-sliced 64-lane Curl-P-81 used where the single-lane model would be too slow (re-hashing tens of
// thousands of skipped nonces). It is written from the same definition (lane j of word i holds trit i of
// hash j: trit 1 = (l=0,h=1), trit -1 = (l=1,h=0), trit 0 = (l=1,h=1)) and is checked against the
// single-lane model in SelfTest.

// Hash64 hashes up to 64 inputs of 243 trits each (one block) and returns their 243-trit hashes.
func Hash64(in [][]int8) [][]int8 {
	var l, h, l2, h2 [StateLen]uint64
	for i := range l {
		l[i], h[i] = ^uint64(0), ^uint64(0)
	}
	for j, t := range in {
		for i := 0; i < HashLen; i++ {
			switch t[i] {
			case 1:
				l[i] &^= 1 << uint(j)
			case -1:
				h[i] &^= 1 << uint(j)
			}
		}
	}
	from, fromH, to, toH := &l, &h, &l2, &h2
	for r := 0; r < NumRounds; r++ {
		for i := 0; i < StateLen; i++ {
			aL, aH := from[walk[i]], fromH[walk[i]]
			bL, bH := from[walk[i+1]], fromH[walk[i+1]]
			tmp := aL & (aH ^ bL)
			to[i] = ^tmp
			toH[i] = (aL ^ bH) | tmp
		}
		from, fromH, to, toH = to, toH, from, fromH
	}
	out := make([][]int8, len(in))
	for j := range in {
		o := make([]int8, HashLen)
		for i := 0; i < HashLen; i++ {
			o[i] = int8(fromH[i]>>uint(j)&1) - int8(from[i]>>uint(j)&1)
		}
		out[j] = o
	}
	return out
}
