// Package curlp is a single-lane, table-driven model of Curl-P-81 (the IOTA
// ternary sponge), written from the definition: truth table
// {1,0,-1,2,1,-1,0,2,-1,1,0} and the 364/-365 index walk over 729 trits.
// It also carries the small trit/tryte and b1t6 helpers the PoW checks need.
package curlp

import (
	"fmt"
	"math/big"
)

const (
	HashLen   = 243
	StateLen  = 729
	NumRounds = 81
)

var truth = [11]int8{1, 0, -1, 2, 1, -1, 0, 2, -1, 1, 0}

// walk[i] is the scratchpad index used (together with walk[i+1]) for state index i.
var walk [StateLen + 1]int

func init() {
	p := 0
	for i := 0; i <= StateLen; i++ {
		walk[i] = p
		if p < 365 {
			p += 364
		} else {
			p -= 365
		}
	}
}

// Transform applies the 81-round Curl-P permutation to a state of trits.
func Transform(st *[StateLen]int8) {
	var scratch [StateLen]int8
	for r := 0; r < NumRounds; r++ {
		scratch = *st
		for i := 0; i < StateLen; i++ {
			st[i] = truth[int(scratch[walk[i]])+int(scratch[walk[i+1]])*4+5]
		}
	}
}

// Sponge is one Curl-P-81 instance.
type Sponge struct {
	St        [StateLen]int8
	Squeezing bool
}

// Absorb absorbs trits (length a multiple of 243).
func (s *Sponge) Absorb(trits []int8) {
	for i := 0; i+HashLen <= len(trits); i += HashLen {
		copy(s.St[:HashLen], trits[i:i+HashLen])
		Transform(&s.St)
	}
}

// Squeeze squeezes n trits (a multiple of 243).
func (s *Sponge) Squeeze(n int) []int8 {
	out := make([]int8, 0, n)
	for len(out) < n {
		if s.Squeezing {
			Transform(&s.St)
		}
		s.Squeezing = true
		out = append(out, s.St[:HashLen]...)
	}
	return out
}

// Hash is absorb-then-squeeze of one block of output.
func Hash(trits []int8) []int8 {
	var s Sponge
	s.Absorb(trits)
	return s.Squeeze(HashLen)
}

// ---------------------------------------------------------------------------
// trits, trytes, b1t6

const TryteAlphabet = "9ABCDEFGHIJKLMNOPQRSTUVWXYZ"

// TrytesToTrits converts a tryte string ([9A-Z]) to balanced trits, 3 per tryte, little-endian.
func TrytesToTrits(s string) ([]int8, error) {
	out := make([]int8, 0, 3*len(s))
	for i := 0; i < len(s); i++ {
		v := -1
		for j := 0; j < 27; j++ {
			if TryteAlphabet[j] == s[i] {
				v = j
			}
		}
		if v < 0 {
			return nil, fmt.Errorf("not a tryte: %q", s[i])
		}
		if v > 13 {
			v -= 27
		}
		out = append(out, balanced(v, 3)...)
	}
	return out, nil
}

// TritsToTrytes converts trits (length a multiple of 3) to a tryte string.
func TritsToTrytes(t []int8) string {
	out := make([]byte, 0, len(t)/3)
	for i := 0; i+3 <= len(t); i += 3 {
		v := int(t[i]) + 3*int(t[i+1]) + 9*int(t[i+2])
		if v < 0 {
			v += 27
		}
		out = append(out, TryteAlphabet[v])
	}
	return string(out)
}

// balanced returns the n-trit little-endian balanced ternary representation of v.
func balanced(v, n int) []int8 {
	out := make([]int8, n)
	for i := 0; i < n; i++ {
		r := ((v % 3) + 3) % 3
		switch r {
		case 0:
			out[i] = 0
		case 1:
			out[i] = 1
			v--
		case 2:
			out[i] = -1
			v++
		}
		v /= 3
	}
	return out
}

// B1T6 encodes bytes as 6 balanced trits per byte (signed value), little-endian.
func B1T6(b []byte) []int8 {
	out := make([]int8, 0, 6*len(b))
	for _, x := range b {
		out = append(out, balanced(int(int8(x)), 6)...)
	}
	return out
}

// TrailingZeros counts the zero trits at the end.
func TrailingZeros(t []int8) int {
	n := 0
	for i := len(t) - 1; i >= 0 && t[i] == 0; i-- {
		n++
	}
	return n
}

// Base3 reads trits as a little-endian base-3 number with digit 2 for trit -1.
func Base3(t []int8) *big.Int {
	v := new(big.Int)
	three := big.NewInt(3)
	for i := len(t) - 1; i >= 0; i-- {
		v.Mul(v, three)
		d := int64(t[i])
		if d < 0 {
			d = 2
		}
		v.Add(v, big.NewInt(d))
	}
	return v
}

// Pow3 returns 3^n.
func Pow3(n int) *big.Int { return new(big.Int).Exp(big.NewInt(3), big.NewInt(int64(n)), nil) }

// ---------------------------------------------------------------------------

// Curl-P-81 vectors (single block, multi-block absorb, multi-block squeeze).
var vectors = [][2]string{
	{"QZELVPOZTGSBCMEIZWZBGFSRPQNSMBREV9QD9JINWPNHHVCIFFGMHUH99OLWPXUZ9AWKJVYEC9JDTKRZO",
		"9MMGDFTUNMXVFRWTMVYWHKIUMJRWZPYVYDYHNATZWSLWPUSULDZVSJJXQPKXENXJFLTSEEMBJIWZLLXBX"},
	{"RYFORW9EXEGYDLTYBS9XAFOSRSRKMGUFJKTWGMSPECZHU9WT9COVEABLXNOHSBKTTQOWYTQTJHZZKQTQSMDNUDYAJQRZQCLYLYROISDIUPPRJBSQDIRLQ9NHCTBMVTUERZIKCOWILRG9FIPIBMBQP9VJ9CBRLPJJQPDRBXFVDQDFHAJGXQKVGLTVNUO9NNSXHSPMHFUQ9P9OW9VBWYMFXYBGIOHUZZZKMHDDYVPEKHREXIHBUIO",
		"GDIDKYQRYDRSMSZZASGZLKW9OLKDMETHADSSGGBDHCDYML9G9DYXHEKEJZXVSCUSPEDEMQXPBAIB9BVIZ"},
	{"LLQLGFEBVXRSEARATBODKJWCTZO9DCVBIBEBEIQM9HBUF9DBW9HNWMERTJZMDMMYGEPNXKKNKYGCBBEVC",
		"NBIJTCEUDVSEWAUAWLDRAKFKNDL9JXBIODMRTZ9WNJMPYWXPLGGCHWAZLLWMDLNVDEADGEEXIXYTDHWLGTWYPCGJEIMRZTABCXQKVKRAJEWNSDCBUHKMJOIAHMUYZONEJUEWKCNRPQCEZKKXJBXNEZTCHZVIAYPYCGK9VRKIDMQ9EMSYUTKUVZLLBLZUGRTYHKULMFJPWIIRJTJIXRJOKXWPDJTZX9KBGPDPQKLNHR9QIVJKDFF"},
}

// SelfTest checks the model against published Curl-P-81 hashes and the b1t6 definition.
func SelfTest() error {
	for _, v := range vectors {
		in, err := TrytesToTrits(v[0])
		if err != nil {
			return err
		}
		var s Sponge
		s.Absorb(in)
		out := s.Squeeze(3 * len(v[1]))
		if TritsToTrytes(out) != v[1] {
			return fmt.Errorf("curlp model: hash of %s… is %s", v[0][:12], TritsToTrytes(out))
		}
	}
	// the bit-sliced 64-lane variant agrees with the single-lane model
	{
		x := uint64(88172645463325252)
		ins := make([][]int8, 64)
		for j := range ins {
			ins[j] = make([]int8, HashLen)
			for i := range ins[j] {
				x ^= x << 13
				x ^= x >> 7
				x ^= x << 17
				ins[j][i] = int8(x%3) - 1
			}
		}
		outs := Hash64(ins)
		for j := range ins {
			want := Hash(ins[j])
			for i := range want {
				if outs[j][i] != want[i] {
					return fmt.Errorf("curlp model: bit-sliced lane %d differs from the single-lane model at trit %d", j, i)
				}
			}
		}
	}
	// b1t6: every byte maps to the unique 6-trit group with its signed value
	for b := 0; b < 256; b++ {
		t := B1T6([]byte{byte(b)})
		v, p := 0, 1
		for _, x := range t {
			if x < -1 || x > 1 {
				return fmt.Errorf("curlp model: b1t6 trit out of range")
			}
			v += int(x) * p
			p *= 3
		}
		if v != int(int8(b)) {
			return fmt.Errorf("curlp model: b1t6(%d) has value %d", b, v)
		}
	}
	if TritsToTrytes(B1T6([]byte{0x00, 0x01, 0x7f, 0x80, 0xff})) != "99A9SEGVZ9" {
		return fmt.Errorf("curlp model: b1t6 TIP-5 example gives %s", TritsToTrytes(B1T6([]byte{0x00, 0x01, 0x7f, 0x80, 0xff})))
	}
	if Base3([]int8{-1, 1, 0, -1}).Int64() != 2+3+0+54 {
		return fmt.Errorf("curlp model: Base3")
	}
	return nil
}
