package curlp

import "testing"

func TestSelf(t *testing.T) {
	if err := SelfTest(); err != nil {
		t.Fatal(err)
	}
}

func BenchmarkTransform(b *testing.B) {
	var st [StateLen]int8
	for i := 0; i < b.N; i++ {
		Transform(&st)
	}
}

func BenchmarkHash64(b *testing.B) {
	ins := make([][]int8, 64)
	for j := range ins {
		ins[j] = make([]int8, HashLen)
	}
	for i := 0; i < b.N; i++ {
		Hash64(ins)
	}
}
