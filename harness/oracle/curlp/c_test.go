package curlp

import "testing"

func TestSelf(t *testing.T) {
	if err := SelfTest(); err != nil {
		t.Fatal(err)
	}
}

func BenchmarkTransform(b *testing.B) {
	var st [StateLen]int8
	for i := 0; i < b.N; i++ {
		Transform(&st)
	}
}
