// Package merklem is an independent model of the RFC 6962 Merkle tree hash
// for arbitrary hash functions:
//
//	MTH({})       = H()
//	MTH({d0})     = H(0x00 || d0)
//	MTH(D[0:n])   = H(0x01 || MTH(D[0:k]) || MTH(D[k:n])),  k the largest power of two < n
//
// The root is computed bottom-up (a stack of complete subtrees, merged
// whenever two of equal height meet; no splitting of the leaf list), audit
// paths are read off the bottom-up levels, and audit paths are checked with
// the verification algorithm of RFC 9162 section 2.1.3.2, which needs only
// (leaf index, tree size, leaf hash, path). The recursive definition is kept
// as a separate small function used by the self-test only.
package merklem

import (
	"bytes"
	"crypto/sha256"
	"encoding/hex"
	"fmt"
	"hash"
)

// Tree is a tree hash over the hash function made by New.
type Tree struct {
	New func() hash.Hash
}

// Empty returns H().
func (t Tree) Empty() []byte { return t.New().Sum(nil) }

// LeafHash returns H(0x00 || data).
func (t Tree) LeafHash(data []byte) []byte {
	h := t.New()
	h.Write([]byte{0x00})
	h.Write(data)
	return h.Sum(nil)
}

// NodeHash returns H(0x01 || l || r).
func (t Tree) NodeHash(l, r []byte) []byte {
	h := t.New()
	h.Write([]byte{0x01})
	h.Write(l)
	h.Write(r)
	return h.Sum(nil)
}

// LeafHashes hashes every leaf.
func (t Tree) LeafHashes(leaves [][]byte) [][]byte {
	out := make([][]byte, len(leaves))
	for i, l := range leaves {
		out[i] = t.LeafHash(l)
	}
	return out
}

// Root returns the tree hash of the leaves.
func (t Tree) Root(leaves [][]byte) []byte {
	b := t.Builder()
	for _, l := range leaves {
		b.Add(l)
	}
	return b.Root()
}

// RootOfHashes returns the tree hash over already hashed leaves.
func (t Tree) RootOfHashes(lh [][]byte) []byte {
	b := t.Builder()
	for _, h := range lh {
		b.AddHash(h)
	}
	return b.Root()
}

// Builder accumulates leaves left to right in O(log n) memory.
type Builder struct {
	t     Tree
	stack []sub
	n     int
}

type sub struct {
	h      []byte
	height int
}

// Builder starts an empty tree.
func (t Tree) Builder() *Builder { return &Builder{t: t} }

// Add appends a leaf.
func (b *Builder) Add(leaf []byte) { b.AddHash(b.t.LeafHash(leaf)) }

// AddHash appends a leaf given by its leaf hash.
func (b *Builder) AddHash(lh []byte) {
	b.n++
	b.stack = append(b.stack, sub{h: lh})
	// two complete subtrees of equal height next to each other form a complete subtree
	for n := len(b.stack); n >= 2 && b.stack[n-1].height == b.stack[n-2].height; n = len(b.stack) {
		m := sub{h: b.t.NodeHash(b.stack[n-2].h, b.stack[n-1].h), height: b.stack[n-1].height + 1}
		b.stack = append(b.stack[:n-2], m)
	}
}

// Len returns the number of leaves added.
func (b *Builder) Len() int { return b.n }

// Root returns the tree hash of what has been added (the builder stays usable).
func (b *Builder) Root() []byte {
	if len(b.stack) == 0 {
		return b.t.Empty()
	}
	// the complete subtrees have strictly decreasing heights left to right;
	// the rightmost ones are joined first
	r := b.stack[len(b.stack)-1].h
	for i := len(b.stack) - 2; i >= 0; i-- {
		r = b.t.NodeHash(b.stack[i].h, r)
	}
	return r
}

// Levels holds the bottom-up levels of a tree: level 0 are the leaf hashes,
// level j+1 pairs up the nodes of level j; a node without right neighbour is
// carried up unchanged.
type Levels struct {
	t   Tree
	lv  [][][]byte
	n   int
	top []byte
}

// Levels builds all levels over the leaf hashes.
func (t Tree) Levels(lh [][]byte) *Levels {
	L := &Levels{t: t, n: len(lh)}
	if len(lh) == 0 {
		L.top = t.Empty()
		return L
	}
	cur := lh
	L.lv = append(L.lv, cur)
	for len(cur) > 1 {
		next := make([][]byte, 0, (len(cur)+1)/2)
		for i := 0; i+1 < len(cur); i += 2 {
			next = append(next, t.NodeHash(cur[i], cur[i+1]))
		}
		if len(cur)%2 == 1 {
			next = append(next, cur[len(cur)-1])
		}
		L.lv = append(L.lv, next)
		cur = next
	}
	L.top = cur[0]
	return L
}

// Root returns the tree hash.
func (L *Levels) Root() []byte { return L.top }

// Path returns the audit path of leaf m (RFC 6962 section 2.1.1), lowest
// sibling first; ok is false if m is out of range.
func (L *Levels) Path(m int) (path [][]byte, ok bool) {
	if m < 0 || m >= L.n {
		return nil, false
	}
	path = [][]byte{}
	idx := m
	for j := 0; j+1 < len(L.lv); j++ {
		sib := idx ^ 1
		if sib < len(L.lv[j]) {
			path = append(path, L.lv[j][sib])
		}
		idx >>= 1
	}
	return path, true
}

// RootFromPath is the audit path verification of RFC 9162 section 2.1.3.2
// up to the final comparison: it recomputes the root from the leaf hash and
// the path. ok is false if the path has the wrong length for (index, size).
func (t Tree) RootFromPath(index, size uint64, leafHash []byte, path [][]byte) (root []byte, ok bool) {
	if index >= size {
		return nil, false
	}
	fn, sn := index, size-1
	r := leafHash
	for _, p := range path {
		if sn == 0 {
			return nil, false
		}
		if fn&1 == 1 || fn == sn {
			r = t.NodeHash(p, r)
			if fn&1 == 0 {
				for fn&1 == 0 && fn != 0 {
					fn >>= 1
					sn >>= 1
				}
			}
		} else {
			r = t.NodeHash(r, p)
		}
		fn >>= 1
		sn >>= 1
	}
	if sn != 0 {
		return nil, false
	}
	return r, true
}

// VerifyPath reports whether the path proves the leaf hash at index in a tree
// of the given size and root.
func (t Tree) VerifyPath(index, size uint64, leafHash []byte, path [][]byte, root []byte) bool {
	r, ok := t.RootFromPath(index, size, leafHash, path)
	return ok && bytes.Equal(r, root)
}

// ---------------------------------------------------------------------------
// the recursive definition, for the self-test only

func mthRec(t Tree, d [][]byte) []byte {
	switch len(d) {
	case 0:
		return t.Empty()
	case 1:
		return t.LeafHash(d[0])
	}
	k := 1
	for 2*k < len(d) {
		k *= 2
	}
	return t.NodeHash(mthRec(t, d[:k]), mthRec(t, d[k:]))
}

func pathRec(t Tree, m int, d [][]byte) [][]byte {
	if len(d) <= 1 {
		return [][]byte{}
	}
	k := 1
	for 2*k < len(d) {
		k *= 2
	}
	if m < k {
		return append(pathRec(t, m, d[:k]), mthRec(t, d[k:]))
	}
	return append(pathRec(t, m-k, d[k:]), mthRec(t, d[:k]))
}

func unhex(s string) []byte {
	b, err := hex.DecodeString(s)
	if err != nil {
		return nil
	}
	return b
}

// SelfTest checks the bottom-up constructions against the recursive
// definition of RFC 6962 for n = 0..64, the published SHA-256 roots of the
// Certificate Transparency reference test tree, and the path verification
// for every (n, i) with n <= 33.
func SelfTest() error {
	t := Tree{New: sha256.New}
	if got := hex.EncodeToString(t.Empty()); got != "e3b0c44298fc1c149afbf4c8996fb92427ae41e4649b934ca495991b7852b855" {
		return fmt.Errorf("merklem: empty SHA-256 tree hash is %s", got)
	}
	// leaf hash of the empty leaf (CT reference tests)
	if got := hex.EncodeToString(t.LeafHash(nil)); got != "6e340b9cffb37a989ca544e6bb780a2c78901d3fb33738768511a30617afa01d" {
		return fmt.Errorf("merklem: SHA-256 leaf hash of the empty string is %s", got)
	}
	// The 8 leaves and the roots of the first 1..8 of them from the Certificate
	// Transparency reference implementation (merkle_tree_test).
	ctLeaves := [][]byte{
		unhex(""), unhex("00"), unhex("10"), unhex("2021"), unhex("3031"), unhex("40414243"),
		unhex("5051525354555657"), unhex("606162636465666768696a6b6c6d6e6f"),
	}
	ctRoots := []string{
		"6e340b9cffb37a989ca544e6bb780a2c78901d3fb33738768511a30617afa01d",
		"fac54203e7cc696cf0dfcb42c92a1d9dbaf70ad9e621f4bd8d98662f00e3c125",
		"aeb6bcfe274b70a14fb067a5e5578264db0fa9b51af5e0ba159158f329e06e77",
		"d37ee418976dd95753c1c73862b9398fa2a2cf9b4ff0fdfe8b30cd95209614b7",
		"4e3bbb1f7b478dcfe71fb631631519a3bca12c9aefca1612bfce4c13a86264d4",
		"76e67dadbcdf1e10e1b74ddc608abd2f98dfb16fbce75277b5232a127f2087ef",
		"ddb89be403809e325750d3d263cd78929c2942b7942a34b77e122c9594a74c8c",
		"5dc9da79a70659a9ad559cb701ded9a2ab9d823aad2f4960cfe370eff4604328",
	}
	for n := 1; n <= 8; n++ {
		if got := hex.EncodeToString(t.Root(ctLeaves[:n])); got != ctRoots[n-1] {
			return fmt.Errorf("merklem: CT reference root for %d leaves is %s, expected %s", n, got, ctRoots[n-1])
		}
	}
	// the published audit path of leaf 0 in the 8-leaf CT tree
	{
		L := t.Levels(t.LeafHashes(ctLeaves))
		p, _ := L.Path(0)
		want := []string{
			"96a296d224f285c67bee93c30f8a309157f0daa35dc5b87e410b78630a09cfc7",
			"5f083f0a1a33ca076a95279832580db3e0ef4584bdff1f54c8a360f50de3031e",
			"6b47aaf29ee3c2af9af889bc1fb9254dabd31177f16232dd6aab035ca39bf6e4",
		}
		if len(p) != 3 {
			return fmt.Errorf("merklem: CT path length %d", len(p))
		}
		for i := range want {
			if hex.EncodeToString(p[i]) != want[i] {
				return fmt.Errorf("merklem: CT audit path element %d is %x", i, p[i])
			}
		}
	}

	for n := 0; n <= 64; n++ {
		leaves := make([][]byte, n)
		for i := range leaves {
			// leaves of different lengths, some empty, some starting with the prefixes
			switch i % 5 {
			case 0:
				leaves[i] = []byte{}
			case 1:
				leaves[i] = []byte{0x00, byte(i)}
			case 2:
				leaves[i] = []byte{0x01, byte(i), byte(n)}
			default:
				leaves[i] = bytes.Repeat([]byte{byte(i)}, i)
			}
		}
		want := mthRec(t, leaves)
		if got := t.Root(leaves); !bytes.Equal(got, want) {
			return fmt.Errorf("merklem: stack construction differs from the recursive definition at n=%d", n)
		}
		lh := t.LeafHashes(leaves)
		if got := t.RootOfHashes(lh); !bytes.Equal(got, want) {
			return fmt.Errorf("merklem: RootOfHashes differs at n=%d", n)
		}
		L := t.Levels(lh)
		if !bytes.Equal(L.Root(), want) {
			return fmt.Errorf("merklem: level construction differs from the recursive definition at n=%d", n)
		}
		if n > 33 {
			continue
		}
		for i := 0; i < n; i++ {
			p, ok := L.Path(i)
			if !ok {
				return fmt.Errorf("merklem: no path for n=%d i=%d", n, i)
			}
			pr := pathRec(t, i, leaves)
			if len(p) != len(pr) {
				return fmt.Errorf("merklem: path length differs from PATH(m, D[n]) at n=%d i=%d", n, i)
			}
			for j := range p {
				if !bytes.Equal(p[j], pr[j]) {
					return fmt.Errorf("merklem: path differs from PATH(m, D[n]) at n=%d i=%d element %d", n, i, j)
				}
			}
			if !t.VerifyPath(uint64(i), uint64(n), lh[i], p, want) {
				return fmt.Errorf("merklem: path verification fails at n=%d i=%d", n, i)
			}
			// negative controls: wrong index, wrong size, wrong leaf, truncated path
			if n > 1 && t.VerifyPath(uint64((i+1)%n), uint64(n), lh[i], p, want) && !bytes.Equal(lh[i], lh[(i+1)%n]) {
				return fmt.Errorf("merklem: path verifies for the wrong index at n=%d i=%d", n, i)
			}
			if len(p) > 0 && t.VerifyPath(uint64(i), uint64(n), lh[i], p[:len(p)-1], want) {
				return fmt.Errorf("merklem: truncated path verifies at n=%d i=%d", n, i)
			}
			if t.VerifyPath(uint64(i), uint64(n), t.LeafHash([]byte("other")), p, want) {
				return fmt.Errorf("merklem: path verifies for another leaf at n=%d i=%d", n, i)
			}
		}
		if _, ok := L.Path(n); ok {
			return fmt.Errorf("merklem: path for index n")
		}
	}
	return nil
}
