// Package bech32m is a port of the BIP-173 reference implementation of Bech32
// (checksum "1", not the BIP-350 variant), written from the text of the BIP.
// It is the oracle of the Bech32 properties (C04, C05, C16, C19) and shares
// no code with the library under test. Nothing in here panics on any input.
package bech32m

import (
	"bytes"
	"encoding/hex"
	"fmt"
)

// Charset is the BIP-173 data alphabet; the index of a character is its 5-bit value.
const Charset = "qpzry9x8gf2tvdw0s3jn54khce6mua7l"

// MaxLen is the maximal total length of a Bech32 string.
const MaxLen = 90

// ChecksumLen is the number of checksum symbols.
const ChecksumLen = 6

var generator = [5]uint32{0x3b6a57b2, 0x26508e6d, 0x1ea119fa, 0x3d4233dd, 0x2a1462b3}

var charRev = func() (t [256]int8) {
	for i := range t {
		t[i] = -1
	}
	for i := 0; i < len(Charset); i++ {
		t[Charset[i]] = int8(i)
	}
	return
}()

// Polymod is bech32_polymod of BIP-173.
func Polymod(values []byte) uint32 {
	chk := uint32(1)
	for _, v := range values {
		top := chk >> 25
		chk = (chk&0x1ffffff)<<5 ^ uint32(v)
		for i := uint(0); i < 5; i++ {
			if (top>>i)&1 == 1 {
				chk ^= generator[i]
			}
		}
	}
	return chk
}

// HrpExpand is bech32_hrp_expand: high bits, a zero, low bits.
func HrpExpand(hrp string) []byte {
	out := make([]byte, 0, 2*len(hrp)+1)
	for i := 0; i < len(hrp); i++ {
		out = append(out, hrp[i]>>5)
	}
	out = append(out, 0)
	for i := 0; i < len(hrp); i++ {
		out = append(out, hrp[i]&31)
	}
	return out
}

// VerifyChecksum is bech32_verify_checksum; data includes the six checksum symbols.
func VerifyChecksum(hrp string, data []byte) bool {
	return Polymod(append(HrpExpand(hrp), data...)) == 1
}

// CreateChecksum is bech32_create_checksum; hrp is used as given.
func CreateChecksum(hrp string, data []byte) []byte {
	values := append(HrpExpand(hrp), data...)
	values = append(values, 0, 0, 0, 0, 0, 0)
	pm := Polymod(values) ^ 1
	out := make([]byte, ChecksumLen)
	for i := 0; i < ChecksumLen; i++ {
		out[i] = byte(pm>>(5*uint(5-i))) & 31
	}
	return out
}

// ConvertBits is convertbits of the BIP-173 reference: general power-of-2
// base conversion. With pad=false it fails when a whole input group or any
// non-zero bit would be left over.
func ConvertBits(data []byte, from, to uint, pad bool) ([]byte, bool) {
	var acc, bits uint
	maxv := uint(1)<<to - 1
	out := make([]byte, 0, len(data)*int(from)/int(to)+1)
	for _, v := range data {
		if uint(v)>>from != 0 {
			return nil, false
		}
		acc = acc<<from | uint(v)
		bits += from
		for bits >= to {
			bits -= to
			out = append(out, byte(acc>>bits&maxv))
		}
		acc &= 1<<bits - 1
	}
	if pad {
		if bits > 0 {
			out = append(out, byte(acc<<(to-bits)&maxv))
		}
	} else if bits >= from || acc<<(to-bits)&maxv != 0 {
		return nil, false
	}
	return out, true
}

// Lower lower-cases the ASCII letters of s and leaves every other byte alone.
func Lower(s string) string {
	b := []byte(s)
	for i, c := range b {
		if c >= 'A' && c <= 'Z' {
			b[i] = c + 32
		}
	}
	return string(b)
}

// Upper upper-cases the ASCII letters of s and leaves every other byte alone.
func Upper(s string) string {
	b := []byte(s)
	for i, c := range b {
		if c >= 'a' && c <= 'z' {
			b[i] = c - 32
		}
	}
	return string(b)
}

// HasLower / HasUpper report whether s contains an ASCII letter of that case.
func HasLower(s string) bool {
	for i := 0; i < len(s); i++ {
		if s[i] >= 'a' && s[i] <= 'z' {
			return true
		}
	}
	return false
}

func HasUpper(s string) bool {
	for i := 0; i < len(s); i++ {
		if s[i] >= 'A' && s[i] <= 'Z' {
			return true
		}
	}
	return false
}

// SymbolOf returns the 5-bit value of a charset character in either case, or -1.
func SymbolOf(c byte) int {
	if c >= 'A' && c <= 'Z' {
		c += 32
	}
	return int(charRev[c])
}

// Chars maps 5-bit symbols to charset characters (values are masked to 5 bits).
func Chars(syms []byte) string {
	b := make([]byte, len(syms))
	for i, v := range syms {
		b[i] = Charset[v&31]
	}
	return string(b)
}

// EncodeSymbols builds hrp + "1" + data + checksum for an arbitrary sequence
// of 5-bit symbols without validating anything: the hrp is written as given,
// the checksum is computed over its lower-cased form and the data part is in
// lower case. Strings with non-zero padding, incomplete groups, over-long
// strings etc. can be produced that way.
func EncodeSymbols(hrp string, syms []byte) string {
	d := make([]byte, len(syms))
	for i, v := range syms {
		d[i] = v & 31
	}
	ck := CreateChecksum(Lower(hrp), d)
	return hrp + "1" + Chars(d) + Chars(ck)
}

// ValidHRP reports whether hrp is acceptable to an encoder: 1..83 characters
// in 33..126, not mixed case.
func ValidHRP(hrp string) bool {
	if len(hrp) < 1 || len(hrp) > 83 {
		return false
	}
	for i := 0; i < len(hrp); i++ {
		if hrp[i] < 33 || hrp[i] > 126 {
			return false
		}
	}
	return !(HasLower(hrp) && HasUpper(hrp))
}

// Encode is the model of an encoder of bytes: the BIP-173 string of hrp and
// data regrouped into 5-bit symbols with zero padding, in the case of the hrp
// (an hrp without letters counts as lower case). ok is false when the hrp is
// invalid or the result would exceed 90 characters.
func Encode(hrp string, data []byte) (string, bool) {
	if !ValidHRP(hrp) {
		return "", false
	}
	syms, _ := ConvertBits(data, 8, 5, true)
	if len(hrp)+1+len(syms)+ChecksumLen > MaxLen {
		return "", false
	}
	s := EncodeSymbols(hrp, syms)
	if HasUpper(hrp) {
		s = Upper(s)
	}
	return s, true
}

// Reasons of rejection reported by Decode.
const (
	OK           = "ok"
	RTooLong     = "longer than 90"
	RCharRange   = "character outside 33..126"
	RMixedCase   = "mixed case"
	RNoSeparator = "no separator"
	REmptyHRP    = "empty hrp"
	RShortData   = "data part shorter than 6"
	RDataChar    = "non-charset character in data part"
	RChecksum    = "checksum mismatch"
	RIncomplete  = "incomplete 5-bit group (5 or more left-over bits)"
	RNonZeroPad  = "non-zero padding bits"
)

// Decode is bech32_decode of the BIP-173 reference: it returns the lower-cased
// human-readable part, the data symbols without the checksum and "ok", or the
// reason of the rejection.
func Decode(s string) (hrp string, syms []byte, reason string) {
	return decode(s, MaxLen)
}

// DecodeAnyLength is Decode without the 90-character limit; the monitors use
// it to tell "too long but otherwise valid" from plain garbage.
func DecodeAnyLength(s string) (hrp string, syms []byte, reason string) {
	return decode(s, int(^uint(0)>>1))
}

func decode(s string, maxLen int) (hrp string, syms []byte, reason string) {
	for i := 0; i < len(s); i++ {
		if s[i] < 33 || s[i] > 126 {
			return "", nil, RCharRange
		}
	}
	if HasLower(s) && HasUpper(s) {
		return "", nil, RMixedCase
	}
	if len(s) > maxLen {
		return "", nil, RTooLong
	}
	s = Lower(s)
	pos := -1
	for i := len(s) - 1; i >= 0; i-- {
		if s[i] == '1' {
			pos = i
			break
		}
	}
	if pos < 0 {
		return "", nil, RNoSeparator
	}
	if pos < 1 {
		return "", nil, REmptyHRP
	}
	if pos+1+ChecksumLen > len(s) {
		return "", nil, RShortData
	}
	data := make([]byte, 0, len(s)-pos-1)
	for i := pos + 1; i < len(s); i++ {
		v := charRev[s[i]]
		if v < 0 {
			return "", nil, RDataChar
		}
		data = append(data, byte(v))
	}
	if !VerifyChecksum(s[:pos], data) {
		return "", nil, RChecksum
	}
	return s[:pos], data[:len(data)-ChecksumLen], OK
}

// ValidBech32 is the BIP-173 verdict on a string.
func ValidBech32(s string) bool {
	_, _, r := Decode(s)
	return r == OK
}

// DecodeBytesReason is Decode followed by convertbits(5 -> 8, pad=false): the
// data must regroup into whole bytes with fewer than 5 left-over bits, all zero.
func DecodeBytesReason(s string) (hrp string, data []byte, reason string) {
	hrp, syms, r := Decode(s)
	if r != OK {
		return "", nil, r
	}
	data, ok := ConvertBits(syms, 5, 8, false)
	if !ok {
		if (len(syms)*5)%8 >= 5 {
			return "", nil, RIncomplete
		}
		return "", nil, RNonZeroPad
	}
	return hrp, data, OK
}

// DecodeBytes is the verdict property C04 asks of a byte-level decoder.
func DecodeBytes(s string) (hrp string, data []byte, ok bool) {
	hrp, data, r := DecodeBytesReason(s)
	return hrp, data, r == OK
}

// ---------------------------------------------------------------------------

// published in BIP-173, section "Test vectors"
var validStrings = []string{
	"A12UEL5L",
	"a12uel5l",
	"an83characterlonghumanreadablepartthatcontainsthenumber1andtheexcludedcharactersbio1tt5tgs",
	"abcdef1qpzry9x8gf2tvdw0s3jn54khce6mua7lmqqqxw",
	"11qqqqqqqqqqqqqqqqqqqqqqqqqqqqqqqqqqqqqqqqqqqqqqqqqqqqqqqqqqqqqqqqqqqqqqqqqqqqqqqqqqc8247j",
	"split1checkupstagehandshakeupstreamerranterredcaperred2y9e3w",
	"?1ezyfcl",
}

var invalidStrings = []struct{ s, reason string }{
	{"\x201nwldj5", RCharRange},
	{"\x7f1axkwrx", RCharRange},
	{"\x801eym55h", RCharRange},
	{"an84characterslonghumanreadablepartthatcontainsthenumber1andtheexcludedcharactersbio1569pvx", RTooLong},
	{"pzry9x0s0muk", RNoSeparator},
	{"1pzry9x0s0muk", REmptyHRP},
	{"x1b4n0q5v", RDataChar},
	{"li1dgmt3", RShortData},
	{"de1lg7wt\xff", RCharRange},
	{"A1G7SGD8", RChecksum},
	{"10a06t8", REmptyHRP},
	{"1qzzfhee", REmptyHRP},
}

// segwit addresses of BIP-173 with their scriptPubKey: witness version symbol
// followed by the program regrouped 8 -> 5; they pin down ConvertBits.
var segwitValid = []struct{ addr, spk string }{
	{"BC1QW508D6QEJXTDG4Y5R3ZARVARY0C5XW7KV8F3T4", "0014751e76e8199196d454941c45d1b3a323f1433bd6"},
	{"tb1qrp33g0q5c5txsp9arysrx4k6zdkfs4nce4xj0gdcccefvpysxf3q0sl5k7", "00201863143c14c5166804bd19203356da136c985678cd4d27a1b8c6329604903262"},
	{"bc1pw508d6qejxtdg4y5r3zarvary0c5xw7kw508d6qejxtdg4y5r3zarvary0c5xw7k7grplx", "5128751e76e8199196d454941c45d1b3a323f1433bd6751e76e8199196d454941c45d1b3a323f1433bd6"},
	{"BC1SW50QA3JX3S", "6002751e"},
	{"bc1zw508d6qejxtdg4y5r3zarvaryvg6kdaj", "5210751e76e8199196d454941c45d1b3a323"},
	{"tb1qqqqqp399et2xygdj5xreqhjjvcmzhxw4aywxecjdzew6hylgvsesrxh6hy", "0020000000c4a5cad46221b2a187905e5266362b99d5e91c6ce24d165dab93e86433"},
}

// checksum-valid segwit strings of BIP-173 whose program does not regroup
var segwitBadRegroup = []struct{ addr, reason string }{
	{"bc1zw508d6qejxtdg4y5r3zarvaryvqyzf3du", RIncomplete},                          // "zero padding of more than 4 bits"
	{"tb1qrp33g0q5c5txsp9arysrx4k6zdkfs4nce4xj0gdcccefvpysxf3pjxtptv", RNonZeroPad}, // "non-zero padding in 8-to-5 conversion"
}

// SelfTest checks the model against the vectors published in BIP-173.
func SelfTest() error {
	for _, s := range validStrings {
		hrp, syms, r := Decode(s)
		if r != OK {
			return fmt.Errorf("bech32m: BIP-173 valid string %q rejected: %s", s, r)
		}
		// re-encoding the symbols gives the lower-case form
		if got := EncodeSymbols(hrp, syms); got != Lower(s) {
			return fmt.Errorf("bech32m: re-encoding %q gives %q", s, got)
		}
	}
	for _, c := range invalidStrings {
		if _, _, r := Decode(c.s); r != c.reason {
			return fmt.Errorf("bech32m: BIP-173 invalid string %q: verdict %q, expected %q", c.s, r, c.reason)
		}
	}
	// whole-byte verdicts on the published valid strings
	wholeBytes := map[string]string{
		"A12UEL5L": "", "a12uel5l": "", "?1ezyfcl": "",
		"an83characterlonghumanreadablepartthatcontainsthenumber1andtheexcludedcharactersbio1tt5tgs": "",
		"abcdef1qpzry9x8gf2tvdw0s3jn54khce6mua7lmqqqxw":                                              "00443214c74254b635cf84653a56d7c675be77df",
	}
	for s, want := range wholeBytes {
		_, d, ok := DecodeBytes(s)
		if !ok || hex.EncodeToString(d) != want {
			return fmt.Errorf("bech32m: DecodeBytes(%q) = %x, %v; expected %s", s, d, ok, want)
		}
	}
	// 82 zero symbols leave 2 zero padding bits: 51 zero bytes
	if _, d, ok := DecodeBytes(validStrings[4]); !ok || len(d) != 51 || !bytes.Equal(d, make([]byte, 51)) {
		return fmt.Errorf("bech32m: DecodeBytes of the 82 x q vector: %x %v", d, ok)
	}
	// 48 symbols = 240 bits = 30 bytes
	if _, d, ok := DecodeBytes(validStrings[5]); !ok || len(d) != 30 {
		return fmt.Errorf("bech32m: DecodeBytes of the split1 vector: %x %v", d, ok)
	}
	for _, c := range segwitValid {
		hrp, syms, r := Decode(c.addr)
		if r != OK || len(syms) < 1 || (hrp != "bc" && hrp != "tb") {
			return fmt.Errorf("bech32m: segwit vector %q rejected: %s", c.addr, r)
		}
		prog, ok := ConvertBits(syms[1:], 5, 8, false)
		if !ok {
			return fmt.Errorf("bech32m: segwit vector %q does not regroup", c.addr)
		}
		ver := syms[0]
		if ver > 0 {
			ver += 0x50
		}
		spk := append([]byte{ver, byte(len(prog))}, prog...)
		if hex.EncodeToString(spk) != c.spk {
			return fmt.Errorf("bech32m: segwit vector %q gives scriptPubKey %x, expected %s", c.addr, spk, c.spk)
		}
		// and back
		back, _ := ConvertBits(prog, 8, 5, true)
		if got := EncodeSymbols(hrp, append([]byte{syms[0]}, back...)); got != Lower(c.addr) {
			return fmt.Errorf("bech32m: re-encoding segwit vector %q gives %q", c.addr, got)
		}
	}
	for _, c := range segwitBadRegroup {
		hrp, syms, r := Decode(c.addr)
		if r != OK || len(syms) < 1 {
			return fmt.Errorf("bech32m: segwit vector %q must be checksum-valid: %s", c.addr, r)
		}
		// the verdict on the program alone, through the string level: drop the version symbol
		if _, _, r2 := DecodeBytesReason(EncodeSymbols(hrp, syms[1:])); r2 != c.reason {
			return fmt.Errorf("bech32m: program of %q: verdict %q, expected %q", c.addr, r2, c.reason)
		}
	}
	// Encode: case carrying and the length rule
	if s, ok := Encode("A", nil); !ok || s != "A12UEL5L" {
		return fmt.Errorf("bech32m: Encode(A, nil) = %q %v", s, ok)
	}
	if s, ok := Encode("a", nil); !ok || s != "a12uel5l" {
		return fmt.Errorf("bech32m: Encode(a, nil) = %q %v", s, ok)
	}
	if s, ok := Encode("1", make([]byte, 51)); !ok || s != validStrings[4] {
		return fmt.Errorf("bech32m: Encode(1, 51 zero bytes) = %q %v", s, ok)
	}
	if _, ok := Encode("1", make([]byte, 52)); ok {
		return fmt.Errorf("bech32m: Encode accepted a 92-character result")
	}
	if _, ok := Encode("aB", nil); ok {
		return fmt.Errorf("bech32m: Encode accepted a mixed-case hrp")
	}
	if _, ok := Encode("", nil); ok {
		return fmt.Errorf("bech32m: Encode accepted an empty hrp")
	}
	return nil
}
