// Package bip39m is an independent bit-level model of BIP-0039: entropy <->
// sentence, sentence validity, and the PBKDF2-HMAC-SHA512 seed. The official
// word lists are embedded and checked against their published SHA-256 digests.
package bip39m

import (
	"bytes"
	"crypto/hmac"
	"crypto/sha256"
	"crypto/sha512"
	_ "embed"
	"encoding/hex"
	"fmt"
	"strings"
)

//go:embed english.txt
var englishTxt string

//go:embed japanese.txt
var japaneseTxt string

// Published SHA-256 digests of the official BIP-0039 word list files.
const (
	EnglishDigest  = "2f5eed53a4727b4bf8880d8f3f199efc90e58503646d9ff8eff3a2ed3b24dbda"
	JapaneseDigest = "2eed0aef492291e061633d7ad8117f1a2b03eb80a29d0e4e3117ac2528d05ffd"
)

// ReversedEnglish names a user-defined list (not a BIP-39 list): the English words in reverse order.
const ReversedEnglish = "verif-reversed-english"

// List is a word list with its reverse index.
type List struct {
	Name  string
	Words []string
	Index map[string]int
}

var lists = map[string]*List{}

// Lang returns the list for "english", "japanese" or ReversedEnglish.
func Lang(name string) *List {
	if l, ok := lists[name]; ok {
		return l
	}
	txt := englishTxt
	if name == "japanese" {
		txt = japaneseTxt
	}
	l := &List{Name: name, Words: strings.Split(strings.TrimSuffix(txt, "\n"), "\n"), Index: map[string]int{}}
	if name == ReversedEnglish {
		// a user-defined list for the monitors that register one: the English words in reverse order
		for i, j := 0, len(l.Words)-1; i < j; i, j = i+1, j-1 {
			l.Words[i], l.Words[j] = l.Words[j], l.Words[i]
		}
	}
	for i, w := range l.Words {
		l.Index[w] = i
	}
	lists[name] = l
	return l
}

// Verdict of the sentence decoder.
type Verdict int

const (
	OK Verdict = iota
	BadCount
	BadWord
	BadChecksum
)

func (v Verdict) String() string {
	return [...]string{"ok", "bad word count", "word not in list", "checksum mismatch"}[v]
}

// ValidEntropyLen reports whether n bytes is a BIP-0039 entropy size (128..512 bits in steps of 32).
func ValidEntropyLen(n int) bool { return n >= 16 && n <= 64 && n%4 == 0 }

// bitsOf returns the bits of b, most significant first.
func bitsOf(b []byte) []byte {
	out := make([]byte, 0, 8*len(b))
	for _, x := range b {
		for i := 7; i >= 0; i-- {
			out = append(out, (x>>uint(i))&1)
		}
	}
	return out
}

// Indices returns the 11-bit word indices of an entropy (which must have a valid size).
func Indices(entropy []byte) []int {
	h := sha256.Sum256(entropy)
	bits := append(bitsOf(entropy), bitsOf(h[:])[:len(entropy)*8/32]...)
	var idx []int
	for i := 0; i+11 <= len(bits); i += 11 {
		v := 0
		for _, b := range bits[i : i+11] {
			v = v<<1 | int(b)
		}
		idx = append(idx, v)
	}
	return idx
}

// Encode returns the sentence of an entropy of valid size.
func (l *List) Encode(entropy []byte) []string {
	var words []string
	for _, i := range Indices(entropy) {
		words = append(words, l.Words[i])
	}
	return words
}

// Decode judges a word sequence and returns the entropy when it is a valid sentence.
func (l *List) Decode(words []string) ([]byte, Verdict) {
	n := len(words)
	if n < 12 || n > 48 || n%3 != 0 {
		return nil, BadCount
	}
	var bits []byte
	for _, w := range words {
		i, ok := l.Index[w]
		if !ok {
			return nil, BadWord
		}
		for b := 10; b >= 0; b-- {
			bits = append(bits, byte(i>>uint(b))&1)
		}
	}
	cs := n / 3 // checksum bits = ENT/32 = words/3
	ent := len(bits) - cs
	entropy := make([]byte, ent/8)
	for i := 0; i < ent; i++ {
		entropy[i/8] |= bits[i] << uint(7-i%8)
	}
	h := sha256.Sum256(entropy)
	if !bytes.Equal(bitsOf(h[:])[:cs], bits[ent:]) {
		return nil, BadChecksum
	}
	return entropy, OK
}

// PBKDF2 is PBKDF2-HMAC-SHA512 for a single 64-byte output block.
func PBKDF2(password, salt []byte, iterations int) []byte {
	mac := hmac.New(sha512.New, password)
	mac.Write(salt)
	mac.Write([]byte{0, 0, 0, 1})
	u := mac.Sum(nil)
	t := append([]byte(nil), u...)
	for i := 1; i < iterations; i++ {
		mac.Reset()
		mac.Write(u)
		u = mac.Sum(u[:0])
		for j := range t {
			t[j] ^= u[j]
		}
	}
	return t
}

// Seed is the BIP-0039 seed for words and an already NFKD-normalized passphrase.
func Seed(words []string, nfkdPassphrase []byte) []byte {
	return PBKDF2([]byte(strings.Join(words, " ")), append([]byte("mnemonic"), nfkdPassphrase...), 2048)
}

func unhex(s string) []byte {
	b, err := hex.DecodeString(s)
	if err != nil {
		panic(err)
	}
	return b
}

// SelfTest checks list digests and the published Trezor vectors.
func SelfTest() error {
	for name, dig := range map[string]string{"english": EnglishDigest, "japanese": JapaneseDigest} {
		l := Lang(name)
		if len(l.Words) != 2048 || len(l.Index) != 2048 {
			return fmt.Errorf("bip39 model: %s list has %d words / %d distinct", name, len(l.Words), len(l.Index))
		}
		h := sha256.Sum256([]byte(strings.Join(l.Words, "\n") + "\n"))
		if hex.EncodeToString(h[:]) != dig {
			return fmt.Errorf("bip39 model: %s list digest %x differs from the published one", name, h)
		}
	}
	en := Lang("english")
	type vec struct{ ent, mn, seed string }
	for _, v := range []vec{
		{"00000000000000000000000000000000", "abandon abandon abandon abandon abandon abandon abandon abandon abandon abandon abandon about", "c55257c360c07c72029aebc1b53c05ed0362ada38ead3e3e9efa3708e53495531f09a6987599d18264c1e1c92f2cf141630c7a3c4ab7c81b2f001698e7463b04"},
		{"ffffffffffffffffffffffffffffffff", "zoo zoo zoo zoo zoo zoo zoo zoo zoo zoo zoo wrong", "ac27495480225222079d7be181583751e86f571027b0497b5b5d11218e0a8a13332572917f0f8e5a589620c6f15b11c61dee327651a14c34e18231052e48c069"},
		{"f585c11aec520db57dd353c69554b21a89b20fb0650966fa0a9d6f74fd989d8f", "void come effort suffer camp survey warrior heavy shoot primary clutch crush open amazing screen patrol group space point ten exist slush involve unfold", "01f5bced59dec48e362f2c45b5de68b9fd6c92c6634f44d6d40aab69056506f0e35524a518034ddc1192e1dacd32c1ed3eaa3c3b131c88ed8e7e54c49a5d0998"},
	} {
		words := en.Encode(unhex(v.ent))
		if strings.Join(words, " ") != v.mn {
			return fmt.Errorf("bip39 model: english vector %s encodes to %q", v.ent, strings.Join(words, " "))
		}
		e, verdict := en.Decode(strings.Fields(v.mn))
		if verdict != OK || !bytes.Equal(e, unhex(v.ent)) {
			return fmt.Errorf("bip39 model: english vector %s does not decode (%v)", v.ent, verdict)
		}
		if !bytes.Equal(Seed(words, []byte("TREZOR")), unhex(v.seed)) {
			return fmt.Errorf("bip39 model: seed of english vector %s", v.ent)
		}
	}
	// Japanese vector: all-zero entropy; passphrase given in its NFKD form (computed once with python unicodedata)
	ja := Lang("japanese")
	words := ja.Encode(unhex("00000000000000000000000000000000"))
	if words[0] != "あいこくしん" || words[11] != "あおぞら" {
		return fmt.Errorf("bip39 model: japanese vector words %q", words)
	}
	nfkdPass := unhex(nfkdTrezorJa)
	if !bytes.Equal(Seed(words, nfkdPass), unhex("a262d6fb6122ecf45be09c50492b31f92e9beb7d9a845987a02cefda57a15f9c467a17872029a9e92299b5cbdf306e3a0ee620245cbd508959b6cb7ca637bd55")) {
		return fmt.Errorf("bip39 model: seed of the japanese vector")
	}
	if _, v := en.Decode(strings.Fields("abandon abandon abandon abandon abandon abandon abandon abandon abandon abandon abandon abandon")); v != BadChecksum {
		return fmt.Errorf("bip39 model: bad checksum not detected (%v)", v)
	}
	return nil
}

// NFKD("㍍ガバヴァぱばぐゞちぢ十人十色") in UTF-8, the passphrase of the official Japanese test vectors.
const nfkdTrezorJa = "e383a1e383bce38388e383abe382abe38299e3838fe38299e382a6e38299e382a1e381afe3829ae381afe38299e3818fe38299e3829de38299e381a1e381a1e38299e58d81e4babae58d81e889b2"
