package ed

import "testing"

func TestSelf(t *testing.T) {
	if err := SelfTest(); err != nil {
		t.Fatal(err)
	}
}

func BenchmarkVerify(b *testing.B) {
	v := rfc8032[2]
	pub, msg, sig := unhex(v[1]), unhex(v[2]), unhex(v[3])
	for i := 0; i < b.N; i++ {
		VerifyZIP215(pub, msg, sig)
	}
}
