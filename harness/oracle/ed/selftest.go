package ed

import (
	"bytes"
	stded "crypto/ed25519"
	"encoding/hex"
	"fmt"
	"math/big"
	"math/rand"
)

func unhex(s string) []byte {
	b, err := hex.DecodeString(s)
	if err != nil {
		panic(err)
	}
	return b
}

// RFC 8032 section 7.1 test vectors 1-3 (seed, public key, message, signature).
var rfc8032 = [][4]string{
	{"9d61b19deffd5a60ba844af492ec2cc44449c5697b326919703bac031cae7f60", "d75a980182b10ab7d54bfed3c964073a0ee172f3daa62325af021a68f707511a", "",
		"e5564300c360ac729086e2cc806e828a84877f1eb8e5d974d873e065224901555fb8821590a33bacc61e39701cf9b46bd25bf5f0595bbe24655141438e7a100b"},
	{"4ccd089b28ff96da9db6c346ec114e0f5b8a319f35aba624da8cf6ed4fb8a6fb", "3d4017c3e843895a92b70aa74d1b7ebc9c982ccf2ec4968cc0cd55f12af4660c", "72",
		"92a009a9f0d4cab8720e820b5f642540a2b27b5416503f8fb3762223ebdb69da085ac1e43e15996e458f3613d0f11d8c387b2eaeb4302aeeb00d291612bb0c00"},
	{"c5aa8df43f9f837bedb7442f31dcb7b166d38535076f094b85ce3a2e0b4458f7", "fc51cd8e6218a1a38da47ed00230f0580816ed13ba3303ac5deb911548908025", "af82",
		"6291d657deec24024827e69c3abe01a30ce548a284743a445e3680d7db5ac3ac18ff9b538d16f290ae67f760984dc6594a7c15e9716ed28dc027beceea1ec40a"},
}

// SelfTest validates the model against RFC 8032 vectors, crypto/ed25519 and
// the known small-order encodings.
func SelfTest() error {
	l := new(big.Int).Lsh(big.NewInt(1), 252)
	c, _ := new(big.Int).SetString("27742317777372353535851937790883648493", 10)
	if l.Add(l, c).Cmp(L) != 0 {
		return fmt.Errorf("ed: group order constant wrong")
	}
	p := new(big.Int).Lsh(big.NewInt(1), 255)
	if p.Sub(p, big.NewInt(19)).Cmp(P) != 0 {
		return fmt.Errorf("ed: field prime constant wrong")
	}
	if !B.OnCurve() || !B.Mul(L).IsIdentity() || B.Mul8().IsIdentity() {
		return fmt.Errorf("ed: base point")
	}
	if hex.EncodeToString(B.Encode()) != "5866666666666666666666666666666666666666666666666666666666666666" {
		return fmt.Errorf("ed: base point encoding %x", B.Encode())
	}
	for _, v := range rfc8032 {
		seed, pub, msg, sig := unhex(v[0]), unhex(v[1]), unhex(v[2]), unhex(v[3])
		gp, _, _ := PublicFromSeed(seed)
		if !bytes.Equal(gp, pub) {
			return fmt.Errorf("ed: RFC 8032 public key mismatch for seed %s", v[0])
		}
		if !bytes.Equal(Sign(seed, msg), sig) {
			return fmt.Errorf("ed: RFC 8032 signature mismatch for seed %s", v[0])
		}
		if !VerifyZIP215(pub, msg, sig) || !VerifyStrict(pub, msg, sig) {
			return fmt.Errorf("ed: RFC 8032 vector rejected by model")
		}
		sig[0] ^= 1
		if VerifyZIP215(pub, msg, sig) {
			return fmt.Errorf("ed: corrupted RFC 8032 vector accepted by model")
		}
	}
	r := rand.New(rand.NewSource(7))
	for i := 0; i < 12; i++ {
		seed := make([]byte, 32)
		r.Read(seed)
		msg := make([]byte, r.Intn(200))
		r.Read(msg)
		sk := stded.NewKeyFromSeed(seed)
		gp, _, _ := PublicFromSeed(seed)
		if !bytes.Equal(gp, sk[32:]) {
			return fmt.Errorf("ed: public key differs from crypto/ed25519")
		}
		sig := Sign(seed, msg)
		if !bytes.Equal(sig, stded.Sign(sk, msg)) {
			return fmt.Errorf("ed: signature differs from crypto/ed25519")
		}
		if !VerifyZIP215(gp, msg, sig) {
			return fmt.Errorf("ed: model rejects honest signature")
		}
		// S + L must be rejected, both by model and by definition
		s := LE(sig[32:])
		s.Add(s, L)
		if s.BitLen() <= 256 {
			bad := append(append([]byte(nil), sig[:32]...), ToLE(s, 32)...)
			if VerifyZIP215(gp, msg, bad) {
				return fmt.Errorf("ed: model accepts S+L")
			}
		}
		// encode/decode round trip of a random point
		q := BaseMul(LE(seed))
		d, ok := Decode(q.Encode(), true)
		if !ok || !d.Equal(q) || !q.OnCurve() {
			return fmt.Errorf("ed: encode/decode round trip")
		}
	}
	// torsion subgroup
	ts := Torsion()
	seen := map[string]bool{}
	for k, t := range ts {
		if !t.OnCurve() || !t.Mul8().IsIdentity() {
			return fmt.Errorf("ed: torsion point %d", k)
		}
		seen[hex.EncodeToString(t.Encode())] = true
	}
	if len(seen) != 8 {
		return fmt.Errorf("ed: expected 8 distinct torsion points, got %d", len(seen))
	}
	for _, known := range []string{
		"0100000000000000000000000000000000000000000000000000000000000000", // identity
		"ecffffffffffffffffffffffffffffffffffffffffffffffffffffffffffff7f", // order 2
		"0000000000000000000000000000000000000000000000000000000000000000", // order 4
		"0000000000000000000000000000000000000000000000000000000000000080", // order 4
		"26e8958fc2b227b045c3f489f2ef98f0d5dfac05d3c63339b13802886d53fc05", // order 8
		"26e8958fc2b227b045c3f489f2ef98f0d5dfac05d3c63339b13802886d53fc85", // order 8
		"c7176a703d4dd84fba3c0b760d10670f2a2053fa2c39ccc64ec7fd7792ac037a", // order 8
		"c7176a703d4dd84fba3c0b760d10670f2a2053fa2c39ccc64ec7fd7792ac03fa", // order 8
	} {
		if !seen[known] {
			return fmt.Errorf("ed: known small-order encoding %s not among the torsion points", known)
		}
	}
	// non-canonical encodings
	n := 0
	for _, t := range ts {
		for _, e := range Encodings(t) {
			d, ok := Decode(e, false)
			if !ok || !d.Equal(t) {
				return fmt.Errorf("ed: encoding %x does not decode to its point", e)
			}
			n++
		}
	}
	// 8 canonical + y=1: (p+1; sign variants of both) + y=p-1 sign variant + y=0 (x!=0): p with matching sign x2
	if n != 14 {
		return fmt.Errorf("ed: expected 14 encodings of small-order points, got %d", n)
	}
	if _, ok := Decode(unhex("0100000000000000000000000000000000000000000000000000000000000080"), true); ok {
		return fmt.Errorf("ed: strict decoding accepts negative zero")
	}
	if _, ok := Decode(unhex("eeffffffffffffffffffffffffffffffffffffffffffffffffffffffffffff7f"), true); ok {
		return fmt.Errorf("ed: strict decoding accepts y = p+1")
	}
	if q, ok := Decode(unhex("eeffffffffffffffffffffffffffffffffffffffffffffffffffffffffffff7f"), false); !ok || !q.IsIdentity() {
		return fmt.Errorf("ed: permissive decoding of y = p+1")
	}
	return nil
}
