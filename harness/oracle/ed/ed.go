// Package ed is an independent, deliberately naive model of edwards25519
// arithmetic, Ed25519 (RFC 8032) signing, ZIP-215 verification and point
// encodings, written over math/big. It shares no code with
// filippo.io/edwards25519 or crypto/ed25519.
package ed

import (
	"crypto/sha512"
	"math/big"
	"sync"
)

var (
	P, _  = new(big.Int).SetString("7fffffffffffffffffffffffffffffffffffffffffffffffffffffffffffffed", 16)
	L, _  = new(big.Int).SetString("1000000000000000000000000000000014def9dea2f79cd65812631a5cf5d3ed", 16)
	D     *big.Int // -121665/121666
	D2    *big.Int
	SqrtM *big.Int // sqrt(-1)
	one   = big.NewInt(1)
	zero  = big.NewInt(0)
	B     *Point
	bPow  []*Point // [2^i]B
)

// Point is a point in extended homogeneous coordinates (X:Y:Z:T), x=X/Z, y=Y/Z, xy=T/Z.
type Point struct{ X, Y, Z, T *big.Int }

func mod(x *big.Int) *big.Int { return x.Mod(x, P) }

func mul(a, b *big.Int) *big.Int { return mod(new(big.Int).Mul(a, b)) }
func add(a, b *big.Int) *big.Int { return mod(new(big.Int).Add(a, b)) }
func sub(a, b *big.Int) *big.Int { return mod(new(big.Int).Sub(a, b)) }
func inv(a *big.Int) *big.Int    { return new(big.Int).Exp(a, new(big.Int).Sub(P, big.NewInt(2)), P) }

func init() {
	D = mul(mod(big.NewInt(-121665)), inv(big.NewInt(121666)))
	D2 = add(D, D)
	// sqrt(-1) = 2^((p-1)/4)
	e := new(big.Int).Sub(P, one)
	e.Rsh(e, 2)
	SqrtM = new(big.Int).Exp(big.NewInt(2), e, P)
	// base point: y = 4/5, x even
	y := mul(big.NewInt(4), inv(big.NewInt(5)))
	x, ok := recoverX(y)
	if !ok {
		panic("ed: base point")
	}
	if x.Bit(0) == 1 {
		x = sub(zero, x)
	}
	B = FromAffine(x, y)
	bPow = make([]*Point, 256)
	q := B
	for i := range bPow {
		bPow[i] = q
		q = q.Add(q)
	}
}

// recoverX returns a square root of (y^2-1)/(d*y^2+1), if one exists.
func recoverX(y *big.Int) (*big.Int, bool) {
	y2 := mul(y, y)
	u := sub(y2, one)
	v := add(mul(D, y2), one)
	x2 := mul(u, inv(v))
	return Sqrt(x2)
}

// Sqrt returns a square root of a mod p (p = 5 mod 8), if one exists.
func Sqrt(a *big.Int) (*big.Int, bool) {
	e := new(big.Int).Add(P, big.NewInt(3))
	e.Rsh(e, 3)
	x := new(big.Int).Exp(a, e, P)
	if mul(x, x).Cmp(a) == 0 {
		return x, true
	}
	x = mul(x, SqrtM)
	if mul(x, x).Cmp(a) == 0 {
		return x, true
	}
	return nil, false
}

// Identity returns the neutral element (0, 1).
func Identity() *Point {
	return &Point{big.NewInt(0), big.NewInt(1), big.NewInt(1), big.NewInt(0)}
}

// FromAffine builds a point from affine coordinates (assumed on the curve).
func FromAffine(x, y *big.Int) *Point {
	return &Point{new(big.Int).Set(x), new(big.Int).Set(y), big.NewInt(1), mul(x, y)}
}

// OnCurve checks -x^2 + y^2 = 1 + d x^2 y^2 for the affine coordinates.
func (p *Point) OnCurve() bool {
	x, y := p.Affine()
	x2, y2 := mul(x, x), mul(y, y)
	return sub(y2, x2).Cmp(add(one, mul(D, mul(x2, y2)))) == 0
}

// Add returns p + q (unified, complete formulas add-2008-hwcd-3 for a = -1).
func (p *Point) Add(q *Point) *Point {
	a := mul(sub(p.Y, p.X), sub(q.Y, q.X))
	b := mul(add(p.Y, p.X), add(q.Y, q.X))
	c := mul(mul(p.T, D2), q.T)
	d := mul(add(p.Z, p.Z), q.Z)
	e := sub(b, a)
	f := sub(d, c)
	g := add(d, c)
	h := add(b, a)
	return &Point{mul(e, f), mul(g, h), mul(f, g), mul(e, h)}
}

// Neg returns -p.
func (p *Point) Neg() *Point {
	return &Point{sub(zero, p.X), new(big.Int).Set(p.Y), new(big.Int).Set(p.Z), sub(zero, p.T)}
}

// Sub returns p - q.
func (p *Point) Sub(q *Point) *Point { return p.Add(q.Neg()) }

// Mul returns [k]p for a non-negative k (double and add, most significant bit first).
func (p *Point) Mul(k *big.Int) *Point {
	r := Identity()
	for i := k.BitLen() - 1; i >= 0; i-- {
		r = r.Add(r)
		if k.Bit(i) == 1 {
			r = r.Add(p)
		}
	}
	return r
}

// BaseMul returns [k]B using the table of doublings of B.
func BaseMul(k *big.Int) *Point {
	if k.BitLen() > 256 {
		return B.Mul(k)
	}
	r := Identity()
	for i := 0; i < k.BitLen(); i++ {
		if k.Bit(i) == 1 {
			r = r.Add(bPow[i])
		}
	}
	return r
}

// Mul8 returns [8]p.
func (p *Point) Mul8() *Point {
	r := p.Add(p)
	r = r.Add(r)
	return r.Add(r)
}

// Equal compares two points projectively.
func (p *Point) Equal(q *Point) bool {
	return mul(p.X, q.Z).Cmp(mul(q.X, p.Z)) == 0 && mul(p.Y, q.Z).Cmp(mul(q.Y, p.Z)) == 0
}

// IsIdentity reports whether p is the neutral element.
func (p *Point) IsIdentity() bool { return p.Equal(Identity()) }

// Affine returns the affine coordinates.
func (p *Point) Affine() (x, y *big.Int) {
	zi := inv(p.Z)
	return mul(p.X, zi), mul(p.Y, zi)
}

// Encode returns the canonical 32-byte encoding.
func (p *Point) Encode() []byte {
	x, y := p.Affine()
	return EncodeXY(x.Bit(0), y)
}

// EncodeXY encodes an arbitrary y value (< 2^255, not necessarily reduced) with a sign bit.
func EncodeXY(sign uint, y *big.Int) []byte {
	out := make([]byte, 32)
	b := y.Bytes()
	for i := range b {
		out[len(b)-1-i] = b[i]
	}
	out[31] |= byte(sign << 7)
	return out
}

// LE reads a little-endian integer.
func LE(b []byte) *big.Int {
	r := make([]byte, len(b))
	for i := range b {
		r[len(b)-1-i] = b[i]
	}
	return new(big.Int).SetBytes(r)
}

// ToLE writes v as n little-endian bytes (v must fit).
func ToLE(v *big.Int, n int) []byte {
	out := make([]byte, n)
	b := v.Bytes()
	for i := range b {
		out[len(b)-1-i] = b[i]
	}
	return out
}

// Decode decodes a 32-byte point encoding. With strict=false it follows ZIP-215
// (y is taken modulo p, x = 0 with the sign bit set is accepted); with
// strict=true it follows RFC 8032 section 5.1.3 (y >= p and "negative zero" fail).
func Decode(enc []byte, strict bool) (*Point, bool) {
	if len(enc) != 32 {
		return nil, false
	}
	e := append([]byte(nil), enc...)
	sign := uint(e[31] >> 7)
	e[31] &= 0x7f
	y := LE(e)
	if y.Cmp(P) >= 0 {
		if strict {
			return nil, false
		}
		y.Mod(y, P)
	}
	x, ok := recoverX(y)
	if !ok {
		return nil, false
	}
	if x.Sign() == 0 && sign == 1 {
		if strict {
			return nil, false
		}
		return FromAffine(x, y), true
	}
	if x.Bit(0) != sign {
		x = sub(zero, x)
	}
	return FromAffine(x, y), true
}

// Torsion returns the eight points of the torsion subgroup, T[k] = [k]T8 for a generator T8 of order 8.
func Torsion() []*Point {
	torsionOnce()
	return torsion
}

var (
	torsion     []*Point
	torsionSync sync.Once
)

func torsionOnce() { torsionSync.Do(torsionBuild) }

func torsionBuild() {
	for yv := int64(2); ; yv++ {
		y := big.NewInt(yv)
		x, ok := recoverX(y)
		if !ok {
			continue
		}
		t := FromAffine(x, y).Mul(L)
		// order 8 iff [4]t != identity
		t4 := t.Add(t)
		t4 = t4.Add(t4)
		if t4.IsIdentity() {
			continue
		}
		ts := make([]*Point, 8)
		ts[0] = Identity()
		for k := 1; k < 8; k++ {
			ts[k] = ts[k-1].Add(t)
		}
		torsion = ts
		return
	}
}

// Encodings returns every 32-byte string that decodes (permissively) to p:
// the canonical one, y+p when it fits in 255 bits, and for x = 0 both sign bits.
func Encodings(p *Point) [][]byte {
	x, y := p.Affine()
	var out [][]byte
	ys := []*big.Int{y}
	yp := new(big.Int).Add(y, P)
	if yp.BitLen() <= 255 {
		ys = append(ys, yp)
	}
	for _, yy := range ys {
		out = append(out, EncodeXY(x.Bit(0), yy))
		if x.Sign() == 0 {
			out = append(out, EncodeXY(1, yy))
		}
	}
	return out
}

// NonCanonicalY returns all 19*2 encodings whose y field is >= p (y = p .. 2^255-1), both sign bits.
func NonCanonicalY() [][]byte {
	var out [][]byte
	for i := int64(0); i < 19; i++ {
		y := new(big.Int).Add(P, big.NewInt(i))
		out = append(out, EncodeXY(0, y), EncodeXY(1, y))
	}
	return out
}

// Clamp returns the clamped secret scalar of the first 32 bytes of a SHA-512 digest.
func Clamp(h []byte) *big.Int {
	b := append([]byte(nil), h[:32]...)
	b[0] &= 248
	b[31] &= 127
	b[31] |= 64
	return LE(b)
}

// HashModL returns SHA-512(parts...) read little-endian, reduced mod L.
func HashModL(parts ...[]byte) *big.Int {
	h := sha512.New()
	for _, p := range parts {
		h.Write(p)
	}
	k := LE(h.Sum(nil))
	return k.Mod(k, L)
}

// PublicFromSeed returns the RFC 8032 public key of a 32-byte seed and the secret scalar / prefix.
func PublicFromSeed(seed []byte) (pub []byte, a *big.Int, prefix []byte) {
	h := sha512.Sum512(seed)
	a = Clamp(h[:32])
	return BaseMul(a).Encode(), a, h[32:]
}

// Sign is RFC 8032 section 5.1.6.
func Sign(seed, msg []byte) []byte {
	pub, a, prefix := PublicFromSeed(seed)
	r := HashModL(prefix, msg)
	R := BaseMul(r).Encode()
	k := HashModL(R, pub, msg)
	s := new(big.Int).Mul(k, a)
	s.Add(s, r)
	s.Mod(s, L)
	return append(R, ToLE(s, 32)...)
}

// VerifyZIP215 is the ZIP-215 acceptance predicate.
func VerifyZIP215(pub, msg, sig []byte) bool {
	if len(sig) != 64 || len(pub) != 32 {
		return false
	}
	s := LE(sig[32:])
	if s.Cmp(L) >= 0 {
		return false
	}
	A, ok := Decode(pub, false)
	if !ok {
		return false
	}
	R, ok := Decode(sig[:32], false)
	if !ok {
		return false
	}
	k := HashModL(sig[:32], pub, msg)
	// [8]([S]B - [k]A - R) == O
	q := BaseMul(s).Sub(A.Mul(k)).Sub(R)
	return q.Mul8().IsIdentity()
}

// VerifyStrict is the cofactorless RFC 8032 check with strict decoding (used only in tests of the model).
func VerifyStrict(pub, msg, sig []byte) bool {
	if len(sig) != 64 || len(pub) != 32 {
		return false
	}
	s := LE(sig[32:])
	if s.Cmp(L) >= 0 {
		return false
	}
	A, ok := Decode(pub, true)
	if !ok {
		return false
	}
	R, ok := Decode(sig[:32], true)
	if !ok {
		return false
	}
	k := HashModL(sig[:32], pub, msg)
	return BaseMul(s).Equal(R.Add(A.Mul(k)))
}
