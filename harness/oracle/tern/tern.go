// Package tern is a table-driven model of the ternary encodings of IOTA
// TIP-5: balanced trits, trytes over the alphabet "9ABC...Z", the b1t6 and
// b1t8 byte codecs and the little-endian base-3 integer reading of a trit
// string. It is written from the definitions only and shares no code with the
// library under test or with iota.go.
//
// Definitions used (TIP-5):
//
//	trit   : one of -1, 0, 1
//	tryte  : 3 trits t0,t1,t2 little-endian, value t0 + 3*t1 + 9*t2 in -13..13,
//	         written as one character: 0 -> '9', 1..13 -> 'A'..'M', -13..-1 -> 'N'..'Z'
//	b1t6   : a byte is read as a signed 8-bit value v in -128..127 and written as
//	         the 6 balanced trits t0..t5 with v = sum t_i * 3^i (2 trytes)
//	b1t8   : a byte is written as its 8 bits, least significant first, each bit
//	         as the trit 0 or 1
//
// None of the functions panics, whatever the input.
package tern

import (
	"encoding/hex"
	"fmt"
	"math/big"
)

// Alphabet is the tryte alphabet; Alphabet[i] is the character of the tryte
// value i for i in 0..13 and of i-27 for i in 14..26.
const Alphabet = "9ABCDEFGHIJKLMNOPQRSTUVWXYZ"

const (
	// B1T6Group and B1T8Group are the numbers of trits per byte.
	B1T6Group = 6
	B1T8Group = 8
)

var (
	b1t6Table  [256][B1T6Group]int8 // index: byte
	b1t6Trytes [256][2]byte         // index: byte
	b1t8Table  [256][B1T8Group]int8 // index: byte
	tryteTrits [27][3]int8          // index: position in Alphabet
	charIndex  [256]int8            // character -> position in Alphabet, -1 if none
	pow3       = [...]int{1, 3, 9, 27, 81, 243, 729}
)

// Balanced writes v as n balanced trits, little-endian, by the usual
// remainder rule (remainder 2 becomes trit -1 with a carry). ok is false if v
// does not fit.
func Balanced(v, n int) (out []int8, ok bool) {
	if n < 0 {
		return nil, false
	}
	out = make([]int8, n)
	for i := 0; i < n; i++ {
		r := v % 3
		if r < 0 {
			r += 3
		}
		switch r {
		case 0:
		case 1:
			out[i] = 1
			v--
		default:
			out[i] = -1
			v++
		}
		v /= 3
	}
	return out, v == 0
}

func init() {
	for i := range charIndex {
		charIndex[i] = -1
	}
	for i := 0; i < 27; i++ {
		v := i
		if i > 13 {
			v = i - 27
		}
		t, _ := Balanced(v, 3)
		copy(tryteTrits[i][:], t)
		charIndex[Alphabet[i]] = int8(i)
	}
	for b := 0; b < 256; b++ {
		v := b
		if b >= 128 {
			v = b - 256 // the byte as a signed 8-bit value
		}
		t, _ := Balanced(v, B1T6Group)
		copy(b1t6Table[b][:], t)
		for k := 0; k < 2; k++ {
			tv := int(t[3*k]) + 3*int(t[3*k+1]) + 9*int(t[3*k+2])
			if tv < 0 {
				tv += 27
			}
			b1t6Trytes[b][k] = Alphabet[tv]
		}
		for j := 0; j < B1T8Group; j++ {
			if b&(1<<uint(j)) != 0 {
				b1t8Table[b][j] = 1
			}
		}
	}
}

// ValidTrits reports whether every element is -1, 0 or 1.
func ValidTrits(t []int8) bool {
	for _, x := range t {
		if x < -1 || x > 1 {
			return false
		}
	}
	return true
}

// ValidTrytes reports whether every character is in the tryte alphabet.
func ValidTrytes(s string) bool {
	for i := 0; i < len(s); i++ {
		if charIndex[s[i]] < 0 {
			return false
		}
	}
	return true
}

// TryteValue returns the value (-13..13) of a tryte character.
func TryteValue(c byte) (v int, ok bool) {
	i := int(charIndex[c])
	if i < 0 {
		return 0, false
	}
	if i > 13 {
		i -= 27
	}
	return i, true
}

// TryteChar returns the character of a tryte value in -13..13.
func TryteChar(v int) (c byte, ok bool) {
	if v < -13 || v > 13 {
		return 0, false
	}
	if v < 0 {
		v += 27
	}
	return Alphabet[v], true
}

// TritsToTrytes converts trits (length a multiple of 3, each in -1..1) to trytes.
func TritsToTrytes(t []int8) (s string, ok bool) {
	if len(t)%3 != 0 || !ValidTrits(t) {
		return "", false
	}
	out := make([]byte, len(t)/3)
	for i := range out {
		c, _ := TryteChar(int(t[3*i]) + 3*int(t[3*i+1]) + 9*int(t[3*i+2]))
		out[i] = c
	}
	return string(out), true
}

// TrytesToTrits converts a tryte string to 3 trits per character.
func TrytesToTrits(s string) (t []int8, ok bool) {
	t = make([]int8, 0, 3*len(s))
	for i := 0; i < len(s); i++ {
		k := charIndex[s[i]]
		if k < 0 {
			return nil, false
		}
		t = append(t, tryteTrits[k][:]...)
	}
	return t, true
}

// B1T6Encode returns the 6 trits per byte of the b1t6 encoding.
func B1T6Encode(src []byte) []int8 {
	out := make([]int8, 0, B1T6Group*len(src))
	for _, b := range src {
		out = append(out, b1t6Table[b][:]...)
	}
	return out
}

// B1T6EncodeTrytes returns the 2 trytes per byte of the b1t6 encoding.
func B1T6EncodeTrytes(src []byte) string {
	out := make([]byte, 0, 2*len(src))
	for _, b := range src {
		out = append(out, b1t6Trytes[b][0], b1t6Trytes[b][1])
	}
	return string(out)
}

// B1T8Encode returns the 8 trits per byte of the b1t8 encoding.
func B1T8Encode(src []byte) []int8 {
	out := make([]int8, 0, B1T8Group*len(src))
	for _, b := range src {
		out = append(out, b1t8Table[b][:]...)
	}
	return out
}

// GroupValue is the integer sum t_i * 3^i of up to 6 balanced trits.
func GroupValue(g []int8) int {
	v := 0
	for i := 0; i < len(g) && i < len(pow3); i++ {
		v += int(g[i]) * pow3[i]
	}
	return v
}

// B1T6DecodeGroup decodes one group of 6 trits; ok iff its value is in -128..127.
func B1T6DecodeGroup(g []int8) (b byte, ok bool) {
	if len(g) != B1T6Group || !ValidTrits(g) {
		return 0, false
	}
	v := GroupValue(g)
	if v < -128 || v > 127 {
		return 0, false
	}
	if v < 0 {
		v += 256
	}
	return byte(v), true
}

// B1T8DecodeGroup decodes one group of 8 trits; ok iff all trits are 0 or 1.
func B1T8DecodeGroup(g []int8) (b byte, ok bool) {
	if len(g) != B1T8Group {
		return 0, false
	}
	for j, t := range g {
		switch t {
		case 0:
		case 1:
			b |= 1 << uint(j)
		default:
			return 0, false
		}
	}
	return b, true
}

// Verdict is the model's reading of a string handed to a decoder.
type Verdict struct {
	// Groups is the number of complete groups.
	Groups int
	// N is the index of the first invalid complete group, or Groups if all
	// complete groups are code words: the number of bytes decoded before the fault.
	N int
	// Bytes are the N bytes decoded before the fault (all bytes if Accept).
	Bytes []byte
	// BadGroup: some complete group is not a code word.
	BadGroup bool
	// BadLen: the length is not a whole number of groups.
	BadLen bool
	// BadRem (b1t8 only): the incomplete trailing group contains a trit
	// that is not 0 or 1.
	BadRem bool
}

// Accept reports whether the string is a valid encoding.
func (v Verdict) Accept() bool { return !v.BadGroup && !v.BadLen }

func decode(t []int8, group int, dec func([]int8) (byte, bool)) Verdict {
	v := Verdict{Groups: len(t) / group, BadLen: len(t)%group != 0}
	v.N = v.Groups
	for i := 0; i < v.Groups; i++ {
		b, ok := dec(t[i*group : (i+1)*group])
		if !ok {
			v.BadGroup = true
			v.N = i
			break
		}
		v.Bytes = append(v.Bytes, b)
	}
	return v
}

// B1T6Decode judges a trit string as b1t6.
func B1T6Decode(t []int8) Verdict { return decode(t, B1T6Group, B1T6DecodeGroup) }

// B1T8Decode judges a trit string as b1t8.
func B1T8Decode(t []int8) Verdict {
	v := decode(t, B1T8Group, B1T8DecodeGroup)
	for _, x := range t[v.Groups*B1T8Group:] {
		if x != 0 && x != 1 {
			v.BadRem = true
		}
	}
	return v
}

// B1T6DecodeTrytes judges a tryte string as b1t6 (2 trytes per byte). ok is
// false if the string contains a character outside the alphabet.
func B1T6DecodeTrytes(s string) (v Verdict, ok bool) {
	t, ok := TrytesToTrits(s)
	if !ok {
		return Verdict{}, false
	}
	return B1T6Decode(t), true
}

// TrailingZeros counts the zero trits at the end of t.
func TrailingZeros(t []int8) int {
	n := 0
	for i := len(t) - 1; i >= 0 && t[i] == 0; i-- {
		n++
	}
	return n
}

// Value reads t as a little-endian base-3 integer in which the trit -1 is the
// digit 2: sum d_i * 3^i with d_i = t_i for t_i in {0, 1} and d_i = 2 for
// t_i = -1. ok is false if t contains anything else.
func Value(t []int8) (v *big.Int, ok bool) {
	v = new(big.Int)
	three := big.NewInt(3)
	for i := len(t) - 1; i >= 0; i-- {
		v.Mul(v, three)
		switch t[i] {
		case 0:
		case 1:
			v.Add(v, big.NewInt(1))
		case -1:
			v.Add(v, big.NewInt(2))
		default:
			return nil, false
		}
	}
	return v, true
}

// ---------------------------------------------------------------------------

func eqTrits(a, b []int8) bool {
	if len(a) != len(b) {
		return false
	}
	for i := range a {
		if a[i] != b[i] {
			return false
		}
	}
	return true
}

// SelfTest checks the tables against a brute-force enumeration of all groups
// and against hand-computed and published (TIP-5) examples.
func SelfTest() error {
	// alphabet: 27 distinct characters, value <-> char both ways, trits of each tryte
	if len(Alphabet) != 27 {
		return fmt.Errorf("tern: alphabet length")
	}
	for v := -13; v <= 13; v++ {
		c, ok := TryteChar(v)
		back, ok2 := TryteValue(c)
		if !ok || !ok2 || back != v {
			return fmt.Errorf("tern: tryte value %d -> %q -> %d", v, c, back)
		}
	}
	for _, e := range []struct {
		v int
		c byte
	}{{0, '9'}, {1, 'A'}, {13, 'M'}, {-13, 'N'}, {-1, 'Z'}, {-8, 'S'}, {5, 'E'}, {7, 'G'}, {-5, 'V'}} {
		if c, _ := TryteChar(e.v); c != e.c {
			return fmt.Errorf("tern: tryte value %d must be %q, got %q", e.v, e.c, c)
		}
	}
	// all 27 tryte trit triples, brute force: value of the triple determines the character
	seenTryte := map[byte]bool{}
	for a := int8(-1); a <= 1; a++ {
		for b := int8(-1); b <= 1; b++ {
			for c := int8(-1); c <= 1; c++ {
				s, ok := TritsToTrytes([]int8{a, b, c})
				if !ok || len(s) != 1 || seenTryte[s[0]] {
					return fmt.Errorf("tern: trits->trytes not injective at %d,%d,%d", a, b, c)
				}
				seenTryte[s[0]] = true
				v, _ := TryteValue(s[0])
				if v != int(a)+3*int(b)+9*int(c) {
					return fmt.Errorf("tern: tryte %q has value %d, trits %d,%d,%d", s, v, a, b, c)
				}
				back, ok := TrytesToTrits(s)
				if !ok || !eqTrits(back, []int8{a, b, c}) {
					return fmt.Errorf("tern: trytes->trits(%q) = %v", s, back)
				}
			}
		}
	}
	if _, ok := TrytesToTrits("A8"); ok {
		return fmt.Errorf("tern: '8' accepted as a tryte")
	}
	if _, ok := TritsToTrytes([]int8{0, 0}); ok {
		return fmt.Errorf("tern: 2 trits accepted as trytes")
	}

	// b1t6: brute-force enumeration of all 3^6 groups, independent of the
	// remainder rule used to build the table: the integer value of a group is
	// computed by Horner from the top trit; each value in -364..364 occurs
	// exactly once (so the code word of a byte is unique), and the group with
	// the value of the signed byte must be the table entry.
	byValue := map[int][]int8{}
	var g [6]int8
	count := 0
	for idx := 0; idx < 729; idx++ {
		x := idx
		for i := 0; i < 6; i++ {
			g[i] = int8(x%3) - 1
			x /= 3
		}
		val := 0
		for i := 5; i >= 0; i-- {
			val = val*3 + int(g[i])
		}
		if _, dup := byValue[val]; dup || val < -364 || val > 364 {
			return fmt.Errorf("tern: group value %d duplicated or out of range", val)
		}
		byValue[val] = append([]int8(nil), g[:]...)
		count++
		// decoder verdict
		b, ok := B1T6DecodeGroup(g[:])
		wantOK := val >= -128 && val <= 127
		if ok != wantOK || (ok && int(int8(b)) != val) {
			return fmt.Errorf("tern: B1T6DecodeGroup(%v) = %d,%v; value %d", g, b, ok, val)
		}
	}
	if count != 729 || len(byValue) != 729 {
		return fmt.Errorf("tern: enumeration incomplete")
	}
	accepted := 0
	for b := 0; b < 256; b++ {
		val := int(int8(byte(b)))
		want := byValue[val]
		enc := B1T6Encode([]byte{byte(b)})
		if !eqTrits(enc, want) {
			return fmt.Errorf("tern: b1t6 table entry for byte %#02x is %v, brute force gives %v", b, enc, want)
		}
		ts, ok := TritsToTrytes(want)
		if !ok || ts != B1T6EncodeTrytes([]byte{byte(b)}) {
			return fmt.Errorf("tern: b1t6 tryte table entry for byte %#02x is %q, trits give %q", b, B1T6EncodeTrytes([]byte{byte(b)}), ts)
		}
		v := B1T6Decode(enc)
		if !v.Accept() || len(v.Bytes) != 1 || v.Bytes[0] != byte(b) {
			return fmt.Errorf("tern: b1t6 decode(encode(%#02x)) = %+v", b, v)
		}
		accepted++
	}
	if accepted != 256 {
		return fmt.Errorf("tern: accepted count")
	}
	// hand-computed examples:
	//   127 = 1 - 9 - 27 - 81 + 243           -> [1,0,-1,-1,-1,1]  trytes (1-9=-8 'S', -1-3+9=5 'E')
	//  -128 = 1 - 3 + 9 + 27 + 81 - 243       -> [1,-1,1,1,1,-1]   trytes (1-3+9=7 'G', 1+3-9=-5 'V')
	//  -127 = -1 + 9 + 27 + 81 - 243          -> [-1,0,1,1,1,-1]   trytes (-1+9=8 'H', -5 'V')
	for _, e := range []struct {
		b byte
		t []int8
		s string
	}{
		{0x00, []int8{0, 0, 0, 0, 0, 0}, "99"},
		{0x01, []int8{1, 0, 0, 0, 0, 0}, "A9"},
		{0x02, []int8{-1, 1, 0, 0, 0, 0}, "B9"},
		{0x7e, []int8{0, 0, -1, -1, -1, 1}, "RE"},
		{0x7f, []int8{1, 0, -1, -1, -1, 1}, "SE"},
		{0x80, []int8{1, -1, 1, 1, 1, -1}, "GV"},
		{0x81, []int8{-1, 0, 1, 1, 1, -1}, "HV"},
		{0xfd, []int8{0, -1, 0, 0, 0, 0}, "X9"},
		{0xfe, []int8{1, -1, 0, 0, 0, 0}, "Y9"},
		{0xff, []int8{-1, 0, 0, 0, 0, 0}, "Z9"},
	} {
		if got := B1T6Encode([]byte{e.b}); !eqTrits(got, e.t) {
			return fmt.Errorf("tern: b1t6(%#02x) = %v, expected %v", e.b, got, e.t)
		}
		if got := B1T6EncodeTrytes([]byte{e.b}); got != e.s {
			return fmt.Errorf("tern: b1t6 trytes(%#02x) = %q, expected %q", e.b, got, e.s)
		}
	}
	// TIP-5 examples
	for _, e := range []struct {
		hex string
		s   string
	}{
		{"", ""},
		{"00", "99"},
		{"00017f80ff", "99A9SEGVZ9"},
		{"0001027e7f8081fdfeff", "99A9B9RESEGVHVX9Y9Z9"},
		{"9ba06c78552776a596dfe360cc2b5bf644c0f9d343a10e2e71debecd30730d03", "GWLW9DLDDCLAJDQXBWUZYZODBYPBJCQ9NCQYT9IYMBMWNASBEDTZOYCYUBGDM9C9"},
	} {
		src, err := hex.DecodeString(e.hex)
		if err != nil {
			return fmt.Errorf("tern: bad vector %q", e.hex)
		}
		if got := B1T6EncodeTrytes(src); got != e.s {
			return fmt.Errorf("tern: TIP-5 example %s encodes to %q, expected %q", e.hex, got, e.s)
		}
		v, ok := B1T6DecodeTrytes(e.s)
		if !ok || !v.Accept() || string(v.Bytes) != string(src) {
			return fmt.Errorf("tern: TIP-5 example %q decodes to %+v", e.s, v)
		}
	}
	// verdicts on multi-group strings
	{
		good := B1T6Encode([]byte{1, 2, 3})
		bad := append(append([]int8(nil), good...), 1, 1, 1, 1, 1, 1) // 364
		bad = append(bad, good...)
		v := B1T6Decode(bad)
		if v.Accept() || !v.BadGroup || v.BadLen || v.N != 3 || string(v.Bytes) != "\x01\x02\x03" || v.Groups != 7 {
			return fmt.Errorf("tern: verdict on invalid 4th group: %+v", v)
		}
		v = B1T6Decode(append(good, 0, 0))
		if v.Accept() || v.BadGroup || !v.BadLen || v.N != 3 || v.Groups != 3 {
			return fmt.Errorf("tern: verdict on remainder: %+v", v)
		}
		// 128 and -129 are the nearest non-code-words
		v128, _ := Balanced(128, 6)
		vm129, _ := Balanced(-129, 6)
		if _, ok := B1T6DecodeGroup(v128); ok {
			return fmt.Errorf("tern: 128 accepted")
		}
		if _, ok := B1T6DecodeGroup(vm129); ok {
			return fmt.Errorf("tern: -129 accepted")
		}
		if tv, ok := B1T6DecodeTrytes("GVA"); !ok || tv.BadGroup || !tv.BadLen || tv.N != 1 {
			return fmt.Errorf("tern: verdict on odd tryte length: %+v", tv)
		}
	}

	// b1t8: all 3^8 groups by brute force
	valid := 0
	var h [8]int8
	for idx := 0; idx < 6561; idx++ {
		x := idx
		bits, all01 := 0, true
		for i := 0; i < 8; i++ {
			h[i] = int8(x%3) - 1
			x /= 3
			if h[i] == 1 {
				bits += 1 << uint(i)
			} else if h[i] != 0 {
				all01 = false
			}
		}
		b, ok := B1T8DecodeGroup(h[:])
		if ok != all01 || (ok && int(b) != bits) {
			return fmt.Errorf("tern: B1T8DecodeGroup(%v) = %d,%v", h, b, ok)
		}
		if ok {
			valid++
			if !eqTrits(B1T8Encode([]byte{b}), h[:]) {
				return fmt.Errorf("tern: b1t8 table entry for %#02x is not %v", b, h)
			}
		}
	}
	if valid != 256 {
		return fmt.Errorf("tern: b1t8 has %d valid groups", valid)
	}
	if got := B1T8Encode([]byte{0xa5, 0x80}); !eqTrits(got, []int8{1, 0, 1, 0, 0, 1, 0, 1, 0, 0, 0, 0, 0, 0, 0, 1}) {
		return fmt.Errorf("tern: b1t8(a5 80) = %v", got)
	}
	{
		t := append(B1T8Encode([]byte{7, 9}), 0, 1, -1)
		v := B1T8Decode(t)
		if v.BadGroup || !v.BadLen || !v.BadRem || v.N != 2 || string(v.Bytes) != "\x07\x09" {
			return fmt.Errorf("tern: b1t8 verdict with bad remainder: %+v", v)
		}
		t[9] = -1
		v = B1T8Decode(t)
		if !v.BadGroup || v.N != 1 || string(v.Bytes) != "\x07" {
			return fmt.Errorf("tern: b1t8 verdict with bad group: %+v", v)
		}
	}

	// Value / TrailingZeros
	for _, e := range []struct {
		t  []int8
		v  int64
		tz int
	}{
		{nil, 0, 0}, {[]int8{1}, 1, 0}, {[]int8{-1}, 2, 0}, {[]int8{0, 1}, 3, 0}, {[]int8{-1, -1}, 8, 0},
		{[]int8{1, 0, -1, 0, 0}, 1 + 2*9, 2}, {[]int8{0, 0, 0}, 0, 3}, {[]int8{-1, 1, 0, -1}, 2 + 3 + 54, 0},
	} {
		v, ok := Value(e.t)
		if !ok || v.Int64() != e.v || TrailingZeros(e.t) != e.tz {
			return fmt.Errorf("tern: Value(%v) = %v, TrailingZeros = %d", e.t, v, TrailingZeros(e.t))
		}
	}
	// Value by explicit powers on a longer string (exceeds 64 bits)
	{
		t := make([]int8, 60)
		want := new(big.Int)
		for i := range t {
			t[i] = int8((i*7+i/3)%3) - 1
			d := int64(t[i])
			if d < 0 {
				d = 2
			}
			p := new(big.Int).Exp(big.NewInt(3), big.NewInt(int64(i)), nil)
			want.Add(want, p.Mul(p, big.NewInt(d)))
		}
		if v, ok := Value(t); !ok || v.Cmp(want) != 0 {
			return fmt.Errorf("tern: Value on 60 trits = %v, expected %v", v, want)
		}
		if _, ok := Value([]int8{2}); ok {
			return fmt.Errorf("tern: Value accepted trit 2")
		}
	}
	return nil
}
