// Package slip10m is an independent model of SLIP-0010 (BIP-32 for secp256k1)
// master key generation, CKDpriv and CKDpub, parameterised by curve and by an
// extra key-validity predicate (for the pluggable curves of the harness).
package slip10m

import (
	"bytes"
	"crypto/hmac"
	"crypto/sha256"
	"crypto/sha512"
	"encoding/binary"
	"encoding/hex"
	"errors"
	"fmt"
	"math/big"

	"golang.org/x/crypto/ripemd160" //nolint

	"verif/harness/oracle/ed"
	"verif/harness/oracle/weier"
)

// Verdict of the extra predicate on a 32-byte candidate I_L.
type Verdict int

const (
	Valid     Verdict = iota
	Invalid           // treated like an invalid key: SLIP-0010 retry
	Permanent         // a permanent curve error: must be returned, not retried
)

// Params selects the curve.
type Params struct {
	W       *weier.Curve // nil for ed25519
	HmacKey string
	Extra   func(il []byte) Verdict // optional
}

var (
	Secp256k1 = &Params{W: weier.Secp256k1(), HmacKey: "Bitcoin seed"}
	Nist256p1 = &Params{W: weier.P256(), HmacKey: "Nist256p1 seed"}
	Ed25519   = &Params{HmacKey: "ed25519 seed"}
)

// Node is an extended key of the model.
type Node struct {
	Priv     []byte // 32 bytes, nil for a public node
	Pub      []byte // 33 bytes (0x00 || A for ed25519)
	Chain    []byte
	ParentFP []byte // 4 bytes
	Retries  int    // retries taken when this node was derived
}

// ErrUndefined marks derivations SLIP-0010 does not define.
var ErrUndefined = errors.New("derivation not defined by SLIP-0010")

// ErrPermanent marks a permanent curve error injected by the Extra predicate.
var ErrPermanent = errors.New("permanent curve error")

func hmac512(key []byte, parts ...[]byte) []byte {
	h := hmac.New(sha512.New, key)
	for _, p := range parts {
		h.Write(p)
	}
	return h.Sum(nil)
}

func ser32(i uint32) []byte {
	b := make([]byte, 4)
	binary.BigEndian.PutUint32(b, i)
	return b
}

func hash160(b []byte) []byte {
	s := sha256.Sum256(b)
	r := ripemd160.New()
	r.Write(s[:])
	return r.Sum(nil)
}

func (p *Params) extra(il []byte) Verdict {
	if p.Extra == nil {
		return Valid
	}
	return p.Extra(il)
}

// pubOf returns the serialized public key of a private key.
func (p *Params) pubOf(priv []byte) []byte {
	if p.W == nil {
		pub, _, _ := ed.PublicFromSeed(priv)
		return append([]byte{0}, pub...)
	}
	return p.W.Compress(p.W.BaseMul(new(big.Int).SetBytes(priv)))
}

// Master is the SLIP-0010 master key generation.
func (p *Params) Master(seed []byte) (*Node, error) {
	I := hmac512([]byte(p.HmacKey), seed)
	retries := 0
	for {
		il, ir := I[:32], I[32:]
		ok := true
		switch p.extra(il) {
		case Permanent:
			return nil, ErrPermanent
		case Invalid:
			ok = false
		}
		if ok && p.W != nil {
			k := new(big.Int).SetBytes(il)
			if k.Sign() == 0 || k.Cmp(p.W.N) >= 0 {
				ok = false
			}
		}
		if ok {
			priv := append([]byte(nil), il...)
			return &Node{Priv: priv, Pub: p.pubOf(priv), Chain: append([]byte(nil), ir...), ParentFP: make([]byte, 4), Retries: retries}, nil
		}
		retries++
		I = hmac512([]byte(p.HmacKey), I)
	}
}

// Public returns the public version of a node.
func (n *Node) Public() *Node {
	return &Node{Pub: n.Pub, Chain: n.Chain, ParentFP: n.ParentFP, Retries: n.Retries}
}

func (p *Params) decompress(pub []byte) weier.Pt {
	x := new(big.Int).SetBytes(pub[1:])
	pt, ok := p.W.LiftX(x)
	if !ok {
		panic("slip10m: bad public key")
	}
	if byte(pt.Y.Bit(0)) != pub[0]-2 {
		pt = p.W.Neg(pt)
	}
	return pt
}

// Child is CKDpriv for private nodes and CKDpub for public nodes.
func (p *Params) Child(n *Node, i uint32) (*Node, error) {
	hardened := i >= 1<<31
	if n.Priv == nil && hardened {
		return nil, ErrUndefined
	}
	if p.W == nil && !hardened {
		return nil, ErrUndefined
	}
	var I []byte
	if hardened {
		I = hmac512(n.Chain, []byte{0}, n.Priv, ser32(i))
	} else {
		I = hmac512(n.Chain, n.Pub, ser32(i))
	}
	fp := hash160(n.Pub)[:4]
	retries := 0
	for {
		il, ir := I[:32], I[32:]
		ok := true
		switch p.extra(il) {
		case Permanent:
			return nil, ErrPermanent
		case Invalid:
			ok = false
		}
		var child *Node
		if ok {
			if p.W == nil {
				priv := append([]byte(nil), il...)
				child = &Node{Priv: priv, Pub: p.pubOf(priv)}
			} else {
				k := new(big.Int).SetBytes(il)
				if k.Cmp(p.W.N) >= 0 {
					ok = false
				} else if n.Priv != nil {
					k.Add(k, new(big.Int).SetBytes(n.Priv)).Mod(k, p.W.N)
					if k.Sign() == 0 {
						ok = false
					} else {
						priv := k.FillBytes(make([]byte, 32))
						child = &Node{Priv: priv, Pub: p.pubOf(priv)}
					}
				} else {
					pt := p.W.Add(p.W.BaseMul(k), p.decompress(n.Pub))
					if pt.Inf {
						ok = false
					} else {
						child = &Node{Pub: p.W.Compress(pt)}
					}
				}
			}
		}
		if ok {
			child.Chain = append([]byte(nil), ir...)
			child.ParentFP = fp
			child.Retries = retries
			return child, nil
		}
		retries++
		I = hmac512(n.Chain, []byte{1}, ir, ser32(i))
	}
}

// Derive runs Master and Child along a path.
func (p *Params) Derive(seed []byte, path []uint32) (*Node, error) {
	n, err := p.Master(seed)
	if err != nil {
		return nil, err
	}
	for _, i := range path {
		if n, err = p.Child(n, i); err != nil {
			return nil, err
		}
	}
	return n, nil
}

// ---------------------------------------------------------------------------

type vec struct {
	p                    *Params
	seed                 string
	path                 []uint32
	fp, chain, priv, pub string
}

const h = 1 << 31

// SLIP-0010 test vectors (vector 1 for each curve, the ed25519 vector 2 head and
// the NIST P-256 retry vectors).
var vectors = []vec{
	{Secp256k1, "000102030405060708090a0b0c0d0e0f", nil, "00000000", "873dff81c02f525623fd1fe5167eac3a55a049de3d314bb42ee227ffed37d508", "e8f32e723decf4051aefac8e2c93c9c5b214313817cdb01a1494b917c8436b35", "0339a36013301597daef41fbe593a02cc513d0b55527ec2df1050e2e8ff49c85c2"},
	{Secp256k1, "000102030405060708090a0b0c0d0e0f", []uint32{h}, "3442193e", "47fdacbd0f1097043b78c63c20c34ef4ed9a111d980047ad16282c7ae6236141", "edb2e14f9ee77d26dd93b4ecede8d16ed408ce149b6cd80b0715a2d911a0afea", "035a784662a4a20a65bf6aab9ae98a6c068a81c52e4b032c0fb5400c706cfccc56"},
	{Secp256k1, "000102030405060708090a0b0c0d0e0f", []uint32{h, 1}, "5c1bd648", "2a7857631386ba23dacac34180dd1983734e444fdbf774041578e9b6adb37c19", "3c6cb8d0f6a264c91ea8b5030fadaa8e538b020f0a387421a12de9319dc93368", "03501e454bf00751f24b1b489aa925215d66af2234e3891c3b21a52bedb3cd711c"},
	{Secp256k1, "000102030405060708090a0b0c0d0e0f", []uint32{h, 1, 2 + h, 2, 1000000000}, "d880d7d8", "c783e67b921d2beb8f6b389cc646d7263b4145701dadd2161548a8b078e65e9e", "471b76e389e528d6de6d816857e012c5455051cad6660850e58372a6c3e6e7c8", "022a471424da5e657499d1ff51cb43c47481a03b1e77f951fe64cec9f5a48f7011"},
	{Nist256p1, "000102030405060708090a0b0c0d0e0f", nil, "00000000", "beeb672fe4621673f722f38529c07392fecaa61015c80c34f29ce8b41b3cb6ea", "612091aaa12e22dd2abef664f8a01a82cae99ad7441b7ef8110424915c268bc2", "0266874dc6ade47b3ecd096745ca09bcd29638dd52c2c12117b11ed3e458cfa9e8"},
	{Nist256p1, "000102030405060708090a0b0c0d0e0f", []uint32{h, 1}, "9b02312f", "4187afff1aafa8445010097fb99d23aee9f599450c7bd140b6826ac22ba21d0c", "284e9d38d07d21e4e281b645089a94f4cf5a5a81369acf151a1c3a57f18b2129", "03526c63f8d0b4bbbf9c80df553fe66742df4676b241dabefdef67733e070f6844"},
	{Nist256p1, "000102030405060708090a0b0c0d0e0f", []uint32{h, 1, 2 + h, 2, 1000000000}, "8b2b5c4b", "b9b7b82d326bb9cb5b5b121066feea4eb93d5241103c9e7a18aad40f1dde8059", "21c4f269ef0a5fd1badf47eeacebeeaa3de22eb8e5b0adcd0f27dd99d34d0119", "02216cd26d31147f72427a453c443ed2cde8a1e53c9cc44e5ddf739725413fe3f4"},
	{Nist256p1, "000102030405060708090a0b0c0d0e0f", []uint32{28578 + h, 33941}, "3e2b7bc6", "9e87fe95031f14736774cd82f25fd885065cb7c358c1edf813c72af535e83071", "092154eed4af83e078ff9b84322015aefe5769e31270f62c3f66c33888335f3a", "0235bfee614c0d5b2cae260000bb1d0d84b270099ad790022c1ae0b2e782efe120"},
	{Nist256p1, "a7305bc8df8d0951f0cb224c0e95d7707cbdf2c6ce7e8d481fec69c7ff5e9446", nil, "00000000", "7762f9729fed06121fd13f326884c82f59aa95c57ac492ce8c9654e60efd130c", "3b8c18469a4634517d6d0b65448f8e6c62091b45540a1743c5846be55d47d88f", "0383619fadcde31063d8c5cb00dbfe1713f3e6fa169d8541a798752a1c1ca0cb20"},
	{Nist256p1, "000102030405060708090a0b0c0d0e0f", []uint32{28578 + h}, "be6105b5", "e94c8ebe30c2250a14713212f6449b20f3329105ea15b652ca5bdfc68f6c65c2", "06f0db126f023755d0b8d86d4591718a5210dd8d024e3e14b6159d63f53aa669", "02519b5554a4872e8c9c1c847115363051ec43e93400e030ba3c36b52a3e70a5b7"},
	{Ed25519, "000102030405060708090a0b0c0d0e0f", nil, "00000000", "90046a93de5380a72b5e45010748567d5ea02bbf6522f979e05c0d8d8ca9fffb", "2b4be7f19ee27bbf30c667b642d5f4aa69fd169872f8fc3059c08ebae2eb19e7", "00a4b2856bfec510abab89753fac1ac0e1112364e7d250545963f135f2a33188ed"},
	{Ed25519, "000102030405060708090a0b0c0d0e0f", []uint32{h, 1 + h}, "13dab143", "a320425f77d1b5c2505a6b1b27382b37368ee640e3557c315416801243552f14", "b1d0bad404bf35da785a64ca1ac54b2617211d2777696fbffaf208f746ae84f2", "001932a5270f335bed617d5b935c80aedb1a35bd9fc1e31acafd5372c30f5c1187"},
}

// SelfTest checks the model against the published SLIP-0010 vectors.
func SelfTest() error {
	if err := weier.SelfTest(); err != nil {
		return err
	}
	if err := ed.SelfTest(); err != nil {
		return err
	}
	for _, v := range vectors {
		seed, _ := hex.DecodeString(v.seed)
		n, err := v.p.Derive(seed, v.path)
		if err != nil {
			return fmt.Errorf("slip10 model: vector %s %v: %v", v.p.HmacKey, v.path, err)
		}
		if hex.EncodeToString(n.ParentFP) != v.fp || hex.EncodeToString(n.Chain) != v.chain || hex.EncodeToString(n.Priv) != v.priv || hex.EncodeToString(n.Pub) != v.pub {
			return fmt.Errorf("slip10 model: vector %s %v mismatch: fp=%x chain=%x priv=%x pub=%x", v.p.HmacKey, v.path, n.ParentFP, n.Chain, n.Priv, n.Pub)
		}
		// CKDpub agrees with CKDpriv on the last step when it is not hardened
		if l := len(v.path); l > 0 && v.path[l-1] < h && v.p.W != nil {
			par, _ := v.p.Derive(seed, v.path[:l-1])
			pc, err := v.p.Child(par.Public(), v.path[l-1])
			if err != nil || !bytes.Equal(pc.Pub, n.Pub) || !bytes.Equal(pc.Chain, n.Chain) {
				return fmt.Errorf("slip10 model: CKDpub disagrees with CKDpriv on vector %v", v.path)
			}
		}
	}
	return nil
}

// KeyOf returns the serialized public key SLIP-0010 prescribes for a valid 32-byte private key.
func (p *Params) KeyOf(priv []byte) ([]byte, error) {
	if len(priv) != 32 {
		return nil, errors.New("slip10m: private key must have 32 bytes")
	}
	return p.pubOf(priv), nil
}
