package fw

import (
	"bufio"
	"encoding/binary"
	"encoding/hex"
	"encoding/json"
	"fmt"
	"os"
	"os/exec"
	"path/filepath"
	"regexp"
	"runtime"
	"sort"
	"strconv"
	"strings"
	"sync"
	"syscall"
	"time"
)

// RunResult is the merged view of a run that Post hooks and the evidence
// writer work on.
type RunResult struct {
	Prop         *Prop
	Tier         string
	Seed         int64
	Root         string
	WorkDir      string
	Shards       []*ShardResult
	Evaluations  int64
	Nontrivial   int64
	Distinct     int
	FpCapped     bool
	ByClass      map[string]int64
	Counters     map[string]int64
	Samples      []Sample
	Violations   []Violation
	ViolTotal    int64
	Inconclusive []string
	Extra        map[string]interface{}
	Exhaustive   bool
	BuildDigests map[string]string
	Stalled      int  // shards that gave up on a case
	Incomplete   bool // some shard did not run to completion (stalled, timed out, died): per-build digests are then not comparable
}

// AddViolation lets a Post hook report a violation found by an offline checker.
func (r *RunResult) AddViolation(v Violation) {
	r.Violations = append(r.Violations, v)
	r.ViolTotal++
}

// AddInconclusive marks the run inconclusive.
func (r *RunResult) AddInconclusive(format string, args ...interface{}) {
	r.Inconclusive = append(r.Inconclusive, fmt.Sprintf(format, args...))
}

type knownFinding struct {
	Status   string `json:"status"`
	Property string `json:"property"`
	Class    string `json:"class,omitempty"`
	VClass   string `json:"violation_class,omitempty"`
	KeyHex   string `json:"key_hex,omitempty"`
	MsgRegex string `json:"msg_regex,omitempty"`
	Commit   string `json:"commit,omitempty"`
	What     string `json:"what"`
}

func loadKnown(root, prop string) []knownFinding {
	f, err := os.Open(filepath.Join(root, "known_findings.txt"))
	if err != nil {
		return nil
	}
	defer f.Close()
	var out []knownFinding
	sc := bufio.NewScanner(f)
	sc.Buffer(make([]byte, 1<<20), 1<<24)
	for sc.Scan() {
		line := strings.TrimSpace(sc.Text())
		if line == "" || strings.HasPrefix(line, "#") {
			continue
		}
		var k knownFinding
		if json.Unmarshal([]byte(line), &k) != nil {
			continue
		}
		// "fixed" lines are history only and match nothing
		if k.Status == "known" && k.Property == prop {
			out = append(out, k)
		}
	}
	return out
}

func (k *knownFinding) matches(v *Violation) bool {
	if k.KeyHex == "" && k.MsgRegex == "" {
		return false // a finding must be identified by a specific input or witness
	}
	if k.Class != "" && k.Class != v.Class {
		return false
	}
	if k.VClass != "" && k.VClass != v.VClass {
		return false
	}
	if k.KeyHex != "" && k.KeyHex != v.KeyHex {
		return false
	}
	if k.MsgRegex != "" {
		re, err := regexp.Compile(k.MsgRegex)
		if err != nil || !re.MatchString(v.Message) {
			return false
		}
	}
	return true
}

func envInt(name string, def int64) int64 {
	if s := os.Getenv(name); s != "" {
		if v, err := strconv.ParseInt(s, 10, 64); err == nil {
			return v
		}
	}
	return def
}

// Root returns the /verif directory.
func Root() string {
	if r := os.Getenv("VERIF_ROOT"); r != "" {
		return r
	}
	return "/verif"
}

// A build name may carry the suffix "+cpuoff": the same binary run with GODEBUG=cpu.all=off, so that code
// dispatched on optional CPU features at run time (x/sys/cpu, internal/cpu) takes its fallback path.
const cpuOffSuffix = "+cpuoff"

func binFor(root, build string) string {
	switch strings.TrimSuffix(build, cpuOffSuffix) {
	case "purego":
		return filepath.Join(root, "bin", "vmon-purego")
	case "race":
		return filepath.Join(root, "bin", "vmon-race")
	case "386":
		return filepath.Join(root, "bin", "vmon-386")
	}
	return filepath.Join(root, "bin", "vmon")
}

type childOutcome struct {
	cold     bool // a cold-start probe: its counters are kept apart from the (exactly sized) main workload
	build    string
	shard    int
	err      error
	timedOut bool
	base     string
}

// Supervise runs a property check: self-test, child shards, merge, verdict.
// It returns the process exit code.
func Supervise(p *Prop, tier string) int {
	t0 := time.Now()
	root := Root()
	seed := envInt("VERIF_SEED", 1)
	if tier != "thorough" {
		tier = "quick"
	}
	if p.SelfTest != nil {
		if err := p.SelfTest(); err != nil {
			fmt.Printf("INCONCLUSIVE property=%s reason=oracle self-test failed: %v\n", p.ID, err)
			return 2
		}
	}
	work := filepath.Join(root, "work", fmt.Sprintf("%s-%s-%d", p.ID, tier, os.Getpid()))
	os.RemoveAll(work)
	if err := os.MkdirAll(work, 0o755); err != nil {
		fmt.Printf("INCONCLUSIVE property=%s reason=%v\n", p.ID, err)
		return 2
	}
	builds := p.Builds
	if len(builds) == 0 {
		builds = []string{"default"}
	}
	nshards := p.Shards
	if nshards == 0 {
		nshards = 16
	}
	if v := envInt("VERIF_SHARDS", 0); v > 0 {
		nshards = int(v)
	}
	wd := p.WatchdogQuick
	if tier == "thorough" {
		wd = p.WatchdogThorough
	}
	if wd == 0 {
		if tier == "thorough" {
			wd = 3600
		} else {
			wd = 600
		}
	}

	r := &RunResult{Prop: p, Tier: tier, Seed: seed, Root: root, WorkDir: work,
		ByClass: map[string]int64{}, Counters: map[string]int64{}, Extra: map[string]interface{}{},
		BuildDigests: map[string]string{}}

	var outcomes []childOutcome
	for _, b := range builds {
		bin := binFor(root, b)
		if b == "386" {
			// the 32-bit variant is an extra: if it could not be built, or this host cannot execute
			// 32-bit binaries, it is skipped and the evidence says so; the native builds still decide
			if _, err := os.Stat(bin); err != nil {
				r.Extra["build_386"] = "skipped: binary not built"
				continue
			}
			if out, err := exec.Command(bin, "list").CombinedOutput(); err != nil || !strings.Contains(string(out), p.ID) {
				r.Extra["build_386"] = fmt.Sprintf("skipped: the 32-bit binary does not run on this host (%v)", err)
				continue
			}
			r.Extra["build_386"] = "run"
		}
		if _, err := os.Stat(bin); err != nil {
			r.AddInconclusive("binary for build %q missing: %v", b, err)
			continue
		}
		var wg sync.WaitGroup
		res := make([][]childOutcome, nshards)
		for s := 0; s < nshards; s++ {
			wg.Add(1)
			go func(s int) {
				defer wg.Done()
				// a shard that gave up on a stalled case (exit status 4, partial result) is restarted behind it
				from := int64(0)
				stalledFor := 0.0
				deadlocks := 0
				for attempt := 0; attempt <= maxRestarts && stalledFor < maxStallSeconds; attempt++ {
					oc := runChildProc(bin, p.ID, tier, seed, s, nshards, b, work, time.Duration(wd)*time.Second, attempt, from, 0)
					res[s] = append(res[s], oc)
					var sr ShardResult
					js, err := os.ReadFile(oc.base + ".json")
					if err != nil || json.Unmarshal(js, &sr) != nil || sr.Stalled == nil {
						break
					}
					from = sr.Stalled.Index + 1
					stalledFor += sr.Stalled.Seconds
					if sr.Stalled.Deadlock {
						deadlocks++
						if deadlocks >= 2 {
							break // two witnesses from this shard are enough
						}
					}
				}
			}(s)
		}
		wg.Wait()
		for _, rs := range res {
			outcomes = append(outcomes, rs...)
		}
		// cold-start probes (properties judged on several goroutines): many short-lived processes, each
		// releasing its judging goroutines together on a different handful of cases, so that whatever the
		// library initialises lazily on first use is raced at the one moment it is vulnerable
		if (p.Parallel > 1 || p.ColdStart) && b == "default" {
			nCold := 16
			if p.ColdProbes > 0 {
				nCold = p.ColdProbes
			}
			if tier == "thorough" {
				nCold *= 10
			}
			cold := make([]childOutcome, nCold)
			sem := make(chan struct{}, 16)
			var cwg sync.WaitGroup
			for k := 0; k < nCold; k++ {
				cwg.Add(1)
				go func(k int) {
					defer cwg.Done()
					sem <- struct{}{}
					defer func() { <-sem }()
					defer func() { cold[k].cold = true }()
					cold[k] = runChildProc(bin, p.ID, tier, seed, k%nshards, nshards, b, work, time.Duration(wd)*time.Second, 1000+k, int64(k/nshards)*int64(3*p.Parallel+1), int64(2*p.Parallel+2))
				}(k)
			}
			cwg.Wait()
			outcomes = append(outcomes, cold...)
			r.Extra["cold_start_probes_"+b] = nCold
		}
	}

	// merge
	fps := map[uint64]struct{}{}
	for _, oc := range outcomes {
		var sr ShardResult
		js, err := os.ReadFile(oc.base + ".json")
		completed := err == nil && json.Unmarshal(js, &sr) == nil && (sr.Completed || sr.Stalled != nil)
		if completed && sr.Stalled != nil {
			st := sr.Stalled
			if st.Deadlock {
				// recorded as a violation by the child; the shard was restarted behind the case
			} else {
				r.AddInconclusive("shard %s/%d gave up on a case that was in flight for %.0f s (class=%s key=%s) and was restarted behind it; goroutines at that time:\n%s", oc.build, oc.shard, st.Seconds, st.Class, st.KeyHex, st.Stack)
			}
			r.Stalled++
			r.Incomplete = true
		}
		if !completed {
			r.Incomplete = true
			inflight := readSlot(oc.base + ".slot")
			tail := tailFile(oc.base+".out", 6000)
			switch {
			case oc.timedOut:
				desc := "no case in flight"
				if len(inflight) > 0 {
					desc = fmt.Sprintf("case in flight: class=%s key=%s", inflight[0].class, hex.EncodeToString(inflight[0].key))
				}
				r.AddInconclusive("shard %s/%d exceeded the %ds watchdog (%s)", oc.build, oc.shard, wd, desc)
			case len(inflight) > 0:
				for _, c := range inflight {
					note := ""
					if len(inflight) > 1 {
						note = fmt.Sprintf(" (one of %d cases in flight on different goroutines)", len(inflight))
					}
					r.AddViolation(Violation{Class: c.class, VClass: "crash", KeyHex: hex.EncodeToString(c.key),
						Message: fmt.Sprintf("process died (%v) while this case was in flight%s; output tail:\n%s", oc.err, note, tail),
						Input:   render(p, c.class, c.key), Shard: oc.shard, Build: oc.build})
				}
			default:
				r.AddInconclusive("shard %s/%d died outside a case (%v): %s", oc.build, oc.shard, oc.err, tail)
			}
			continue
		}
		if !oc.cold {
			r.Shards = append(r.Shards, &sr)
		}
		r.Evaluations += sr.Evaluations
		r.Nontrivial += sr.Nontrivial
		r.ViolTotal += sr.ViolTotal
		r.FpCapped = r.FpCapped || sr.FpCapped
		pre := ""
		if oc.cold {
			pre = "cold-start probe: "
		}
		for k, v := range sr.ByClass {
			r.ByClass[pre+k] += v
		}
		for k, v := range sr.Counters {
			r.Counters[pre+k] += v
		}
		r.Violations = append(r.Violations, sr.Violations...)
		for _, he := range sr.HarnessErrors {
			r.AddInconclusive("harness error in shard %s/%d: %s", oc.build, oc.shard, he)
		}
		if fb, err := os.ReadFile(oc.base + ".fp"); err == nil {
			for i := 0; i+8 <= len(fb); i += 8 {
				fps[binary.LittleEndian.Uint64(fb[i:])] = struct{}{}
			}
		}
	}
	r.Distinct = len(fps)
	// samples: at most 3 per class over all shards, deterministic order
	sort.SliceStable(r.Shards, func(i, j int) bool {
		if r.Shards[i].Build != r.Shards[j].Build {
			return r.Shards[i].Build < r.Shards[j].Build
		}
		return r.Shards[i].Shard < r.Shards[j].Shard
	})
	perClass := map[string]int{}
	for _, sr := range r.Shards {
		for _, s := range sr.Samples {
			if perClass[s.Class] < 2 {
				perClass[s.Class]++
				r.Samples = append(r.Samples, s)
			}
		}
	}
	// per-build output digests (hash chain over shard digests in shard order)
	for _, b := range builds {
		var parts []string
		for _, sr := range r.Shards {
			if sr.Build == b {
				parts = append(parts, fmt.Sprintf("%d:%s", sr.Shard, sr.OutDigest))
			}
		}
		r.BuildDigests[b] = strings.Join(parts, ",")
	}
	for _, b := range builds {
		if b == "race" {
			scanRaceLogs(r)
		}
	}
	if p.Post != nil {
		func() {
			defer func() {
				if rec := recover(); rec != nil {
					r.AddInconclusive("post-processing panicked: %v", rec)
				}
			}()
			p.Post(r)
		}()
	}
	for _, c := range p.Required {
		if r.Counters[c] == 0 {
			r.AddInconclusive("required observation %q never made", c)
		}
	}
	if r.Evaluations == 0 {
		r.AddInconclusive("no case was evaluated")
	}

	// verdict
	known := loadKnown(root, p.ID)
	var fresh []Violation
	printedKnown := map[string]bool{}
	for i := range r.Violations {
		v := &r.Violations[i]
		matched := false
		for k := range known {
			if known[k].matches(v) {
				matched = true
				if !printedKnown[known[k].What] {
					printedKnown[known[k].What] = true
					fmt.Printf("KNOWN-FINDING: property=%s %s\n", p.ID, known[k].What)
				}
				break
			}
		}
		if !matched {
			fresh = append(fresh, *v)
		}
	}
	// show distinct kinds of violation first
	{
		seenKind := map[string]bool{}
		var first, rest []Violation
		for _, v := range fresh {
			k := v.Class + "/" + v.VClass
			if !seenKind[k] {
				seenKind[k] = true
				first = append(first, v)
			} else {
				rest = append(rest, v)
			}
		}
		fresh = append(first, rest...)
	}
	os.MkdirAll(filepath.Join(root, "replays"), 0o755)
	for i, v := range fresh {
		if i >= 5 {
			break
		}
		path := filepath.Join(root, "replays", fmt.Sprintf("%s-%s-%d.json", p.ID, tier, i))
		rep := map[string]interface{}{
			"property": p.ID, "tier": tier, "seed": seed, "class": v.Class, "violation_class": v.VClass,
			"key_hex": v.KeyHex, "message": v.Message, "input": v.Input, "shard": v.Shard, "build": v.Build,
			"gomaxprocs": func() int {
				if p.OwnProcs {
					return 0
				}
				return ProcsOf(v.Shard)
			}(),
			"replay": fmt.Sprintf("./run_check.sh replay %s", path),
		}
		js, _ := json.MarshalIndent(rep, "", " ")
		os.WriteFile(path, js, 0o644)
		fmt.Printf("VIOLATION property=%s replay=%s\n", p.ID, path)
		msg := v.Message
		if len(msg) > 600 {
			msg = msg[:600] + "…"
		}
		fmt.Printf("  class=%s/%s build=%s: %s\n", v.Class, v.VClass, v.Build, msg)
	}
	wall := time.Since(t0).Seconds()
	writeEvidence(r, len(fresh), wall)

	fmt.Printf("SUMMARY property=%s tier=%s seed=%d evaluations=%d nontrivial=%d distinct_nontrivial=%d violations=%d (unlisted=%d) inconclusive=%d wall=%.1fs\n",
		p.ID, tier, seed, r.Evaluations, r.Nontrivial, r.Distinct, len(r.Violations), len(fresh), len(r.Inconclusive), wall)
	if len(fresh) > 0 {
		// keep the work dir (child output) next to the replay files for diagnosis
		return 1
	}
	os.RemoveAll(work)
	if len(r.Inconclusive) > 0 {
		for _, s := range r.Inconclusive {
			if len(s) > 3000 {
				s = s[:3000] + "…"
			}
			fmt.Printf("INCONCLUSIVE property=%s reason=%s\n", p.ID, s)
		}
		return 2
	}
	if r.Distinct < 2 {
		fmt.Printf("INCONCLUSIVE property=%s reason=fewer than two distinct non-trivial cases observed\n", p.ID)
		return 2
	}
	return 0
}

// maxRestarts / maxStallSeconds bound how often one shard is restarted behind a stalled case.
const (
	maxRestarts     = 24
	maxStallSeconds = 450
)

func runChildProc(bin, prop, tier string, seed int64, shard, nshards int, build, work string, watchdog time.Duration, attempt int, from, limit int64) childOutcome {
	base := filepath.Join(work, fmt.Sprintf("%s-%d", build, shard))
	if attempt > 0 {
		base += fmt.Sprintf("-r%d", attempt)
	}
	oc := childOutcome{build: build, shard: shard, base: base}
	out, err := os.Create(base + ".out")
	if err != nil {
		oc.err = err
		return oc
	}
	defer out.Close()
	cmd := exec.Command(bin, "child", prop, tier, strconv.FormatInt(seed, 10), strconv.Itoa(shard), strconv.Itoa(nshards), build, work)
	cmd.Stdout = out
	cmd.Stderr = out
	cmd.Env = append(os.Environ(), "GOTRACEBACK=all", fmt.Sprintf("VERIF_ATTEMPT=%d", attempt), fmt.Sprintf("VERIF_FROM=%d", from), fmt.Sprintf("VERIF_LIMIT=%d", limit))
	if strings.HasSuffix(build, cpuOffSuffix) {
		cmd.Env = append(cmd.Env, "GODEBUG=cpu.all=off")
	}
	if build == "race" {
		cmd.Env = append(cmd.Env, fmt.Sprintf("GORACE=halt_on_error=0 log_path=%s", filepath.Join(work, fmt.Sprintf("racelog-%d", shard))))
	}
	if err := cmd.Start(); err != nil {
		oc.err = err
		return oc
	}
	done := make(chan error, 1)
	go func() { done <- cmd.Wait() }()
	select {
	case err := <-done:
		oc.err = err
	case <-time.After(watchdog):
		oc.timedOut = true
		cmd.Process.Signal(syscall.SIGQUIT)
		select {
		case err := <-done:
			oc.err = err
		case <-time.After(10 * time.Second):
			cmd.Process.Kill()
			oc.err = <-done
		}
	}
	return oc
}

func tailFile(path string, n int) string {
	b, err := os.ReadFile(path)
	if err != nil {
		return ""
	}
	// prefer the start of a panic/fatal message if there is one
	s := string(b)
	for _, marker := range []string{"panic: ", "fatal error: ", "unexpected fault address"} {
		if i := strings.Index(s, marker); i >= 0 {
			s = s[i:]
			if len(s) > n {
				s = s[:n]
			}
			return s
		}
	}
	if len(s) > n {
		s = s[len(s)-n:]
	}
	return s
}

// scanRaceLogs counts and de-duplicates race detector reports of the race build.
func scanRaceLogs(r *RunResult) {
	files, _ := filepath.Glob(filepath.Join(r.WorkDir, "racelog-*"))
	blocks := 0
	type rep struct {
		text  string
		count int
	}
	dedup := map[string]*rep{}
	for _, f := range files {
		b, err := os.ReadFile(f)
		if err != nil {
			continue
		}
		for _, blk := range strings.Split(string(b), "==================") {
			if !strings.Contains(blk, "WARNING: DATA RACE") {
				continue
			}
			blocks++
			key := raceKey(blk)
			if d, ok := dedup[key]; ok {
				d.count++
			} else {
				dedup[key] = &rep{text: blk, count: 1}
			}
		}
	}
	r.Extra["race_report_blocks"] = blocks
	r.Extra["race_reports_distinct"] = len(dedup)
	r.Extra["race_log_files"] = len(files)
	for key, d := range dedup {
		if strings.Contains(d.text, "iota-crypto-demo/pkg/") || strings.Contains(d.text, "/repo/pkg/") {
			txt := d.text
			if len(txt) > 5000 {
				txt = txt[:5000]
			}
			r.AddViolation(Violation{Class: "race-detector", VClass: "data-race", KeyHex: hex.EncodeToString([]byte(key)),
				Message: fmt.Sprintf("race detector report (%d occurrences), frames: %s\n%s", d.count, key, txt), Build: "race"})
		} else {
			r.AddInconclusive("race report without library frames (harness race): %s", key)
		}
	}
}

var frameRe = regexp.MustCompile(`(?m)^\s+([\w./\-()*]+)\(`)

// raceKey de-duplicates by the function names of the two accesses' top frames
// (line numbers stripped).
func raceKey(blk string) string {
	var tops []string
	sections := regexp.MustCompile(`(?m)^(Read|Write|Previous read|Previous write|Atomic|Previous atomic)[^\n]*\n`).Split(blk, -1)
	for _, s := range sections[1:] {
		if m := frameRe.FindStringSubmatch(s); m != nil {
			tops = append(tops, m[1])
		}
		if len(tops) == 2 {
			break
		}
	}
	sort.Strings(tops)
	return strings.Join(tops, " <-> ")
}

func writeEvidence(r *RunResult, fresh int, wall float64) {
	cov := map[string]interface{}{
		"evaluations":         r.Evaluations,
		"distinct_nontrivial": r.Distinct,
		"nontrivial_emitted":  r.Nontrivial,
		"rule":                r.Prop.Rule,
		"samples":             r.Samples,
		"by_class":            r.ByClass,
		"observed":            r.Counters,
		"builds":              buildsOf(r),
		"shards_completed":    len(r.Shards),
	}
	if r.FpCapped {
		cov["distinct_note"] = fmt.Sprintf("fingerprint sets are capped at %d per shard; distinct_nontrivial is a lower bound", maxFingerprints)
	}
	if r.Exhaustive {
		cov["exhaustive"] = true
	}
	for k, v := range r.Extra {
		cov[k] = v
	}
	if len(r.Samples) == 0 {
		cov["samples"] = []interface{}{"(no sample recorded)"}
	}
	verdict := "held on everything observed"
	if fresh > 0 {
		verdict = "violated"
	} else if len(r.Inconclusive) > 0 {
		verdict = "inconclusive"
	}
	ev := map[string]interface{}{
		"property_id":       r.Prop.ID,
		"tier":              r.Tier,
		"seed":              r.Seed,
		"level":             "exploration",
		"coverage":          cov,
		"assumptions":       r.Prop.Assumptions,
		"wall_s":            wall,
		"violations":        len(r.Violations),
		"violations_listed": len(r.Violations) - fresh,
		"verdict":           verdict,
		"inconclusive":      r.Inconclusive,
	}
	js, _ := json.MarshalIndent(ev, "", " ")
	os.MkdirAll(filepath.Join(r.Root, "evidence"), 0o755)
	os.WriteFile(filepath.Join(r.Root, "evidence", r.Prop.ID+".json"), append(js, '\n'), 0o644)
}

func buildsOf(r *RunResult) []string {
	seen := map[string]bool{}
	var out []string
	for _, s := range r.Shards {
		if !seen[s.Build] {
			seen[s.Build] = true
			out = append(out, s.Build)
		}
	}
	return out
}

// Replay re-executes the case of a replay file against the current tree.
func Replay(path string) int {
	js, err := os.ReadFile(path)
	if err != nil {
		fmt.Println("cannot read replay file:", err)
		return 2
	}
	var rep struct {
		Property string `json:"property"`
		Class    string `json:"class"`
		KeyHex   string `json:"key_hex"`
		Procs    int    `json:"gomaxprocs"`
	}
	if err := json.Unmarshal(js, &rep); err != nil {
		fmt.Println("bad replay file:", err)
		return 2
	}
	p := Lookup(rep.Property)
	if p == nil {
		fmt.Println("unknown property", rep.Property)
		return 2
	}
	if p.SelfTest != nil {
		if err := p.SelfTest(); err != nil {
			fmt.Printf("INCONCLUSIVE property=%s reason=oracle self-test failed: %v\n", p.ID, err)
			return 2
		}
	}
	key, err := hex.DecodeString(rep.KeyHex)
	if err != nil {
		fmt.Println("bad key:", err)
		return 2
	}
	if rep.Class == "race-detector" {
		fmt.Println("race reports are replayed by re-running the check (schedule dependent)")
		return 2
	}
	if rep.Procs > 0 {
		runtime.GOMAXPROCS(rep.Procs) // the setting of the shard process that observed the violation
	}
	viol, vclass, herr := JudgeOnce(p, rep.Class, key)
	if herr != "" {
		fmt.Println("INCONCLUSIVE harness error:", herr)
		return 2
	}
	if viol != "" {
		fmt.Printf("VIOLATION property=%s replay=%s\n  class=%s/%s: %s\n", p.ID, path, rep.Class, vclass, viol)
		return 1
	}
	fmt.Printf("case holds on the current tree: property=%s class=%s\n", p.ID, rep.Class)
	return 0
}
