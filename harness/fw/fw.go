// Package fw is the small runtime-monitoring framework shared by all property
// checks: case emission with panic discipline, per-shard statistics, an
// mmap'd "case in flight" slot that survives process death, and the
// supervisor that runs shards as child processes and merges what they saw.
package fw

import (
	"encoding/binary"
	"encoding/hex"
	"fmt"
	"math/rand"
	"runtime"
	"runtime/debug"
	"sort"
	"strings"
	"sync"
	"sync/atomic"
	"time"
)

// Prop describes one property check.
type Prop struct {
	ID          string
	Rule        string   // how cases are generated and what makes one non-trivial
	Assumptions []string // trusted base
	// Builds lists the binaries the shards are run under: "default",
	// "purego", "race". Empty means {"default"}.
	Builds []string
	// Shards overrides the number of child processes per build (0 = 16).
	Shards int
	// Parallel > 1 judges the cases of a shard on that many goroutines at once. Only for
	// properties whose library functions are stateless / documented safe for concurrent use:
	// shared scratch state, caches or pools inside the library then show up as wrong verdicts.
	Parallel int
	// Scale386 is the divisor applied to random-class volumes in the 386 build (0 = 4).
	Scale386 int
	// SelfTest validates the oracle against published vectors. A failure
	// aborts the run as "broken oracle" (exit 2), never as a violation.
	SelfTest func() error
	// Gen emits the cases of one shard.
	Gen func(g *Gen)
	// Judge executes one case against the real code and the oracle.
	Judge func(class string, key []byte, o *Obs)
	// Render gives a readable form of a case for samples and replay files.
	Render func(class string, key []byte) interface{}
	// Required lists counters that must be non-zero over the whole run,
	// otherwise the run is inconclusive (the monitors observed nothing).
	Required []string
	// Post runs in the supervisor after all shards finished (cross-build
	// comparisons, offline checkers over merged logs).
	Post func(r *RunResult)
	// WatchdogQuick/Thorough: seconds a shard may take before it is dumped.
	WatchdogQuick, WatchdogThorough int
	// StallQuick/Thorough: seconds a single case may be in flight before the shard gives up on it, reports
	// it (INCONCLUSIVE: no finite run decides a hang) and is restarted behind it, so that a call that never
	// returns on one input does not hide violations on the inputs that follow. Default 150 / 900.
	StallQuick, StallThorough int
	// DeadlockIsViolation: the statement says that the calls return (pure functions of their inputs, no
	// context, no harness goroutine that a call could be waiting for). A case in flight for more than 20 s
	// whose goroutines inside the library are ALL blocked on synchronisation, unchanged over three goroutine
	// dumps one second apart while no other case is being judged, is then a violation ("deadlock") with the
	// dump as witness; any other stall stays INCONCLUSIVE.
	DeadlockIsViolation bool
	// ColdStart: Judge handles the class "coldstart" (empty key): the very first calls into the library made by
	// a fresh process, issued from several goroutines at the same instant (fw.Burst). Every child process —
	// the shards and the short-lived cold-start probes — judges it before anything else.
	ColdStart bool
	// ColdProbes: number of short-lived cold-start probe processes in the quick tier (default 16; ten times as
	// many in the thorough tier). Cheap for properties whose generator starts quickly.
	ColdProbes int
	// StallClass: shorter limits (seconds) for classes whose cases are known to take microseconds.
	StallClass map[string]int
	// RaceClasses: when the property lists the build "race", only cases of these classes are judged in that
	// build (the classes in which several goroutines are inside the library at once), and of those only every
	// RaceSample-th (0 = all). The race detector then watches the library's own shared state — lazily built
	// tables, caches, pools — during those executions. Empty: the race build judges everything (C13).
	RaceClasses []string
	RaceSample  int
	// OwnProcs: the property sets runtime.GOMAXPROCS itself (C13); otherwise every second shard process runs
	// with a GOMAXPROCS value from ProcsOf (1, 2, 3, 5, 7, 48, 64, 128), because library code may size its
	// work by runtime.GOMAXPROCS / NumCPU and a deployment may set any value.
	OwnProcs bool
}

// ProcsOf is the GOMAXPROCS setting of a shard process (0 = the default of the machine).
func ProcsOf(shard int) int {
	return [16]int{0, 1, 0, 2, 0, 3, 0, 48, 0, 5, 0, 128, 0, 7, 0, 64}[((shard%16)+16)%16]
}

var registry = map[string]*Prop{}

// Register adds a property to the registry.
func Register(p *Prop) { registry[p.ID] = p }

// Lookup returns the property with the given id.
func Lookup(id string) *Prop { return registry[id] }

// IDs lists the registered ids, sorted.
func IDs() []string {
	var ids []string
	for id := range registry {
		ids = append(ids, id)
	}
	sort.Strings(ids)
	return ids
}

// ---------------------------------------------------------------------------

// Obs is what Judge reports about one case.
type Obs struct {
	viol       string
	violClass  string
	nontrivial bool
	counts     []string
	adds       map[string]int64
	out        []byte
	harnessErr string
}

// Fail records a violation (the first one wins).
func (o *Obs) Fail(vclass, format string, args ...interface{}) {
	if o.viol == "" {
		o.viol = fmt.Sprintf(format, args...)
		o.violClass = vclass
	}
}

// Inconclusive records that the monitor could not decide this case (watchdog fired,
// precondition not met). It makes the run inconclusive, never a violation.
func (o *Obs) Inconclusive(format string, args ...interface{}) {
	if o.harnessErr == "" {
		o.harnessErr = "inconclusive: " + fmt.Sprintf(format, args...)
	}
}

// Failed reports whether a violation has been recorded.
func (o *Obs) Failed() bool { return o.viol != "" }

// Count increments a named counter of observations.
func (o *Obs) Count(name string) { o.counts = append(o.counts, name) }

// Add adds n to a named counter.
func (o *Obs) Add(name string, n int64) {
	if o.adds == nil {
		o.adds = map[string]int64{}
	}
	o.adds[name] += n
}

// Nontrivial marks the case as non-trivial by the property's rule.
func (o *Obs) Nontrivial() { o.nontrivial = true }

// Out folds output bytes into the shard digest used for cross-build comparison.
func (o *Obs) Out(b []byte) { o.out = append(o.out, b...) }

// Try runs a call into the library. A panic inside it is a violation of the
// property under test ("never panics"); it is recorded with its stack and
// Try returns false.
func (o *Obs) Try(what string, f func()) (ok bool) {
	defer func() {
		if r := recover(); r != nil {
			ok = false
			st := string(debug.Stack())
			o.Fail("panic", "panic in %s: %v\n%s", what, r, trimStack(st))
		}
	}()
	f()
	return true
}

// TryPanics runs f and returns the recovered value (nil if no panic) without
// recording anything; for calls whose panic is documented behaviour.
func TryPanics(f func()) (r interface{}) {
	defer func() { r = recover() }()
	f()
	return nil
}

func trimStack(s string) string {
	lines := strings.Split(s, "\n")
	if len(lines) > 40 {
		lines = lines[:40]
	}
	return strings.Join(lines, "\n")
}

// ---------------------------------------------------------------------------

// Gen is handed to a property's generator; it carries the shard's PRNG and
// receives the emitted cases.
type Gen struct {
	Tier    string
	Seed    int64
	Shard   int
	NShards int
	Build   string
	Rng     *rand.Rand

	prop *Prop
	st   *shardStats
	slot *slot
	work chan caseItem

	burstN   int // > 0: hold back this many first cases and judge them at the same instant
	burstBuf []caseItem
	gate     chan struct{} // closed when gateAt cases are queued (parallel mode)
	gateAt   int64
	gateOnce sync.Once
	pause    atomic.Bool // set by the stall monitor while it examines a long-running case: no new case is started
	emitted  int64       // index of the next case (generation order)
	limit    int64       // cold-start probes: stop generating after this many cases behind `from`
	from     int64       // cases with a smaller index are generated but not judged (restart behind a stalled case)
	raceSeen int64       // race build with RaceClasses: cases of the listed classes generated so far
}

type caseItem struct {
	class string
	key   []byte
	idx   int64
}

// Quick reports whether this is the quick tier.
func (g *Gen) Quick() bool { return g.Tier != "thorough" }

// Pick returns q in the quick tier and t in the thorough tier.
func (g *Gen) Pick(q, t int) int {
	if g.Quick() {
		return q
	}
	return t
}

// Share returns this shard's share of a total of n random cases. In the 386 build (32-bit target,
// run in addition to the native build) random classes are scaled to a quarter.
func (g *Gen) Share(n int) int {
	n = g.Scaled(n)
	s := n / g.NShards
	if g.Shard < n%g.NShards {
		s++
	}
	return s
}

// Scaled returns n, or a quarter of it in the 386 build (for repetition counts of enumerated loops).
func (g *Gen) Scaled(n int) int {
	if g.Build == "386" && n > 4 {
		d := 4
		if g.prop != nil && g.prop.Scale386 > 0 {
			d = g.prop.Scale386
		}
		return (n + d - 1) / d
	}
	return n
}

// ShareOf is Share(Pick(q, t)).
func (g *Gen) ShareOf(q, t int) int { return g.Share(g.Pick(q, t)) }

// Own reports whether the i-th element of an enumerated list belongs to this shard.
func (g *Gen) Own(i int) bool {
	if i < 0 {
		i = -i
	}
	return i%g.NShards == g.Shard
}

// Bytes returns n random bytes.
func (g *Gen) Bytes(n int) []byte {
	b := make([]byte, n)
	g.Rng.Read(b)
	return b
}

// Emit judges one case (or hands it to the judging goroutines in parallel mode).
func (g *Gen) Emit(class string, key []byte) {
	if g.Build == "race" && g.prop != nil && len(g.prop.RaceClasses) > 0 {
		keep := false
		for _, c := range g.prop.RaceClasses {
			keep = keep || c == class
		}
		if !keep {
			return
		}
		g.raceSeen++
		if n := int64(g.prop.RaceSample); n > 1 && g.raceSeen%n != 0 {
			return
		}
	}
	idx := g.emitted
	g.emitted++
	if idx < g.from {
		return
	}
	if g.burstN > 0 {
		// the first cases of the process are held back and then judged at the same instant (see flushBurst)
		g.burstBuf = append(g.burstBuf, caseItem{class, append([]byte(nil), key...), idx})
		if len(g.burstBuf) >= g.burstN {
			g.flushBurst()
		}
		if g.limit > 0 && idx-g.from+1 >= g.limit {
			g.flushBurst()
			panic(limitReached{})
		}
		return
	}
	for g.pause.Load() {
		time.Sleep(20 * time.Millisecond)
	}
	if g.work != nil {
		g.work <- caseItem{class, append([]byte(nil), key...), idx}
		if idx-g.from+1 >= g.gateAt {
			g.openGate()
		}
	} else {
		g.run(0, class, key, idx)
	}
	if g.limit > 0 && idx-g.from+1 >= g.limit {
		panic(limitReached{})
	}
}

// limitReached ends the generator of a cold-start probe.
type limitReached struct{}

func (g *Gen) run(worker int, class string, key []byte, idx int64) {
	g.slot.begin(worker, class, key, idx)
	o := g.judge(class, key)
	g.slot.end(worker)
	g.st.record(g.prop, class, key, o)
}

func (g *Gen) judge(class string, key []byte) (o *Obs) {
	o = &Obs{}
	defer func() {
		if r := recover(); r != nil {
			// a panic outside Obs.Try is a bug of the harness/oracle, not of the code under test
			o.harnessErr = fmt.Sprintf("harness panic judging class=%s key=%s: %v\n%s", class, hex.EncodeToString(key), r, trimStack(string(debug.Stack())))
		}
	}()
	g.prop.Judge(class, key, o)
	return o
}

// flushBurst judges the held-back first cases of the process on as many goroutines, released at the same
// instant by a spin barrier: the first calls into the library are concurrent ones.
func (g *Gen) flushBurst() {
	buf := g.burstBuf
	g.burstBuf, g.burstN = nil, 0
	if len(buf) == 0 {
		return
	}
	obs := make([]*Obs, len(buf))
	for i, it := range buf {
		g.slot.begin(i, it.class, it.key, it.idx)
	}
	Burst(len(buf), func(i int) { obs[i] = g.judge(buf[i].class, buf[i].key) })
	for i, it := range buf {
		g.slot.end(i)
		if obs[i] != nil {
			g.st.record(g.prop, it.class, it.key, obs[i])
		}
	}
}

func (g *Gen) openGate() {
	if g.gate != nil {
		g.gateOnce.Do(func() { close(g.gate) })
	}
}

// JudgeOnce judges a single case outside a run (replay).
func JudgeOnce(p *Prop, class string, key []byte) (viol, vclass, harnessErr string) {
	g := &Gen{prop: p}
	o := g.judge(class, key)
	return o.viol, o.violClass, o.harnessErr
}

// ---------------------------------------------------------------------------
// key packing

// Pack concatenates length-prefixed parts.
func Pack(parts ...[]byte) []byte {
	n := 0
	for _, p := range parts {
		n += 4 + len(p)
	}
	out := make([]byte, 0, n)
	var l [4]byte
	for _, p := range parts {
		binary.LittleEndian.PutUint32(l[:], uint32(len(p)))
		out = append(out, l[:]...)
		out = append(out, p...)
	}
	return out
}

// Unpack splits a packed key; it panics (harness error) on malformed keys.
func Unpack(key []byte) [][]byte {
	var parts [][]byte
	for len(key) > 0 {
		if len(key) < 4 {
			panic("fw.Unpack: truncated key")
		}
		l := int(binary.LittleEndian.Uint32(key))
		key = key[4:]
		if l > len(key) {
			panic("fw.Unpack: truncated key part")
		}
		parts = append(parts, key[:l:l])
		key = key[l:]
	}
	return parts
}

// U64 encodes v as 8 little-endian bytes.
func U64(v uint64) []byte {
	var b [8]byte
	binary.LittleEndian.PutUint64(b[:], v)
	return b[:]
}

// U32 encodes v as 4 little-endian bytes.
func U32(v uint32) []byte {
	var b [4]byte
	binary.LittleEndian.PutUint32(b[:], v)
	return b[:]
}

// GetU64 decodes 8 little-endian bytes.
func GetU64(b []byte) uint64 { return binary.LittleEndian.Uint64(b) }

// GetU32 decodes 4 little-endian bytes.
func GetU32(b []byte) uint32 { return binary.LittleEndian.Uint32(b) }

// Hex is hex.EncodeToString.
func Hex(b []byte) string { return hex.EncodeToString(b) }

// SubRng derives an independent PRNG from a seed and labels.
func SubRng(seed int64, labels ...string) *rand.Rand {
	h := uint64(14695981039346656037)
	mix := func(b byte) { h ^= uint64(b); h *= 1099511628211 }
	for i := 0; i < 8; i++ {
		mix(byte(seed >> (8 * i)))
	}
	for _, l := range labels {
		for i := 0; i < len(l); i++ {
			mix(l[i])
		}
		mix(0xff)
	}
	return rand.New(rand.NewSource(int64(h)))
}

// Burst runs f(0..n-1) on n goroutines that are released at the same instant by a spin barrier (no channel or
// scheduler hand-off between the release and the first instruction of f). A panic in f is returned.
func Burst(n int, f func(i int)) (panics []interface{}) {
	var ready, goFlag atomic.Int32
	var wg sync.WaitGroup
	panics = make([]interface{}, n)
	for i := 0; i < n; i++ {
		wg.Add(1)
		go func(i int) {
			defer wg.Done()
			defer func() { panics[i] = recover() }()
			runtime.LockOSThread()
			defer runtime.UnlockOSThread()
			ready.Add(1)
			for goFlag.Load() == 0 {
			}
			f(i)
		}(i)
	}
	for ready.Load() < int32(n) {
		runtime.Gosched()
	}
	time.Sleep(200 * time.Microsecond) // let every goroutine reach its spin loop on its own thread
	goFlag.Store(1)
	wg.Wait()
	any := false
	for _, p := range panics {
		any = any || p != nil
	}
	if !any {
		return nil
	}
	return panics
}
