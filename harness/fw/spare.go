package fw

// Spare returns a copy of b that has `extra` bytes of spare capacity behind its length, filled with a
// recognisable pattern: a caller's slice is often a window into a larger buffer, and a callee that appends
// to its argument (append(seed, pub...), append(data, nonce...)) then writes into memory it does not own
// and hands out a result that aliases the caller's buffer. SpareIntact checks the pattern afterwards.
func Spare(b []byte, extra int) []byte {
	buf := make([]byte, len(b)+extra)
	copy(buf, b)
	for i := len(b); i < len(buf); i++ {
		buf[i] = sparePattern(i - len(b))
	}
	return buf[:len(b):len(buf)]
}

func sparePattern(i int) byte { return byte(0xA5 ^ (i * 7)) }

// SpareIntact reports whether the bytes between len(b) and cap(b) still hold the pattern written by Spare.
func SpareIntact(b []byte) bool {
	full := b[:cap(b)]
	for i := len(b); i < len(full); i++ {
		if full[i] != sparePattern(i-len(b)) {
			return false
		}
	}
	return true
}

// Overlaps reports whether two slices share memory (over their full capacities).
func Overlaps(a, b []byte) bool {
	if cap(a) == 0 || cap(b) == 0 {
		return false
	}
	a, b = a[:cap(a)], b[:cap(b)]
	pa, pb := uintptrOf(a), uintptrOf(b)
	return pa < pb+uintptr(len(b)) && pb < pa+uintptr(len(a))
}

// SpareSet hands out Spare copies of a case's inputs and checks them all afterwards.
type SpareSet struct {
	what []string
	bufs [][]byte
}

// Of returns a copy of b with spare capacity behind it and remembers it under the given name.
func (s *SpareSet) Of(what string, b []byte, extra int) []byte {
	c := Spare(b, extra)
	s.what = append(s.what, what)
	s.bufs = append(s.bufs, c)
	return c
}

// Check fails the case (violation class "mutation") if the library wrote behind the end of one of the slices.
func (s *SpareSet) Check(o *Obs) bool {
	for i, b := range s.bufs {
		if !SpareIntact(b) {
			o.Fail("mutation", "the library wrote into the caller's memory behind the end of the %s slice it was given (the slice is a window into a larger buffer: %d bytes of spare capacity held a pattern, now %x)", s.what[i], cap(b)-len(b), b[len(b):cap(b)])
			return false
		}
	}
	return true
}

// NilIfEmpty returns nil instead of an empty slice when sel is odd: nil and empty inputs must be treated alike.
func NilIfEmpty(b []byte, sel byte) []byte {
	if len(b) == 0 && sel&1 == 1 {
		return nil
	}
	return b
}
