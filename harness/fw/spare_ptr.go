package fw

import "unsafe"

func uintptrOf(b []byte) uintptr { return uintptr(unsafe.Pointer(&b[0])) }
