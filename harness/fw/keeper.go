package fw

import (
	"bytes"
	"sync"
)

// Keeper remembers the last few byte slices a library call returned (by reference) together with a
// private copy. A returned slice that changes after it was handed out means the library aliases it with
// internal or later-returned storage ("the result of an earlier call was modified by a later call").
type Keeper struct {
	mu    sync.Mutex
	refs  [][]byte
	cps   [][]byte
	whats []string
	next  int
}

const keeperSize = 16

// Keep registers a returned slice.
func (k *Keeper) Keep(what string, b []byte) {
	if len(b) == 0 {
		return
	}
	k.mu.Lock()
	defer k.mu.Unlock()
	if len(k.refs) < keeperSize {
		k.refs = append(k.refs, b)
		k.cps = append(k.cps, append([]byte(nil), b...))
		k.whats = append(k.whats, what)
		return
	}
	i := k.next % keeperSize
	k.refs[i], k.cps[i], k.whats[i] = b, append([]byte(nil), b...), what
	k.next++
}

// Check reports the first remembered result that no longer equals its copy.
func (k *Keeper) Check(o *Obs) bool {
	k.mu.Lock()
	defer k.mu.Unlock()
	for i := range k.refs {
		if !bytes.Equal(k.refs[i], k.cps[i]) {
			o.Fail("aliasing", "a result returned earlier (%s) was modified by a later call: it was %x when returned and is %x now", k.whats[i], k.cps[i], k.refs[i])
			k.cps[i] = append([]byte(nil), k.refs[i]...)
			return false
		}
	}
	return true
}
