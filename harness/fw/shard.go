package fw

import (
	"crypto/sha256"
	"encoding/binary"
	"encoding/hex"
	"encoding/json"
	"fmt"
	"os"
	"path/filepath"
	"sync"
	"sync/atomic"
	"syscall"
	"time"
)

const (
	maxFingerprints  = 250000 // per shard; distinct_nontrivial is counted conservatively beyond this
	maxViolsPerClass = 5
	maxViols         = 40
	samplesPerClass  = 2
	slotSize         = 1 << 18 // per record; one record per judging goroutine
	maxWorkers       = 16
)

// Violation is one observed violation.
type Violation struct {
	Class   string      `json:"class"`
	VClass  string      `json:"violation_class"`
	KeyHex  string      `json:"key_hex"`
	Message string      `json:"message"`
	Input   interface{} `json:"input,omitempty"`
	Shard   int         `json:"shard"`
	Build   string      `json:"build"`
}

// Sample is a case written out for the evidence file.
type Sample struct {
	Class  string      `json:"class"`
	KeyHex string      `json:"key_hex,omitempty"`
	Input  interface{} `json:"input,omitempty"`
}

// ShardResult is what a child process reports.
type ShardResult struct {
	Prop          string           `json:"prop"`
	Build         string           `json:"build"`
	Shard         int              `json:"shard"`
	Evaluations   int64            `json:"evaluations"`
	Nontrivial    int64            `json:"nontrivial_emitted"`
	ByClass       map[string]int64 `json:"by_class"`
	Counters      map[string]int64 `json:"counters"`
	Samples       []Sample         `json:"samples"`
	Violations    []Violation      `json:"violations"`
	ViolTotal     int64            `json:"violations_total"`
	HarnessErrors []string         `json:"harness_errors"`
	OutDigest     string           `json:"out_digest"`
	FpCapped      bool             `json:"fp_capped"`
	WallS         float64          `json:"wall_s"`
	Completed     bool             `json:"completed"`
}

type shardStats struct {
	mu         sync.Mutex
	res        ShardResult
	fps        map[uint64]struct{}
	violsClass map[string]int
	sampClass  map[string]int
	digest     [32]byte
}

func newShardStats(prop, build string, shard int) *shardStats {
	return &shardStats{
		res: ShardResult{Prop: prop, Build: build, Shard: shard,
			ByClass: map[string]int64{}, Counters: map[string]int64{}},
		fps:        map[uint64]struct{}{},
		violsClass: map[string]int{},
		sampClass:  map[string]int{},
	}
}

func fingerprint(class string, key []byte) uint64 {
	h := uint64(14695981039346656037)
	for i := 0; i < len(class); i++ {
		h ^= uint64(class[i])
		h *= 1099511628211
	}
	h ^= 0xff
	h *= 1099511628211
	for _, b := range key {
		h ^= uint64(b)
		h *= 1099511628211
	}
	return h
}

func render(p *Prop, class string, key []byte) interface{} {
	if p.Render == nil {
		return nil
	}
	var v interface{}
	func() {
		defer func() {
			if r := recover(); r != nil {
				v = fmt.Sprintf("(render failed: %v)", r)
			}
		}()
		v = p.Render(class, key)
	}()
	return v
}

func (s *shardStats) record(p *Prop, class string, key []byte, o *Obs) {
	s.mu.Lock()
	defer s.mu.Unlock()
	r := &s.res
	r.Evaluations++
	r.ByClass[class]++
	for _, c := range o.counts {
		r.Counters[c]++
	}
	for c, n := range o.adds {
		r.Counters[c] += n
	}
	if o.harnessErr != "" {
		if len(r.HarnessErrors) < 5 {
			r.HarnessErrors = append(r.HarnessErrors, o.harnessErr)
		}
		return
	}
	if o.nontrivial {
		r.Nontrivial++
		if len(s.fps) < maxFingerprints {
			s.fps[fingerprint(class, key)] = struct{}{}
		} else {
			r.FpCapped = true
		}
	}
	if len(o.out) > 0 {
		// order-independent: xor of per-case digests (cases may be judged on several goroutines)
		h := sha256.New()
		h.Write([]byte(class))
		h.Write(key)
		h.Write(o.out)
		for i, b := range h.Sum(nil) {
			s.digest[i] ^= b
		}
	}
	if s.sampClass[class] < samplesPerClass {
		s.sampClass[class]++
		smp := Sample{Class: class, Input: render(p, class, key)}
		if smp.Input == nil || len(key) <= 96 {
			smp.KeyHex = hex.EncodeToString(key)
		}
		r.Samples = append(r.Samples, smp)
	}
	if o.viol != "" {
		r.ViolTotal++
		vk := class + "/" + o.violClass
		if s.violsClass[vk] < maxViolsPerClass && len(r.Violations) < maxViols {
			s.violsClass[vk]++
			r.Violations = append(r.Violations, Violation{Class: class, VClass: o.violClass,
				KeyHex: hex.EncodeToString(key), Message: o.viol, Input: render(p, class, key),
				Shard: r.Shard, Build: r.Build})
		}
	}
}

// ---------------------------------------------------------------------------
// slot: the case in flight, in a MAP_SHARED file so that it survives the
// death of the process (worker-goroutine panic, fatal runtime error, kill).

type slot struct {
	seq atomic.Uint64 // first field and an atomic type: 64-bit aligned on 32-bit targets too
	mem []byte
}

func openSlot(path string) (*slot, error) {
	f, err := os.OpenFile(path, os.O_RDWR|os.O_CREATE|os.O_TRUNC, 0o644)
	if err != nil {
		return nil, err
	}
	defer f.Close()
	if err := f.Truncate(slotSize * maxWorkers); err != nil {
		return nil, err
	}
	mem, err := syscall.Mmap(int(f.Fd()), 0, slotSize*maxWorkers, syscall.PROT_READ|syscall.PROT_WRITE, syscall.MAP_SHARED)
	if err != nil {
		return nil, err
	}
	return &slot{mem: mem}, nil
}

func (s *slot) begin(worker int, class string, key []byte) {
	if s == nil {
		return
	}
	m := s.mem[worker*slotSize : (worker+1)*slotSize]
	binary.LittleEndian.PutUint64(m[0:], s.seq.Add(1))
	if 24+len(class)+len(key) > len(m) {
		key = key[:len(m)-24-len(class)]
	}
	binary.LittleEndian.PutUint32(m[12:], uint32(len(class)))
	binary.LittleEndian.PutUint32(m[16:], uint32(len(key)))
	copy(m[20:], class)
	copy(m[20+len(class):], key)
	binary.LittleEndian.PutUint32(m[8:], 1) // in flight
}

func (s *slot) end(worker int) {
	if s == nil {
		return
	}
	binary.LittleEndian.PutUint32(s.mem[worker*slotSize+8:], 0)
}

type inflightCase struct {
	seq   uint64
	class string
	key   []byte
}

// readSlot returns the cases that were in flight when the process stopped (one per judging goroutine at most).
func readSlot(path string) []inflightCase {
	all, err := os.ReadFile(path)
	if err != nil {
		return nil
	}
	var out []inflightCase
	for w := 0; (w+1)*slotSize <= len(all); w++ {
		m := all[w*slotSize : (w+1)*slotSize]
		if binary.LittleEndian.Uint32(m[8:]) != 1 {
			continue
		}
		cl := int(binary.LittleEndian.Uint32(m[12:]))
		kl := int(binary.LittleEndian.Uint32(m[16:]))
		if 20+cl+kl > len(m) {
			continue
		}
		out = append(out, inflightCase{binary.LittleEndian.Uint64(m[0:]), string(m[20 : 20+cl]), append([]byte(nil), m[20+cl:20+cl+kl]...)})
	}
	return out
}

// ---------------------------------------------------------------------------

// RunChild is the body of a child process: it generates and judges the cases
// of one shard and writes the result files into dir.
func RunChild(p *Prop, tier string, seed int64, shard, nshards int, build, dir string) error {
	base := filepath.Join(dir, fmt.Sprintf("%s-%d", build, shard))
	sl, err := openSlot(base + ".slot")
	if err != nil {
		return err
	}
	st := newShardStats(p.ID, build, shard)
	g := &Gen{Tier: tier, Seed: seed, Shard: shard, NShards: nshards, Build: build,
		Rng: SubRng(seed, p.ID, fmt.Sprint(shard)), prop: p, st: st, slot: sl}
	t0 := time.Now()
	var wg sync.WaitGroup
	if n := p.Parallel; n > 1 {
		if n > maxWorkers {
			n = maxWorkers
		}
		g.work = make(chan caseItem, 4*n)
		for w := 0; w < n; w++ {
			wg.Add(1)
			go func(w int) {
				defer wg.Done()
				for it := range g.work {
					g.run(w, it.class, it.key)
				}
			}(w)
		}
	}
	p.Gen(g)
	if g.work != nil {
		close(g.work)
		wg.Wait()
	}
	st.res.WallS = time.Since(t0).Seconds()
	st.res.Completed = true
	st.res.OutDigest = hex.EncodeToString(st.digest[:])
	// fingerprints
	fb := make([]byte, 0, 8*len(st.fps))
	var b [8]byte
	for fp := range st.fps {
		binary.LittleEndian.PutUint64(b[:], fp)
		fb = append(fb, b[:]...)
	}
	if err := os.WriteFile(base+".fp", fb, 0o644); err != nil {
		return err
	}
	js, err := json.Marshal(&st.res)
	if err != nil {
		return err
	}
	return os.WriteFile(base+".json", js, 0o644)
}
