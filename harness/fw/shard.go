package fw

import (
	"crypto/sha256"
	"encoding/binary"
	"encoding/hex"
	"encoding/json"
	"fmt"
	"os"
	"path/filepath"
	"runtime"
	"strings"
	"sync"
	"sync/atomic"
	"syscall"
	"time"
)

const (
	maxFingerprints  = 250000 // per shard; distinct_nontrivial is counted conservatively beyond this
	maxViolsPerClass = 5
	maxViols         = 40
	samplesPerClass  = 2
	slotSize         = 1 << 18 // per record; one record per judging goroutine
	maxWorkers       = 16
)

// Violation is one observed violation.
type Violation struct {
	Class   string      `json:"class"`
	VClass  string      `json:"violation_class"`
	KeyHex  string      `json:"key_hex"`
	Message string      `json:"message"`
	Input   interface{} `json:"input,omitempty"`
	Shard   int         `json:"shard"`
	Build   string      `json:"build"`
}

// Sample is a case written out for the evidence file.
type Sample struct {
	Class  string      `json:"class"`
	KeyHex string      `json:"key_hex,omitempty"`
	Input  interface{} `json:"input,omitempty"`
}

// ShardResult is what a child process reports.
type ShardResult struct {
	Prop          string           `json:"prop"`
	Build         string           `json:"build"`
	Shard         int              `json:"shard"`
	Evaluations   int64            `json:"evaluations"`
	Nontrivial    int64            `json:"nontrivial_emitted"`
	ByClass       map[string]int64 `json:"by_class"`
	Counters      map[string]int64 `json:"counters"`
	Samples       []Sample         `json:"samples"`
	Violations    []Violation      `json:"violations"`
	ViolTotal     int64            `json:"violations_total"`
	HarnessErrors []string         `json:"harness_errors"`
	OutDigest     string           `json:"out_digest"`
	FpCapped      bool             `json:"fp_capped"`
	WallS         float64          `json:"wall_s"`
	Completed     bool             `json:"completed"`
	// Stalled: the shard gave up on this case (partial result; the supervisor restarts the shard behind it)
	Stalled *StalledCase `json:"stalled,omitempty"`
}

// StalledCase is a case that was in flight for longer than the stall limit.
type StalledCase struct {
	Class   string  `json:"class"`
	KeyHex  string  `json:"key_hex"`
	Index   int64   `json:"index"`
	Seconds float64 `json:"seconds"`
	Stack   string  `json:"stack,omitempty"`
	// Deadlock: the stall was classified as a deadlock inside the library and recorded as a violation
	Deadlock bool `json:"deadlock,omitempty"`
}

type shardStats struct {
	mu         sync.Mutex
	res        ShardResult
	fps        map[uint64]struct{}
	violsClass map[string]int
	sampClass  map[string]int
	digest     [32]byte
}

func newShardStats(prop, build string, shard int) *shardStats {
	return &shardStats{
		res: ShardResult{Prop: prop, Build: build, Shard: shard,
			ByClass: map[string]int64{}, Counters: map[string]int64{}},
		fps:        map[uint64]struct{}{},
		violsClass: map[string]int{},
		sampClass:  map[string]int{},
	}
}

func fingerprint(class string, key []byte) uint64 {
	h := uint64(14695981039346656037)
	for i := 0; i < len(class); i++ {
		h ^= uint64(class[i])
		h *= 1099511628211
	}
	h ^= 0xff
	h *= 1099511628211
	for _, b := range key {
		h ^= uint64(b)
		h *= 1099511628211
	}
	return h
}

func render(p *Prop, class string, key []byte) interface{} {
	if p.Render == nil {
		return nil
	}
	var v interface{}
	func() {
		defer func() {
			if r := recover(); r != nil {
				v = fmt.Sprintf("(render failed: %v)", r)
			}
		}()
		v = p.Render(class, key)
	}()
	return v
}

func (s *shardStats) record(p *Prop, class string, key []byte, o *Obs) {
	s.mu.Lock()
	defer s.mu.Unlock()
	r := &s.res
	r.Evaluations++
	r.ByClass[class]++
	for _, c := range o.counts {
		r.Counters[c]++
	}
	for c, n := range o.adds {
		r.Counters[c] += n
	}
	if o.harnessErr != "" {
		if len(r.HarnessErrors) < 5 {
			r.HarnessErrors = append(r.HarnessErrors, o.harnessErr)
		}
		return
	}
	if o.nontrivial {
		r.Nontrivial++
		if len(s.fps) < maxFingerprints {
			s.fps[fingerprint(class, key)] = struct{}{}
		} else {
			r.FpCapped = true
		}
	}
	if len(o.out) > 0 {
		// order-independent: xor of per-case digests (cases may be judged on several goroutines)
		h := sha256.New()
		h.Write([]byte(class))
		h.Write(key)
		h.Write(o.out)
		for i, b := range h.Sum(nil) {
			s.digest[i] ^= b
		}
	}
	if s.sampClass[class] < samplesPerClass {
		s.sampClass[class]++
		smp := Sample{Class: class, Input: render(p, class, key)}
		if smp.Input == nil || len(key) <= 96 {
			smp.KeyHex = hex.EncodeToString(key)
		}
		r.Samples = append(r.Samples, smp)
	}
	if o.viol != "" {
		r.ViolTotal++
		vk := class + "/" + o.violClass
		if s.violsClass[vk] < maxViolsPerClass && len(r.Violations) < maxViols {
			s.violsClass[vk]++
			r.Violations = append(r.Violations, Violation{Class: class, VClass: o.violClass,
				KeyHex: hex.EncodeToString(key), Message: o.viol, Input: render(p, class, key),
				Shard: r.Shard, Build: r.Build})
		}
	}
}

// ---------------------------------------------------------------------------
// slot: the case in flight, in a MAP_SHARED file so that it survives the
// death of the process (worker-goroutine panic, fatal runtime error, kill).

type slot struct {
	seq     atomic.Uint64            // first field and an atomic type: 64-bit aligned on 32-bit targets too
	started [maxWorkers]atomic.Int64 // unix nanoseconds at which the worker's current case began (0: idle)
	index   [maxWorkers]atomic.Int64
	mem     []byte
}

func openSlot(path string) (*slot, error) {
	f, err := os.OpenFile(path, os.O_RDWR|os.O_CREATE|os.O_TRUNC, 0o644)
	if err != nil {
		return nil, err
	}
	defer f.Close()
	if err := f.Truncate(slotSize * maxWorkers); err != nil {
		return nil, err
	}
	mem, err := syscall.Mmap(int(f.Fd()), 0, slotSize*maxWorkers, syscall.PROT_READ|syscall.PROT_WRITE, syscall.MAP_SHARED)
	if err != nil {
		return nil, err
	}
	return &slot{mem: mem}, nil
}

func (s *slot) begin(worker int, class string, key []byte, idx int64) {
	if s == nil {
		return
	}
	s.index[worker].Store(idx)
	s.started[worker].Store(time.Now().UnixNano())
	m := s.mem[worker*slotSize : (worker+1)*slotSize]
	binary.LittleEndian.PutUint64(m[0:], s.seq.Add(1))
	if 24+len(class)+len(key) > len(m) {
		key = key[:len(m)-24-len(class)]
	}
	binary.LittleEndian.PutUint32(m[12:], uint32(len(class)))
	binary.LittleEndian.PutUint32(m[16:], uint32(len(key)))
	copy(m[20:], class)
	copy(m[20+len(class):], key)
	binary.LittleEndian.PutUint32(m[8:], 1) // in flight
}

func (s *slot) end(worker int) {
	if s == nil {
		return
	}
	s.started[worker].Store(0)
	binary.LittleEndian.PutUint32(s.mem[worker*slotSize+8:], 0)
}

type inflightCase struct {
	seq   uint64
	class string
	key   []byte
}

// readSlot returns the cases that were in flight when the process stopped (one per judging goroutine at most).
func readSlot(path string) []inflightCase {
	all, err := os.ReadFile(path)
	if err != nil {
		return nil
	}
	var out []inflightCase
	for w := 0; (w+1)*slotSize <= len(all); w++ {
		m := all[w*slotSize : (w+1)*slotSize]
		if binary.LittleEndian.Uint32(m[8:]) != 1 {
			continue
		}
		cl := int(binary.LittleEndian.Uint32(m[12:]))
		kl := int(binary.LittleEndian.Uint32(m[16:]))
		if 20+cl+kl > len(m) {
			continue
		}
		out = append(out, inflightCase{binary.LittleEndian.Uint64(m[0:]), string(m[20 : 20+cl]), append([]byte(nil), m[20+cl:20+cl+kl]...)})
	}
	return out
}

// ---------------------------------------------------------------------------

// RunChild is the body of a child process: it generates and judges the cases
// of one shard and writes the result files into dir.
func RunChild(p *Prop, tier string, seed int64, shard, nshards int, build, dir string) error {
	base := filepath.Join(dir, fmt.Sprintf("%s-%d", build, shard))
	if a := envInt("VERIF_ATTEMPT", 0); a > 0 {
		base += fmt.Sprintf("-r%d", a)
	}
	sl, err := openSlot(base + ".slot")
	if err != nil {
		return err
	}
	st := newShardStats(p.ID, build, shard)
	g := &Gen{Tier: tier, Seed: seed, Shard: shard, NShards: nshards, Build: build,
		Rng: SubRng(seed, p.ID, fmt.Sprint(shard)), prop: p, st: st, slot: sl, from: envInt("VERIF_FROM", 0)}
	t0 := time.Now()
	if n := ProcsOf(shard); n > 0 && !p.OwnProcs {
		runtime.GOMAXPROCS(n)
		st.res.Counters[fmt.Sprintf("shard processes run with GOMAXPROCS=%d", n)]++
	}
	go stallMonitor(p, g, tier, sl, st, base, t0)
	if shard%4 == 3 {
		// GC timing as a workload dimension: every fourth shard collects garbage every 20 ms, so that pools are
		// emptied, finalizers run and weak caches are dropped in the middle of call sequences
		go func() {
			for {
				time.Sleep(20 * time.Millisecond)
				runtime.GC()
			}
		}()
	}
	var wg sync.WaitGroup
	if n := p.Parallel; n > 1 {
		if n > maxWorkers {
			n = maxWorkers
		}
		g.work = make(chan caseItem, 4*n)
		// start gate: the judging goroutines are released together once the first cases are queued, so that
		// the first calls into the library made by this process happen at the same time on several goroutines
		// (lazily initialised tables and "once" constructions are raced at their only vulnerable moment)
		g.gate = make(chan struct{})
		g.gateAt = int64(n)
		for w := 0; w < n; w++ {
			wg.Add(1)
			go func(w int) {
				defer wg.Done()
				<-g.gate
				for it := range g.work {
					for g.pause.Load() {
						time.Sleep(20 * time.Millisecond)
					}
					g.run(w, it.class, it.key, it.idx)
				}
			}(w)
		}
	}
	if p.ColdStart {
		// before anything else: the first calls of this process, from several goroutines at once
		g.run(0, "coldstart", nil, -1)
	}
	g.limit = envInt("VERIF_LIMIT", 0)
	if p.Parallel > 1 {
		g.burstN = 8
	}
	func() {
		defer func() {
			if r := recover(); r != nil {
				if _, ok := r.(limitReached); !ok {
					panic(r)
				}
			}
		}()
		p.Gen(g)
	}()
	g.flushBurst()
	g.openGate()
	if g.work != nil {
		close(g.work)
		wg.Wait()
	}
	st.res.WallS = time.Since(t0).Seconds()
	st.res.Completed = true
	st.res.OutDigest = hex.EncodeToString(st.digest[:])
	// fingerprints
	fb := make([]byte, 0, 8*len(st.fps))
	var b [8]byte
	for fp := range st.fps {
		binary.LittleEndian.PutUint64(b[:], fp)
		fb = append(fb, b[:]...)
	}
	if err := os.WriteFile(base+".fp", fb, 0o644); err != nil {
		return err
	}
	js, err := json.Marshal(&st.res)
	if err != nil {
		return err
	}
	return os.WriteFile(base+".json", js, 0o644)
}

// stallMonitor gives up on a case that has been in flight for longer than the stall limit: it writes the
// partial result of the shard (with the stalled case) and ends the process with exit status 4. The
// supervisor reports the case as INCONCLUSIVE and restarts the shard behind it. The limit is a generous
// wall-clock bound and never the source of a violation verdict.
func stallMonitor(p *Prop, g *Gen, tier string, sl *slot, st *shardStats, base string, t0 time.Time) {
	limit := p.StallQuick
	if tier == "thorough" {
		limit = p.StallThorough
	}
	if limit == 0 {
		limit = 150
		if tier == "thorough" {
			limit = 900
		}
	}
	if v := envInt("VERIF_STALL", 0); v > 0 {
		limit = int(v)
	}
	minLimit := limit
	for _, c := range p.StallClass {
		if c < minLimit {
			minLimit = c
		}
	}
	if p.DeadlockIsViolation && deadlockAfter < minLimit {
		minLimit = deadlockAfter
	}
	for {
		time.Sleep(500 * time.Millisecond)
		now := time.Now().UnixNano()
		for w := 0; w < maxWorkers; w++ {
			t := sl.started[w].Load()
			if t == 0 || now-t < int64(minLimit)*int64(time.Second) {
				continue
			}
			idx := sl.index[w].Load()
			var class string
			var key []byte
			for _, c := range readSlotMem(sl.mem[w*slotSize : (w+1)*slotSize]) {
				class, key = c.class, c.key
			}
			if sl.started[w].Load() != t {
				continue
			}
			lim := limit
			if c, ok := p.StallClass[class]; ok && envInt("VERIF_STALL", 0) == 0 {
				lim = c
			}
			deadlock := ""
			if p.DeadlockIsViolation && now-t >= int64(deadlockAfter)*int64(time.Second) && now-t < int64(lim)*int64(time.Second) {
				// examine the long-running case: start no new case, wait for the other judging goroutines
				// to finish theirs, then look at the goroutines inside the library
				g.pause.Store(true)
				deadlock = examineDeadlock(sl, w, t)
				g.pause.Store(false)
				if deadlock == "" {
					continue
				}
			} else if now-t < int64(lim)*int64(time.Second) {
				continue
			}
			buf := make([]byte, 1<<20)
			buf = buf[:runtime.Stack(buf, true)]
			st.mu.Lock() // held until the process ends: no further case is recorded
			st.res.WallS = time.Since(t0).Seconds()
			st.res.OutDigest = hex.EncodeToString(st.digest[:])
			st.res.Stalled = &StalledCase{Class: class, KeyHex: hex.EncodeToString(key), Index: idx,
				Seconds: float64(time.Now().UnixNano()-t) / 1e9, Stack: trimStack(string(buf)), Deadlock: deadlock != ""}
			if deadlock != "" {
				st.res.ViolTotal++
				st.res.Violations = append(st.res.Violations, Violation{Class: class, VClass: "deadlock", KeyHex: hex.EncodeToString(key),
					Message: fmt.Sprintf("the call has not returned after %d s and cannot return: every goroutine that is inside the library is blocked on synchronisation, unchanged over three goroutine dumps one second apart while nothing else was running:\n%s", (time.Now().UnixNano()-t)/1e9, deadlock),
					Input:   render(p, class, key), Shard: st.res.Shard, Build: st.res.Build})
			}
			fb := make([]byte, 0, 8*len(st.fps))
			var b [8]byte
			for fp := range st.fps {
				binary.LittleEndian.PutUint64(b[:], fp)
				fb = append(fb, b[:]...)
			}
			os.WriteFile(base+".fp", fb, 0o644)
			js, _ := json.Marshal(&st.res)
			os.WriteFile(base+".json", js, 0o644)
			fmt.Fprintf(os.Stderr, "STALLED case %d class=%s after %d s\n%s\n", idx, class, lim, buf)
			os.Exit(4)
		}
	}
}

func readSlotMem(m []byte) []inflightCase {
	if binary.LittleEndian.Uint32(m[8:]) != 1 {
		return nil
	}
	cl := int(binary.LittleEndian.Uint32(m[12:]))
	kl := int(binary.LittleEndian.Uint32(m[16:]))
	if 20+cl+kl > len(m) {
		return nil
	}
	return []inflightCase{{binary.LittleEndian.Uint64(m[0:]), string(m[20 : 20+cl]), append([]byte(nil), m[20+cl:20+cl+kl]...)}}
}

// Fingerprint is the 64-bit fingerprint of a case (for selectors that must be a function of the case).
func Fingerprint(class string, key []byte) uint64 { return fingerprint(class, key) }

// deadlockAfter is the age (seconds) of a case from which the deadlock examination runs.
const deadlockAfter = 20

const libraryPath = "github.com/wollac/iota-crypto-demo/"

var blockedStates = []string{"semacquire", "sync.Mutex.Lock", "sync.RWMutex.Lock", "sync.RWMutex.RLock", "chan receive", "chan send",
	"select", "sync.WaitGroup.Wait", "sync.Cond.Wait"}

// examineDeadlock returns a description (the blocked goroutines) if the case of worker w that began at t is
// deadlocked inside the library, "" otherwise (case finished, something inside the library can still run, or
// the picture changes).
func examineDeadlock(sl *slot, w int, t int64) string {
	// quiescence: every other worker idle (they finish their cases; new ones are not started)
	for wait := 0; ; wait++ {
		busy := false
		now := time.Now().UnixNano()
		for o := 0; o < maxWorkers; o++ {
			// another worker whose case is just as old is examined together with this one
			if so := sl.started[o].Load(); o != w && so != 0 && now-so < int64(deadlockAfter)*int64(time.Second) {
				busy = true
			}
		}
		if !busy {
			break
		}
		if wait > 600 || sl.started[w].Load() != t { // another case runs for more than 60 s: not examinable now
			return ""
		}
		time.Sleep(100 * time.Millisecond)
	}
	prev := ""
	for k := 0; k < 3; k++ {
		if k > 0 {
			time.Sleep(time.Second)
		}
		if sl.started[w].Load() != t {
			return ""
		}
		buf := make([]byte, 1<<22)
		buf = buf[:runtime.Stack(buf, true)]
		var sig []string
		for _, gr := range strings.Split(string(buf), "\n\n") {
			if !strings.Contains(gr, libraryPath) {
				continue
			}
			head := gr
			if i := strings.IndexByte(gr, '\n'); i >= 0 {
				head = gr[:i]
			}
			state := ""
			if a, b := strings.IndexByte(head, '['), strings.IndexByte(head, ']'); a >= 0 && b > a {
				state = head[a+1 : b]
			}
			if i := strings.IndexByte(state, ','); i >= 0 {
				state = state[:i] // drop "N minutes"
			}
			blocked := false
			for _, bs := range blockedStates {
				if state == bs || strings.HasPrefix(state, bs+" ") {
					blocked = true
				}
			}
			if !blocked {
				return "" // something inside the library is running, runnable, sleeping or in a system call
			}
			// the goroutine number and the frames, without the "[state, N minutes]" part
			sig = append(sig, strings.SplitN(head, " [", 2)[0]+" ["+state+"]"+gr[len(head):])
		}
		if len(sig) == 0 {
			return "" // nothing is inside the library: the harness itself is waiting
		}
		cur := strings.Join(sig, "\n\n")
		if k > 0 && stripAddrs(cur) != stripAddrs(prev) {
			return ""
		}
		prev = cur
	}
	return trimStack(prev)
}

// stripAddrs removes the argument values and pc offsets of a goroutine dump (they do not change for a blocked
// goroutine, but the comparison should not depend on how the runtime prints them).
func stripAddrs(s string) string {
	var sb strings.Builder
	for _, ln := range strings.Split(s, "\n") {
		if i := strings.Index(ln, "("); i >= 0 && !strings.HasPrefix(ln, "\t") {
			ln = ln[:i]
		}
		if i := strings.Index(ln, " +0x"); i >= 0 {
			ln = ln[:i]
		}
		sb.WriteString(ln)
		sb.WriteByte('\n')
	}
	return sb.String()
}
