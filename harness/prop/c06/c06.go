// Package c06 is a history monitor for the batched Curl: every operation of a
// seeded history on one or more *curl.Curl instances is mirrored on independent
// single-lane Curl-P-81 sponges and every output is compared lane by lane.
package c06

import (
	"errors"
	"fmt"
	"math/rand"
	"sync"

	"github.com/iotaledger/iota.go/consts"
	"github.com/iotaledger/iota.go/trinary"
	"github.com/wollac/iota-crypto-demo/pkg/curl"

	"verif/harness/fw"
	"verif/harness/oracle/curlp"
)

func init() {
	fw.Register(&fw.Prop{
		ID:                  "C06",
		DeadlockIsViolation: true, // the calls of this property are synchronous functions of their inputs: a call blocked for good inside the library is a violation
		Parallel:            4,    // cases are judged on 4 goroutines per shard: the library functions are stateless, shared state inside them shows up as wrong verdicts
		Rule: "seeded histories of 3..14 operations on up to three instances (Absorb of 1..6 blocks split over several calls, Squeeze of 1..4 blocks (one call in fifty: 250..269 blocks, so that an instance delivers more than 255 and 256 blocks in total) in several calls with 1..64 destination lanes, Absorb of a batch with one lane shorter than announced (a panic is not judged, an error must leave the state untouched, then Reset), Clone at any point with the two copies continued differently, Reset followed by new absorbs, zero-length Absorb and Squeeze pieces (no effect in the model whether refused or accepted; no Absorb follows an empty Squeeze), rejected calls with batch 0/65 or a length that is no multiple of 243) with batch sizes 1..64 (emphasis 1, 2, 63, 64) and trit contents random / all 0 / all 1 / all -1 / lanes identical but one trit / one hot lane; in three absorbs out of eight the input slices are related: a run of consecutive lanes holding the very same slice, all lanes adjacent windows of one buffer, or overlapping windows shifted by one trit; every squeezed lane is compared with a single-lane model sponge fed that lane's input alone; rejected calls must return the documented error and leave CopyState unchanged; Reset must give the CopyState of a fresh instance; a clone's state equals the original's and later operations on one do not change the other; the closing squeezes of all instances of a history (originals and clones) run concurrently in separate goroutines; in half of the histories the caller's dst slice is reused from call to call (a quarter pre-filled with one shared placeholder slice) and every output handed out earlier must be unchanged at the end. Run under the default (assembly) and the purego build; the output digests of the two builds must be equal. " +
			"Non-trivial: distinct histories with batch size < 64, or >= 2 absorb calls, or >= 2 squeeze calls, or a clone/reset.",
		Assumptions: []string{"the single-lane Curl-P-81 model in harness/oracle/curlp (self-tested on published Curl-P-81 hashes incl. multi-block absorb and squeeze)", "absorb-after-squeeze (documented panic) and lanes beyond the absorbed batch are outside the statement and not judged"},
		Builds:      []string{"default", "default+cpuoff", "purego", "386"}, // +cpuoff: the default binary with GODEBUG=cpu.all=off (fallback paths of run-time CPU dispatch)
		SelfTest:    curlp.SelfTest,
		Gen:         gen,
		Judge:       judge,
		Render: func(class string, key []byte) interface{} {
			h := describe(fw.GetU64(key))
			return map[string]interface{}{"history_seed": fw.GetU64(key), "operations": h}
		},
		Required: []string{"histories reusing the caller's dst slice", "histories whose instances were squeezed concurrently", "lanes compared", "absorb calls", "squeeze calls", "clones", "resets", "rejected calls checked", "partial batch histories", "zero-length absorb/squeeze calls"},
		Post: func(r *fw.RunResult) {
			d, p := r.BuildDigests["default"], r.BuildDigests["purego"]
			if c := r.BuildDigests["default+cpuoff"]; c != d {
				p = c
			}
			r.Extra["build_digests_equal"] = d == p && d != ""
			if d != p && r.ViolTotal == 0 && !r.Incomplete {
				r.AddViolation(fw.Violation{Class: "cross-build", VClass: "digest", KeyHex: "",
					Message: fmt.Sprintf("squeezed outputs differ between the default (assembly) build and the purego build or the default build run with GODEBUG=cpu.all=off: per-shard digests %s vs %s", d, p)})
			}
		},
	})
}

type opT = op

type op struct {
	final  bool   // closing squeeze: the closing squeezes of all instances run concurrently
	kind   string // absorb, squeeze, clone, reset, bad-absorb, bad-squeeze
	inst   int
	blocks int
	lanes  int
	style  int
	bad    int
}

type history struct {
	batch int
	ops   []op
	seed  uint64
}

// maxBatch is the number of lanes: 64 on 64-bit targets, 32 in the 386 build.
const maxBatch = curl.MaxBatchSize

func pickBatch(r *rand.Rand) int {
	switch r.Intn(8) {
	case 0:
		return 1
	case 1:
		return 2
	case 2:
		return maxBatch - 1
	case 3, 4:
		return maxBatch
	default:
		return 1 + r.Intn(maxBatch)
	}
}

// build derives the whole history from the seed.
func build(seed uint64) *history {
	r := fw.SubRng(int64(seed), "c06-history")
	h := &history{batch: pickBatch(r), seed: seed}
	n := 3 + r.Intn(12)
	ninst := 1
	squeezing := []bool{false}
	absorbed := []bool{false}
	for len(h.ops) < n {
		i := r.Intn(ninst)
		switch k := r.Intn(12); {
		case k < 4 && !squeezing[i]:
			h.ops = append(h.ops, op{kind: "absorb", inst: i, blocks: 1 + r.Intn(3), style: r.Intn(8)})
			absorbed[i] = true
		case k < 7:
			lanes := h.batch
			if r.Intn(3) == 0 {
				lanes = 1 + r.Intn(maxBatch)
			}
			blocks := 1 + r.Intn(3)
			if r.Intn(50) == 0 {
				blocks = 250 + r.Intn(20) // more than 255 blocks squeezed from one instance (block counters narrower than int)
			}
			h.ops = append(h.ops, op{kind: "squeeze", inst: i, blocks: blocks, lanes: lanes})
			squeezing[i] = true
		case k == 7 && ninst < 3:
			h.ops = append(h.ops, op{kind: "clone", inst: i})
			squeezing = append(squeezing, squeezing[i])
			absorbed = append(absorbed, absorbed[i])
			ninst++
		case k == 8:
			h.ops = append(h.ops, op{kind: "reset", inst: i})
			squeezing[i], absorbed[i] = false, false
		case k == 9 && r.Intn(4) == 0:
			// a batch in which one lane is shorter than the announced length (outside the statement's
			// "equally long" precondition: a panic is not judged, an error must leave the state untouched);
			// the instance is Reset afterwards
			h.ops = append(h.ops, op{kind: "short-absorb", inst: i, blocks: 1 + r.Intn(3)}, op{kind: "reset", inst: i})
			squeezing[i], absorbed[i] = false, false
		case k == 9:
			h.ops = append(h.ops, op{kind: "bad-absorb", inst: i, bad: r.Intn(4), blocks: 1 + r.Intn(2)})
		case k == 10:
			h.ops = append(h.ops, op{kind: "bad-squeeze", inst: i, bad: r.Intn(4), blocks: 1 + r.Intn(2)})
		case k == 11 && r.Intn(2) == 0:
			// a zero-length piece (0 is a multiple of 243): absorbs nothing / squeezes nothing. The instance
			// is not absorbed into afterwards (whether an empty Squeeze starts the squeezing phase is not fixed).
			if !squeezing[i] && r.Intn(2) == 0 {
				h.ops = append(h.ops, op{kind: "absorb", inst: i, blocks: 0, style: r.Intn(8)})
			} else {
				h.ops = append(h.ops, op{kind: "squeeze", inst: i, blocks: 0, lanes: h.batch})
				squeezing[i] = true
			}
		}
	}
	// finish: every instance is squeezed once more so that all earlier effects become observable
	for i := 0; i < ninst; i++ {
		h.ops = append(h.ops, op{kind: "squeeze", inst: i, blocks: 1 + r.Intn(2), lanes: h.batch, final: true})
	}
	return h
}

func describe(seed uint64) []string {
	h := build(seed)
	out := []string{fmt.Sprintf("batch size %d", h.batch)}
	for _, o := range h.ops {
		switch o.kind {
		case "absorb":
			out = append(out, fmt.Sprintf("inst%d.Absorb(%d lanes, %d trits, content style %d)", o.inst, h.batch, 243*o.blocks, o.style))
		case "squeeze":
			out = append(out, fmt.Sprintf("inst%d.Squeeze(%d lanes, %d trits)", o.inst, o.lanes, 243*o.blocks))
		case "clone":
			out = append(out, fmt.Sprintf("inst%d.Clone()", o.inst))
		case "reset":
			out = append(out, fmt.Sprintf("inst%d.Reset()", o.inst))
		default:
			out = append(out, fmt.Sprintf("inst%d.%s(kind %d)", o.inst, o.kind, o.bad))
		}
	}
	return out
}

// content generates the trits of all lanes for one absorb.
func content(r *rand.Rand, lanes, n, style int) []trinary.Trits {
	src := make([]trinary.Trits, lanes)
	rt := func() int8 { return int8(r.Intn(3) - 1) }
	base := make(trinary.Trits, n)
	for k := range base {
		base[k] = rt()
	}
	hot := r.Intn(lanes)
	for j := range src {
		t := make(trinary.Trits, n)
		switch style {
		case 0:
			// all zero
		case 1:
			for k := range t {
				t[k] = 1
			}
		case 2:
			for k := range t {
				t[k] = -1
			}
		case 3: // identical lanes except one trit
			copy(t, base)
			if n > 0 {
				t[r.Intn(n)] = rt()
			}
		case 4: // one hot lane among zero lanes
			if j == hot {
				copy(t, base)
			}
		default:
			for k := range t {
				t[k] = rt()
			}
		}
		src[j] = t
	}
	// how the caller holds its inputs (Absorb only reads them): now and then a run of consecutive lanes is given
	// the very same slice, or all lanes are windows of one buffer, adjacent or overlapping
	switch r.Intn(8) {
	case 0:
		if lanes >= 2 {
			a := r.Intn(lanes - 1)
			for j, e := a+1, a+1+r.Intn(lanes-a-1); j <= e; j++ {
				src[j] = src[a]
			}
		}
	case 1:
		big := make(trinary.Trits, 0, lanes*n)
		for j := range src {
			big = append(big, src[j]...)
		}
		for j := range src {
			src[j] = big[j*n : (j+1)*n]
		}
	case 2:
		big := make(trinary.Trits, lanes+n)
		for k := range big {
			big[k] = rt()
		}
		for j := range src {
			src[j] = big[j : j+n : j+n]
		}
	}
	return src
}

type inst struct {
	c *curl.Curl
	m []curlp.Sponge
}

func snapshot(c *curl.Curl) (l, h [curl.StateSize]uint) {
	c.CopyState(l[:], h[:])
	return
}

func judge(class string, key []byte, o *fw.Obs) {
	seed := fw.GetU64(key)
	h := build(seed)
	r := fw.SubRng(int64(seed), "c06-content")
	nAbs, nSq, nSpecial := 0, 0, 0
	var insts []*inst
	if !o.Try("NewCurlP81", func() { insts = append(insts, &inst{c: curl.NewCurlP81(), m: make([]curlp.Sponge, h.batch)}) }) {
		return
	}
	var fresh *curl.Curl
	if !o.Try("NewCurlP81", func() { fresh = curl.NewCurlP81() }) {
		return
	}
	freshL, freshH := snapshot(fresh)

	// The caller's dst slice is reused from call to call in half of the histories (as the package's own
	// benchmarks do), in a quarter pre-filled with one shared placeholder slice; every output handed out
	// earlier is kept by reference and must still hold the same trits at the end of the history.
	reuseDst, placeholder := seed%2 == 0, seed%4 == 0
	sharedDst := make([]trinary.Trits, maxBatch)
	type keptOut struct {
		ref  trinary.Trits
		cp   trinary.Trits
		what string
	}
	var keptOuts []keptOut
	checkKept := func(when string) bool {
		for _, k := range keptOuts {
			for i := range k.cp {
				if k.ref[i] != k.cp[i] {
					o.Fail("aliasing", "history %d: trits returned earlier (%s) were modified by a later call (%s): trit %d was %d and is %d now", seed, k.what, when, i, k.cp[i], k.ref[i])
					return false
				}
			}
		}
		return true
	}
	mkDst := func(lanes, n int) []trinary.Trits {
		if !reuseDst {
			return make([]trinary.Trits, lanes)
		}
		d := sharedDst[:lanes]
		if placeholder {
			ph := make(trinary.Trits, n)
			for j := range d {
				d[j] = ph
			}
		}
		return d
	}
	finalsDone := false
	for step, cur := range h.ops {
		op := cur
		if op.final && finalsDone {
			continue
		}
		if op.final {
			// the closing squeezes of all instances (originals and their clones) run concurrently
			finalsDone = true
			type fin struct {
				op  opT
				dst []trinary.Trits
				err error
				pan interface{}
			}
			var fins []*fin
			for _, fo := range h.ops[step:] {
				fins = append(fins, &fin{op: fo, dst: make([]trinary.Trits, fo.lanes)})
			}
			var wg sync.WaitGroup
			for _, f := range fins {
				wg.Add(1)
				go func(f *fin) {
					defer wg.Done()
					defer func() { f.pan = recover() }()
					f.err = insts[f.op.inst].c.Squeeze(f.dst, 243*f.op.blocks)
				}(f)
			}
			wg.Wait()
			for _, f := range fins {
				where := fmt.Sprintf("history %d closing squeeze of instance %d (batch %d, %d instances squeezed concurrently)", seed, f.op.inst, h.batch, len(fins))
				if f.pan != nil {
					o.Fail("panic", "%s: panic: %v", where, f.pan)
					return
				}
				if f.err != nil {
					o.Fail("error", "%s: valid Squeeze returned %v", where, f.err)
					return
				}
				n := 243 * f.op.blocks
				in := insts[f.op.inst]
				for j := range in.m {
					want := in.m[j].Squeeze(n)
					if j >= f.op.lanes {
						continue
					}
					o.Count("lanes compared")
					if len(f.dst[j]) != n {
						o.Fail("output", "%s: lane %d has %d trits, expected %d", where, j, len(f.dst[j]), n)
						return
					}
					for k := range want {
						if f.dst[j][k] != want[k] {
							o.Fail("output", "%s: lane %d trit %d is %d, the Curl-P-81 sponge of that lane's input alone gives %d", where, j, k, f.dst[j][k], want[k])
							return
						}
					}
					b := make([]byte, n)
					for k, t := range f.dst[j] {
						b[k] = byte(t)
					}
					o.Out(b)
				}
				o.Count("squeeze calls")
			}
			if len(fins) > 1 {
				o.Count("histories whose instances were squeezed concurrently")
			}
			continue
		}
		in := insts[op.inst]
		where := fmt.Sprintf("history %d step %d (%s on instance %d, batch %d)", seed, step, op.kind, op.inst, h.batch)
		switch op.kind {
		case "absorb":
			nAbs++
			n := 243 * op.blocks
			src := content(r, h.batch, n, op.style)
			var err error
			if !o.Try("Absorb", func() { err = in.c.Absorb(src, n) }) {
				return
			}
			if n == 0 {
				// a zero-length piece may be refused or accepted; either way nothing is absorbed
				o.Count("zero-length absorb/squeeze calls")
				if err != nil {
					continue
				}
			}
			if err != nil {
				o.Fail("error", "%s: valid Absorb returned %v", where, err)
				return
			}
			for j := range in.m {
				in.m[j].Absorb(src[j])
			}
			// the caller reuses its input buffers: the sponge must not depend on them after Absorb returned
			for j := range src {
				for k := range src[j] {
					src[j][k] = int8((k+j)%3 - 1)
				}
			}
			o.Count("absorb calls")
		case "squeeze":
			nSq++
			n := 243 * op.blocks
			dst := mkDst(op.lanes, n)
			var err error
			if !o.Try("Squeeze", func() { err = in.c.Squeeze(dst, n) }) {
				return
			}
			if n == 0 {
				// a zero-length piece may be refused or accepted; either way nothing is squeezed and the
				// next non-empty Squeeze delivers the next block of the sponge
				o.Count("zero-length absorb/squeeze calls")
				if err != nil {
					continue
				}
			}
			if err != nil {
				o.Fail("error", "%s: valid Squeeze returned %v", where, err)
				return
			}
			o.Count("squeeze calls")
			if op.blocks > 200 {
				o.Count("squeeze calls of more than 200 blocks")
			}
			for j := range in.m {
				want := in.m[j].Squeeze(n)
				if j >= op.lanes {
					continue
				}
				o.Count("lanes compared")
				if len(dst[j]) != n {
					o.Fail("output", "%s: lane %d has %d trits, expected %d", where, j, len(dst[j]), n)
					return
				}
				for k := range want {
					if dst[j][k] != want[k] {
						o.Fail("output", "%s: lane %d trit %d is %d, the Curl-P-81 sponge of that lane's input alone gives %d", where, j, k, dst[j][k], want[k])
						return
					}
				}
				b := make([]byte, n)
				for k, t := range dst[j] {
					b[k] = byte(t)
				}
				o.Out(b)
				if j < 4 && len(keptOuts) < 64 {
					keptOuts = append(keptOuts, keptOut{dst[j], append(trinary.Trits(nil), dst[j]...), fmt.Sprintf("lane %d of step %d", j, step)})
				}
			}
			if !checkKept(fmt.Sprintf("step %d", step)) {
				return
			}
		case "clone":
			nSpecial++
			var c2 *curl.Curl
			if !o.Try("Clone", func() { c2 = in.c.Clone() }) {
				return
			}
			if c2 == nil || c2 == in.c {
				o.Fail("clone", "%s: Clone returned nil or the receiver itself", where)
				return
			}
			l1, h1 := snapshot(in.c)
			l2, h2 := snapshot(c2)
			if l1 != l2 || h1 != h2 {
				o.Fail("clone", "%s: the clone's state differs from the original's", where)
				return
			}
			insts = append(insts, &inst{c: c2, m: append([]curlp.Sponge(nil), in.m...)})
			o.Count("clones")
		case "reset":
			nSpecial++
			if !o.Try("Reset", func() { in.c.Reset() }) {
				return
			}
			l, hh := snapshot(in.c)
			if l != freshL || hh != freshH {
				o.Fail("reset", "%s: state after Reset differs from a fresh instance", where)
				return
			}
			in.m = make([]curlp.Sponge, h.batch)
			o.Count("resets")
		case "short-absorb":
			l0, h0 := snapshot(in.c)
			n := 243 * op.blocks
			src := content(r, h.batch, n, 5)
			j := r.Intn(h.batch)
			cut := 1 + r.Intn(n)
			short := make(trinary.Trits, n-cut) // len == cap: nothing readable behind it
			copy(short, src[j])
			src[j] = short
			var err error
			panicked := fw.TryPanics(func() { err = in.c.Absorb(src, n) }) != nil
			switch {
			case panicked:
				o.Count("short lane: Absorb panicked (not judged)")
			case err != nil:
				l1, h1 := snapshot(in.c)
				if l0 != l1 || h0 != h1 {
					o.Fail("rejected", "%s: Absorb of a batch whose lane %d has %d instead of %d trits returned the error %q but changed the state", where, j, n-cut, n, err)
					return
				}
				o.Count("short lane: Absorb returned an error and left the state untouched")
			default:
				o.Count("short lane: Absorb returned nil (not judged)")
			}
		case "bad-absorb", "bad-squeeze":
			l0, h0 := snapshot(in.c)
			var err, want error
			lanes, n := h.batch, 243*op.blocks
			switch op.bad {
			case 0:
				lanes = 0
			case 1:
				lanes = maxBatch + 1
			case 2:
				n += 1 + r.Intn(242)
			default:
				n = 1 + r.Intn(242)
			}
			if op.kind == "bad-absorb" {
				src := content(r, max(lanes, 1), n+243, 5)[:lanes]
				want = consts.ErrInvalidBatchSize
				if op.bad >= 2 {
					want = consts.ErrInvalidTritsLength
				}
				// a rejected Absorb is legal in either sponge direction
				if !o.Try("Absorb(invalid)", func() { err = in.c.Absorb(src, n) }) {
					return
				}
			} else {
				dst := make([]trinary.Trits, lanes)
				want = consts.ErrInvalidBatchSize
				if op.bad >= 2 {
					want = consts.ErrInvalidSqueezeLength
				}
				if !o.Try("Squeeze(invalid)", func() { err = in.c.Squeeze(dst, n) }) {
					return
				}
			}
			if err == nil || !errors.Is(err, want) {
				o.Fail("rejected", "%s (lanes=%d, trits=%d): expected %v, got %v", where, lanes, n, want, err)
				return
			}
			l1, h1 := snapshot(in.c)
			if l0 != l1 || h0 != h1 {
				o.Fail("rejected", "%s: the rejected call changed the state", where)
				return
			}
			o.Count("rejected calls checked")
		}
		// independence: an operation on one instance must not change the others
		_ = step
	}
	if !checkKept("end of the history") {
		return
	}
	if reuseDst {
		o.Count("histories reusing the caller's dst slice")
	}
	if h.batch < maxBatch {
		o.Count("partial batch histories")
	}
	if h.batch < maxBatch || nAbs >= 2 || nSq >= 2 || nSpecial > 0 {
		o.Nontrivial()
	}
}

func max(a, b int) int {
	if a > b {
		return a
	}
	return b
}

func gen(g *fw.Gen) {
	for n := g.ShareOf(1000, 30000); n > 0; n-- {
		g.Emit("history", fw.U64(g.Rng.Uint64()))
	}
}
