// Package c19 monitors the address layer on top of Bech32 (address.Bech32,
// address.ParseBech32) against the BIP-173 model plus the version table, and
// the migration address format (migration.Encode / Decode) against an own
// model of b1t6 and of the TRANSFER...9 framing.
package c19

import (
	"bytes"
	"encoding/hex"
	"fmt"
	"math/rand"
	"strings"

	"golang.org/x/crypto/blake2b"

	"github.com/wollac/iota-crypto-demo/pkg/bech32/address"
	"github.com/wollac/iota-crypto-demo/pkg/ed25519"
	"github.com/wollac/iota-crypto-demo/pkg/migration"

	"verif/harness/fw"
	"verif/harness/oracle/bech32m"
	"verif/harness/prop/bechscan"
)

const (
	cSubst   = "migration: single-tryte substitutions decoded"
	cSubstRj = "migration: single-tryte substitutions, model=reject impl=reject"
)

func init() {
	fw.Register(&fw.Prop{
		ID:                  "C19",
		DeadlockIsViolation: true,                       // the calls of this property are synchronous functions of their inputs: a call blocked for good inside the library is a violation
		Builds:              []string{"default", "386"}, // the 386 build runs a quarter of the random classes on a 32-bit target
		Parallel:            4,                          // cases are judged on 4 goroutines per shard: the library functions are stateless, shared state inside them shows up as wrong verdicts
		Rule: "parse: model-built Bech32 strings carrying every version byte 0..255 x every payload length 0..50 (and no version byte at all) under known prefixes (iota, atoi, smr, rms), unknown ones and upper-case / mixed-case spellings, with zero and non-zero padding; near-valid strings for every prefix x kind with payload length exact, +-1 and the other kind's, and the same strings with the checksum of another polymod constant (Bech32m and other plausible ones); mutations of valid address strings (substitution, insertion, deletion, truncation, case flip, whole string upper-cased); parse_unicode: the letters k/i/s replaced by U+212A/U+0130/U+017F/U+0131. " +
			"ParseBech32 is judged two-sidedly: accept iff model-valid Bech32 whose data regroups into bytes, hrp in the prefix table, payload >= 1 byte and (version, length) in {(0x00,32), (0x08,20), (0x10,20)}; on accept prefix/version/bytes are compared and Bech32(prefix, addr) must be the lower-cased input. " +
			"roundtrip: every prefix x kind x random/structured hash, string built by the model; fromkey: the three constructors against BLAKE2b. " +
			"migrate: Encode against the own encoder and Decode(Encode(a)) == a on random and structured addresses (0x00, 0xff, 0x7f/0x80/0x81 runs); migsubst: all 81 x 26 single-tryte substitutions of sampled encodings; migparse: wrong lengths 0..90, lower case, non-tryte characters, wrong prefix/suffix, invalid and non-canonical (value +-256) b1t6 groups in address and checksum part, wrong checksums; Decode judged two-sidedly against the model decoder and accepted strings must re-encode to themselves. " +
			"Non-trivial: distinct parse inputs that are valid Bech32 (accepted or refused for prefix/version/length), and every migsubst / migparse / roundtrip case.",
		Assumptions: []string{"the BIP-173 port in harness/oracle/bech32m (self-tested against the published vectors)",
			"golang.org/x/crypto/blake2b", "the b1t6/tryte model in harness/prop/c19 (self-tested against the example of IOTA RFC-0015)"},
		SelfTest: selfTest,
		Gen:      gen,
		Judge:    judge,
		Render:   render,
		Required: []string{"parse model=accept impl=accept", "parse model=reject impl=reject",
			"parse: valid Bech32, unknown prefix", "parse: valid Bech32, no version byte", "parse: valid Bech32, unknown version", "parse: valid Bech32, known version, wrong length",
			"parse: accepted Ed25519", "parse: accepted Alias", "parse: accepted NFT", "parse: accepted in upper case",
			"parse: Alias version with 32 bytes", "parse: Ed25519 version with 20 bytes", "parse: known prefix, not valid Bech32 only for padding/regrouping",
			"roundtrip ok", "fromkey ok", "migrate ok", cSubst, cSubstRj,
			"migparse model=accept impl=accept", "migparse model=reject impl=reject", "migparse model rejects: suffix", "migparse model rejects: prefix",
			"migparse model rejects: invalid b1t6 group", "migparse model rejects: checksum", "migparse model rejects: length", "migparse model rejects: alphabet"},
	})
}

var prefixes = []string{"iota", "atoi", "smr", "rms"}

// payload length of every known version
var versions = map[byte]int{0x00: 32, 0x08: 20, 0x10: 20}
var versionNames = map[byte]string{0x00: "Ed25519", 0x08: "Alias", 0x10: "NFT"}
var kinds = []byte{0x00, 0x08, 0x10}

func prefixIndex(hrp string) int {
	for i, p := range prefixes {
		if p == hrp {
			return i
		}
	}
	return -1
}

func ar(b bool) string {
	if b {
		return "accept"
	}
	return "reject"
}

func render(class string, key []byte) interface{} {
	switch class {
	case "parse", "parse_unicode", "migparse":
		return map[string]interface{}{"string": fmt.Sprintf("%+q", string(key)), "hex": fw.Hex(key), "length": len(key)}
	case "migrate":
		return map[string]interface{}{"address": fw.Hex(key)}
	case "migsubst":
		p := fw.Unpack(key)
		return map[string]interface{}{"address": fw.Hex(p[0]), "position": fw.GetU32(p[1])}
	default:
		p := fw.Unpack(key)
		return map[string]interface{}{"prefix": int(p[0][0]), "version": int(p[1][0]), "material": fw.Hex(p[2])}
	}
}

// ---------------------------------------------------------------------------
// model of the migration format

const tryteAlphabet = "9ABCDEFGHIJKLMNOPQRSTUVWXYZ"
const migPrefix, migSuffix = "TRANSFER", "9"

// tryteOf maps a value -13..13 to its tryte.
func tryteOf(v int) byte { return tryteAlphabet[(v+27)%27] }

// tryteValue maps a tryte to its value -13..13.
func tryteValue(c byte) (int, bool) {
	i := strings.IndexByte(tryteAlphabet, c)
	if i < 0 {
		return 0, false
	}
	if i > 13 {
		i -= 27
	}
	return i, true
}

// b1t6 encodes every byte, read as a signed value v, as the two trytes t1 t2
// with v = t1 + 27*t2 in balanced ternary (little endian).
func b1t6(b []byte) string {
	out := make([]byte, 0, 2*len(b))
	for _, x := range b {
		v := int(int8(x))
		t1 := ((v+13)%27+27)%27 - 13
		t2 := (v - t1) / 27
		out = append(out, tryteOf(t1), tryteOf(t2))
	}
	return string(out)
}

func migEncode(addr []byte) string {
	h := blake2b.Sum256(addr)
	return migPrefix + b1t6(append(append([]byte(nil), addr...), h[:4]...)) + migSuffix
}

// migDecode is the model decoder: it accepts exactly the strings migEncode produces.
func migDecode(s string) (addr []byte, reason string) {
	if len(s) != 81 {
		return nil, "length"
	}
	for i := 0; i < len(s); i++ {
		if s[i] != '9' && (s[i] < 'A' || s[i] > 'Z') {
			return nil, "alphabet"
		}
	}
	if s[:8] != migPrefix {
		return nil, "prefix"
	}
	if s[80:] != migSuffix {
		return nil, "suffix"
	}
	body := s[8:80]
	raw := make([]byte, 36)
	for k := 0; k < 36; k++ {
		t1, _ := tryteValue(body[2*k])
		t2, _ := tryteValue(body[2*k+1])
		v := t1 + 27*t2
		if v < -128 || v > 127 {
			return nil, "invalid b1t6 group"
		}
		raw[k] = byte(int8(v))
	}
	h := blake2b.Sum256(raw[:32])
	if !bytes.Equal(h[:4], raw[32:]) {
		return nil, "checksum"
	}
	return raw[:32], "ok"
}

func selfTest() error {
	if err := bech32m.SelfTest(); err != nil {
		return err
	}
	// IOTA protocol RFC-0015 (binary-to-ternary encoding), example
	in, _ := hex.DecodeString("0001027e7f8081fdfeff")
	if got := b1t6(in); got != "99A9B9RESEGVHVX9Y9Z9" {
		return fmt.Errorf("c19: b1t6 model gives %s on the RFC-0015 example", got)
	}
	for v := -13; v <= 13; v++ {
		if back, ok := tryteValue(tryteOf(v)); !ok || back != v {
			return fmt.Errorf("c19: tryte model does not round-trip %d", v)
		}
	}
	if tryteOf(0) != '9' || tryteOf(1) != 'A' || tryteOf(13) != 'M' || tryteOf(-13) != 'N' || tryteOf(-1) != 'Z' {
		return fmt.Errorf("c19: tryte alphabet")
	}
	// exactly 256 of the 729 groups are code words, and they decode to distinct bytes
	seen := map[byte]bool{}
	n := 0
	for i := 0; i < 27; i++ {
		for j := 0; j < 27; j++ {
			g := string([]byte{tryteAlphabet[i], tryteAlphabet[j]})
			t1, _ := tryteValue(g[0])
			t2, _ := tryteValue(g[1])
			if v := t1 + 27*t2; v >= -128 && v <= 127 {
				n++
				seen[byte(int8(v))] = true
				if b1t6([]byte{byte(int8(v))}) != g {
					return fmt.Errorf("c19: group %s is not the encoding of its value", g)
				}
			}
		}
	}
	if n != 256 || len(seen) != 256 {
		return fmt.Errorf("c19: %d code words, %d bytes", n, len(seen))
	}
	a := make([]byte, 32)
	for i := range a {
		a[i] = byte(i * 9)
	}
	s := migEncode(a)
	if back, r := migDecode(s); r != "ok" || !bytes.Equal(back, a) || len(s) != 81 {
		return fmt.Errorf("c19: migration model does not round-trip (%s)", r)
	}
	return nil
}

// ---------------------------------------------------------------------------

func hasNonASCII(s string) bool {
	for i := 0; i < len(s); i++ {
		if s[i] >= 0x80 {
			return true
		}
	}
	return false
}

func judgeParse(s string, o *fw.Obs) {
	hrp, data, valid := bech32m.DecodeBytes(s)
	pidx := -1
	why := "not valid Bech32"
	want := false
	if !valid {
		if h, _, r := bech32m.Decode(s); r == bech32m.OK && prefixIndex(h) >= 0 {
			o.Nontrivial()
			o.Count("parse: known prefix, not valid Bech32 only for padding/regrouping")
		}
	}
	if valid {
		o.Nontrivial()
		pidx = prefixIndex(hrp)
		switch {
		case pidx < 0:
			why = "valid Bech32, unknown prefix"
		case len(data) == 0:
			why = "valid Bech32, no version byte"
		default:
			l, known := versions[data[0]]
			switch {
			case !known:
				why = "valid Bech32, unknown version"
			case l != len(data)-1:
				why = "valid Bech32, known version, wrong length"
				if data[0] == 0x08 && len(data)-1 == 32 {
					o.Count("parse: Alias version with 32 bytes")
				}
				if data[0] == 0x00 && len(data)-1 == 20 {
					o.Count("parse: Ed25519 version with 20 bytes")
				}
			default:
				why = "valid address"
				want = true
			}
		}
		if !want {
			o.Count("parse: " + why)
		}
	}
	var prefix address.Prefix
	var addr address.Address
	var err error
	if !o.Try("address.ParseBech32", func() { prefix, addr, err = address.ParseBech32(s) }) {
		return
	}
	got := err == nil
	o.Count(fmt.Sprintf("parse model=%s impl=%s", ar(want), ar(got)))
	if want && !got && s != strings.ToLower(s) {
		// the statement requires the Bech32 form (lower case) of every address to parse and says "accepts
		// only if" for everything else: refusing an upper-case spelling is not a violation
		o.Count("parse: valid upper-case spelling refused (allowed by the statement)")
		return
	}
	if want != got {
		vc := "verdict"
		if hasNonASCII(s) {
			vc = "verdict-nonascii"
		}
		o.Fail(vc, "ParseBech32(%+q): the model says %s (%s), the implementation %s (err=%v, prefix=%d, addr=%v)", s, ar(want), why, ar(got), err, int(prefix), addr)
		return
	}
	if !got {
		return
	}
	if addr == nil {
		o.Fail("value", "ParseBech32(%+q) succeeded with a nil address", s)
		return
	}
	var ps, back, astr string
	var ver address.Version
	var ab []byte
	var berr error
	if !o.Try("Prefix.String/Address methods/address.Bech32", func() {
		ps, ver, ab, astr = prefix.String(), addr.Version(), addr.Bytes(), addr.String()
		back, berr = address.Bech32(prefix, addr)
	}) {
		return
	}
	if int(prefix) != pidx || ps != hrp || byte(ver) != data[0] || !bytes.Equal(ab, data) || astr != hex.EncodeToString(data[1:]) {
		o.Fail("value", "ParseBech32(%+q) = (prefix %d %+q, version %#x, bytes %x, string %s); the string carries prefix %+q and bytes %x", s, int(prefix), ps, byte(ver), ab, astr, hrp, data)
		return
	}
	if berr != nil || back != bech32m.Lower(s) {
		o.Fail("reencode", "ParseBech32(%+q) succeeded but Bech32(prefix, addr) = %+q, err=%v; expected the lower-cased input", s, back, berr)
		return
	}
	o.Count("parse: accepted " + versionNames[data[0]])
	if bech32m.HasUpper(s) {
		o.Count("parse: accepted in upper case")
	}
}

func judge(class string, key []byte, o *fw.Obs) {
	switch class {
	case "parse", "parse_unicode":
		judgeParse(string(key), o)
	case "roundtrip":
		o.Nontrivial()
		p := fw.Unpack(key)
		pi, ver, hash := int(p[0][0]), p[1][0], p[2]
		payload := append([]byte{ver}, hash...)
		s, ok := bech32m.Encode(prefixes[pi], payload)
		if !ok {
			panic("c19: the model cannot encode a round-trip case")
		}
		var prefix, prefix2 address.Prefix
		var addr, addr2 address.Address
		var err, err2, berr error
		var back string
		var ab []byte
		var v address.Version
		if !o.Try("ParseBech32/Bech32", func() {
			prefix, addr, err = address.ParseBech32(s)
			if err != nil || addr == nil {
				return
			}
			v, ab = addr.Version(), addr.Bytes()
			back, berr = address.Bech32(prefix, addr)
			prefix2, addr2, err2 = address.ParseBech32(bech32m.Upper(s))
		}) {
			return
		}
		if err != nil || addr == nil {
			o.Fail("roundtrip", "ParseBech32(%+q) of the %s address %x under %+q failed: %v", s, versionNames[ver], hash, prefixes[pi], err)
			return
		}
		if int(prefix) != pi || byte(v) != ver || !bytes.Equal(ab, payload) {
			o.Fail("roundtrip", "ParseBech32(%+q) = (prefix %d, version %#x, %x), expected (%d, %#x, %x)", s, int(prefix), byte(v), ab, pi, ver, payload)
			return
		}
		if berr != nil || back != s {
			o.Fail("roundtrip", "Bech32(%+q, %s %x) = %+q, err=%v; the BIP-173 string is %+q", prefixes[pi], versionNames[ver], hash, back, berr, s)
			return
		}
		if err2 != nil || prefix2 != prefix || addr2 != addr {
			o.Fail("roundtrip", "the upper-case spelling of %+q parses to (%d, %v, err=%v), the lower-case one to (%d, %v)", s, int(prefix2), addr2, err2, int(prefix), addr)
			return
		}
		o.Count("roundtrip ok")
	case "fromkey":
		o.Nontrivial()
		p := fw.Unpack(key)
		pi, ver, mat := int(p[0][0]), p[1][0], p[2]
		var addr address.Address
		var want []byte
		if !o.Try("address constructors", func() {
			switch ver {
			case 0x00:
				addr = address.AddressFromPublicKey(ed25519.PublicKey(mat))
			case 0x08:
				var id [address.OutputIDLength]byte
				copy(id[:], mat)
				addr = address.AliasAddressFromOutputID(id)
			default:
				var id [address.OutputIDLength]byte
				copy(id[:], mat)
				addr = address.NFTAddressFromOutputID(id)
			}
		}) {
			return
		}
		if ver == 0x00 {
			h := blake2b.Sum256(mat)
			want = append([]byte{ver}, h[:]...)
		} else {
			h, _ := blake2b.New(20, nil)
			h.Write(mat)
			want = h.Sum([]byte{ver})
		}
		ws, ok := bech32m.Encode(prefixes[pi], want)
		if !ok {
			panic("c19: the model cannot encode a fromkey case")
		}
		var s string
		var err, perr error
		var prefix address.Prefix
		var addr2 address.Address
		var ab []byte
		if !o.Try("Bytes/Bech32/ParseBech32", func() {
			ab = addr.Bytes()
			s, err = address.Bech32(address.Prefix(pi), addr)
			if err == nil {
				prefix, addr2, perr = address.ParseBech32(s)
			}
		}) {
			return
		}
		if !bytes.Equal(ab, want) || err != nil || s != ws {
			o.Fail("fromkey", "address of %x (version %#x): bytes %x, Bech32 %+q, err=%v; expected %x, %+q", mat, ver, ab, s, err, want, ws)
			return
		}
		if perr != nil || int(prefix) != pi || addr2 != addr {
			o.Fail("roundtrip", "ParseBech32(Bech32(%+q, %v)) = (%d, %v, err=%v) via %+q", prefixes[pi], addr, int(prefix), addr2, perr, s)
			return
		}
		o.Count("fromkey ok")
	case "migrate":
		var a [32]byte
		copy(a[:], key)
		want := migEncode(a[:])
		var s string
		var back [32]byte
		var err error
		if !o.Try("migration.Encode/Decode", func() {
			s = migration.Encode(a)
			back, err = migration.Decode(s)
		}) {
			return
		}
		if s != want {
			o.Fail("encode", "migration.Encode(%x) = %+q, the model gives %+q", a, s, want)
			return
		}
		if err != nil || back != a {
			o.Fail("roundtrip", "migration.Decode(Encode(%x)) = %x, err=%v via %+q", a, back, err, s)
			return
		}
		o.Count("migrate ok")
	case "migsubst":
		o.Nontrivial()
		p := fw.Unpack(key)
		pos := int(fw.GetU32(p[1]))
		base := []byte(migEncode(p[0]))
		orig := base[pos]
		var n, nrej int64
		for i := 0; i < 27; i++ {
			c := tryteAlphabet[i]
			if c == orig {
				continue
			}
			base[pos] = c
			n++
			if judgeMig(string(base), o, false) {
				nrej++
			}
			if o.Failed() {
				return
			}
		}
		o.Add(cSubst, n)
		o.Add(cSubstRj, nrej)
	case "migparse":
		o.Nontrivial()
		judgeMig(string(key), o, true)
	}
}

// judgeMig judges one migration.Decode call; it returns true when both sides reject.
func judgeMig(s string, o *fw.Obs, count bool) bool {
	maddr, reason := migDecode(s)
	mok := reason == "ok"
	var got [32]byte
	var err error
	if !o.Try("migration.Decode", func() { got, err = migration.Decode(s) }) {
		return false
	}
	iok := err == nil
	if count {
		o.Count(fmt.Sprintf("migparse model=%s impl=%s", ar(mok), ar(iok)))
		if !mok {
			o.Count("migparse model rejects: " + reason)
		}
	}
	if mok != iok {
		o.Fail("verdict", "migration.Decode(%+q): the model says %s (%s), the implementation %s (err=%v, addr=%x)", s, ar(mok), reason, ar(iok), err, got)
		return false
	}
	if !iok {
		return true
	}
	if !bytes.Equal(got[:], maddr) {
		o.Fail("value", "migration.Decode(%+q) = %x, the model decodes %x", s, got, maddr)
		return false
	}
	var back string
	if !o.Try("migration.Encode", func() { back = migration.Encode(got) }) {
		return false
	}
	if back != s {
		o.Fail("canonical", "migration.Decode accepts %+q but Encode of the result gives %+q", s, back)
	}
	return false
}

// ---------------------------------------------------------------------------
// generators

func emitS(g *fw.Gen, class, s string) { g.Emit(class, []byte(s)) }

var otherPrefixes = []string{"iot", "iotaa", "io", "i", "tst", "bc", "tb", "i0ta", "smr1", "1smr", "rsm", "atoi1", "iota-", "sm", "rmss", "jota", "a", "1"}

func randPrefix(r *rand.Rand) string {
	if r.Intn(3) == 0 {
		return otherPrefixes[r.Intn(len(otherPrefixes))]
	}
	return prefixes[r.Intn(4)]
}

func randHash(r *rand.Rand, n int) []byte {
	b := make([]byte, n)
	switch r.Intn(8) {
	case 0:
	case 1:
		for i := range b {
			b[i] = 0xff
		}
	case 2:
		for i := range b {
			b[i] = []byte{0x7f, 0x80, 0x81}[r.Intn(3)]
		}
	default:
		r.Read(b)
	}
	return b
}

// encodeAddr builds the Bech32 string of version||payload under hrp without any check.
func encodeAddr(hrp string, payload []byte) string {
	syms, _ := bech32m.ConvertBits(payload, 8, 5, true)
	return bech32m.EncodeSymbols(hrp, syms)
}

func spellings(g *fw.Gen, s string) {
	r := g.Rng
	emitS(g, "parse", s)
	switch r.Intn(4) {
	case 0:
		emitS(g, "parse", bech32m.Upper(s))
	case 1: // upper-case prefix only, or a single letter
		b := []byte(s)
		i := r.Intn(len(b))
		if b[i] >= 'a' && b[i] <= 'z' {
			b[i] -= 32
		}
		emitS(g, "parse", string(b))
		if k := strings.IndexByte(s, '1'); k > 0 {
			emitS(g, "parse", bech32m.Upper(s[:k])+s[k:])
		}
	}
}

func replaceAt(s string, i int, with string) string { return s[:i] + with + s[i+1:] }

func mutations(g *fw.Gen, s string) {
	r := g.Rng
	n := len(s)
	up := bech32m.Upper(s)
	emitS(g, "parse", replaceAt(s, r.Intn(n), string(bech32m.Charset[r.Intn(32)])))
	emitS(g, "parse", replaceAt(s, r.Intn(n), string([]byte{byte(r.Intn(256))})))
	i := r.Intn(n)
	emitS(g, "parse", s[:i]+s[i+1:])
	i = r.Intn(n + 1)
	emitS(g, "parse", s[:i]+string(bech32m.Charset[r.Intn(32)])+s[i:])
	emitS(g, "parse", s[:n-1-r.Intn(8)])
	switch r.Intn(5) {
	case 0:
		emitS(g, "parse", " "+s)
	case 1:
		emitS(g, "parse", s+"\n")
	case 2:
		emitS(g, "parse", strings.Replace(s, "1", "", 1))
	case 3:
		emitS(g, "parse", s+s)
	}
	type sub struct {
		str  string
		c    byte
		with string
	}
	for _, sb := range []sub{{up, 'K', "\u212a"}, {up, 'I', "\u0130"}, {s, 's', "\u017f"}, {s, 'i', "\u0131"}, {up, 'S', "\u017f"}, {s, 'k', "\u212a"}} {
		var ps []int
		for k := 0; k < len(sb.str); k++ {
			if sb.str[k] == sb.c {
				ps = append(ps, k)
			}
		}
		if len(ps) > 0 {
			emitS(g, "parse_unicode", replaceAt(sb.str, ps[r.Intn(len(ps))], sb.with))
		}
	}
}

func migVariants(g *fw.Gen, addr []byte) {
	r := g.Rng
	s := migEncode(addr)
	emitS(g, "migparse", s)
	for l := 0; l <= 90; l += 1 + r.Intn(9) {
		if l <= 81 {
			emitS(g, "migparse", s[:l])
		} else {
			emitS(g, "migparse", s+strings.Repeat("9", l-81))
		}
	}
	emitS(g, "migparse", s[:80])
	emitS(g, "migparse", s+"9")
	emitS(g, "migparse", s[1:])
	emitS(g, "migparse", strings.ToLower(s))
	i := r.Intn(81)
	emitS(g, "migparse", replaceAt(s, i, strings.ToLower(s[i:i+1])))
	const nonTrytes = "012345678@[`{ -_\x00\xff\x80"
	emitS(g, "migparse", replaceAt(s, r.Intn(81), nonTrytes[r.Intn(len(nonTrytes)):][:1]))
	emitS(g, "migparse", s[:80]+"\u00e9"[:1])
	emitS(g, "migparse", replaceAt(s, r.Intn(80), "\u00e9")[:81])
	// prefix / suffix
	emitS(g, "migparse", replaceAt(s, r.Intn(8), string(tryteAlphabet[r.Intn(27)])))
	emitS(g, "migparse", replaceAt(s, 80, string(tryteAlphabet[r.Intn(27)])))
	emitS(g, "migparse", s[8:]+"TRANSFER")
	emitS(g, "migparse", "9"+s[:80])
	// a group replaced by an invalid one, by the alias value+-256 of the same byte, by a different valid one
	full := append(append([]byte(nil), addr...), func() []byte { h := blake2b.Sum256(addr); return h[:4] }()...)
	for _, k := range []int{r.Intn(32), 32 + r.Intn(4)} {
		at := 8 + 2*k
		v := int(int8(full[k]))
		for _, alias := range []int{v + 256, v - 256} {
			if alias >= -364 && alias <= 364 {
				t1 := ((alias+13)%27+27)%27 - 13
				t2 := (alias - t1) / 27
				emitS(g, "migparse", s[:at]+string([]byte{tryteOf(t1), tryteOf(t2)})+s[at+2:])
			}
		}
		// any invalid group
		for {
			t1, t2 := r.Intn(27)-13, r.Intn(27)-13
			if w := t1 + 27*t2; w < -128 || w > 127 {
				emitS(g, "migparse", s[:at]+string([]byte{tryteOf(t1), tryteOf(t2)})+s[at+2:])
				break
			}
		}
		// the boundary groups 127/128 and -128/-129
		for _, w := range []int{127, 128, -128, -129} {
			t1 := ((w+13)%27+27)%27 - 13
			emitS(g, "migparse", s[:at]+string([]byte{tryteOf(t1), tryteOf((w - t1) / 27)})+s[at+2:])
		}
		// another byte value: valid group, wrong checksum
		emitS(g, "migparse", s[:at]+b1t6([]byte{full[k] + byte(1+r.Intn(255))})+s[at+2:])
	}
	// two faults at once: an invalid group in the address part, and a checksum part that matches what a decoder
	// may have in hand after the failed decode (nothing, zeros, the bytes before the fault, those padded with
	// zeros, the address with the faulty byte taken modulo 256) — an error that is overwritten or ignored then
	// meets a "matching" checksum
	{
		k := r.Intn(32)
		at := 8 + 2*k
		var bad string
		var wrapped byte
		for {
			t1, t2 := r.Intn(27)-13, r.Intn(27)-13
			if w := t1 + 27*t2; w < -128 || w > 127 {
				bad = string([]byte{tryteOf(t1), tryteOf(t2)})
				wrapped = byte(w)
				break
			}
		}
		wr := append([]byte(nil), addr...)
		wr[k] = wrapped
		zeroed := append([]byte(nil), addr...)
		zeroed[k] = 0
		for _, x := range [][]byte{nil, make([]byte, 32), addr[:k], append(append([]byte(nil), addr[:k]...), make([]byte, 32-k)...), wr, zeroed, addr[:k+1]} {
			h := blake2b.Sum256(x)
			emitS(g, "migparse", s[:at]+bad+s[at+2:72]+b1t6(h[:4])+migSuffix)
		}
	}
	// checksum of another address
	other := append([]byte(nil), addr...)
	other[r.Intn(32)] ^= 1 << uint(r.Intn(8))
	emitS(g, "migparse", s[:72]+migEncode(other)[72:])
}

func gen(g *fw.Gen) {
	r := g.Rng
	// every version byte x every payload length (and no version byte at all)
	idx := 0
	for rep := g.Pick(6, 600); rep > 0; rep-- {
		for ver := 0; ver < 256; ver++ {
			for l := -1; l <= 50; l++ {
				if g.Own(idx) {
					var payload []byte
					if l >= 0 {
						payload = append([]byte{byte(ver)}, randHash(r, l)...)
					}
					hrp := randPrefix(r)
					if r.Intn(16) == 0 { // arbitrary symbols: non-zero padding, incomplete groups
						syms, _ := bech32m.ConvertBits(payload, 8, 5, true)
						if len(syms) > 0 && r.Intn(2) == 0 {
							syms[len(syms)-1] |= byte(1 + r.Intn(3))
						} else {
							syms = append(syms, byte(r.Intn(32)))
						}
						emitS(g, "parse", bech32m.EncodeSymbols(hrp, syms))
					} else {
						spellings(g, encodeAddr(hrp, payload))
					}
				}
				idx++
			}
		}
	}
	// near-valid: every prefix x kind with the exact, neighbouring and the other kind's length
	for n := g.ShareOf(60000, 8000000); n > 0; n-- {
		ver := kinds[r.Intn(3)]
		if r.Intn(12) == 0 {
			ver ^= 1 << uint(r.Intn(8))
		}
		l := versions[kinds[r.Intn(3)]]
		switch r.Intn(8) {
		case 0:
			l++
		case 1:
			l--
		case 2:
			l = []int{0, 1, 19, 21, 31, 33, 34, 40}[r.Intn(8)]
		}
		hrp := prefixes[r.Intn(4)]
		if r.Intn(10) == 0 {
			hrp = randPrefix(r)
		}
		payload := append([]byte{ver}, randHash(r, l)...)
		s := encodeAddr(hrp, payload)
		spellings(g, s)
		if n%16 == 1 {
			// the same address string with another checksum polymod: the Bech32m constant and other plausible
			// confusions (the string differs from the valid one in its six checksum characters only)
			ds := bechscan.Targeted()
			d := ds[0]
			if r.Intn(2) == 0 {
				d = ds[r.Intn(len(ds))]
			}
			one := []uint32{d}
			bechscan.Scan(s, func() uint32 {
				if len(one) == 0 {
					return 0
				}
				v := one[0]
				one = nil
				return v
			}, func(t string) bool { emitS(g, "parse", t); return false })
		}
		if n%8 == 0 { // the same address with non-zero padding bits or one symbol more
			syms, _ := bech32m.ConvertBits(payload, 8, 5, true)
			if pad := uint(len(syms)*5 - len(payload)*8); pad > 0 && r.Intn(4) > 0 {
				syms[len(syms)-1] |= byte(1 + r.Intn(1<<pad-1))
			} else {
				syms = append(syms, 0)
			}
			spellings(g, bech32m.EncodeSymbols(hrp, syms))
		}
		if n%2 == 0 {
			mutations(g, s)
		}
	}
	// round trips
	idx = 0
	for rep := g.Pick(2500, 300000); rep > 0; rep-- {
		for pi := 0; pi < 4; pi++ {
			for _, ver := range kinds {
				if g.Own(idx) {
					g.Emit("roundtrip", fw.Pack([]byte{byte(pi)}, []byte{ver}, randHash(r, versions[ver])))
					if rep%2 == 0 {
						ml := 32
						if ver != 0 {
							ml = address.OutputIDLength
						}
						g.Emit("fromkey", fw.Pack([]byte{byte(pi)}, []byte{ver}, randHash(r, ml)))
					}
				}
				idx++
			}
		}
	}
	// migration
	for n := g.ShareOf(60000, 8000000); n > 0; n-- {
		a := randHash(r, 32)
		if n%4 == 0 {
			for i := range a {
				if r.Intn(3) == 0 {
					a[i] = []byte{0x00, 0x7f, 0x80, 0x81, 0xff, 0x6c, 0x6d, 0x93, 0x94}[r.Intn(9)]
				}
			}
		}
		g.Emit("migrate", a)
		if n%4 == 1 {
			migVariants(g, a)
		}
	}
	// all 81 x 26 single-tryte substitutions of sampled encodings (the samples are the same in every shard)
	sr := fw.SubRng(g.Seed, "c19-migsubst")
	idx = 0
	for k := g.Pick(48, 6000); k > 0; k-- {
		a := randHash(sr, 32)
		for pos := 0; pos < 81; pos++ {
			if g.Own(idx) {
				g.Emit("migsubst", fw.Pack(a, fw.U32(uint32(pos))))
			}
			idx++
		}
	}
}
