// Package c15 monitors merkle.Hasher.Hash against an independent bottom-up
// RFC 6962 tree hash for every leaf count, with instrumented leaves that log
// their MarshalBinary calls and can fail at chosen positions.
package c15

import (
	"bytes"
	"crypto"
	stdsha1 "crypto/sha1" // also registers crypto.SHA1
	"crypto/sha256"
	"crypto/sha512"
	"encoding"
	"errors"
	"fmt"
	"hash"
	"math/rand"
	"sync"
	"sync/atomic"
	"time"

	"golang.org/x/crypto/blake2b" // registers crypto.BLAKE2b_256

	"github.com/wollac/iota-crypto-demo/pkg/merkle"

	"verif/harness/fw"
	"verif/harness/oracle/merklem"
)

func init() {
	fw.Register(&fw.Prop{
		ID:                  "C15",
		DeadlockIsViolation: true,                               // the calls of this property are synchronous functions of their inputs: a call blocked for good inside the library is a violation
		Builds:              []string{"default", "386", "race"}, // the 386 build runs a quarter of the random classes on a 32-bit target
		// race build: only the classes in which several goroutines are inside the library at once, under the race detector
		RaceClasses: []string{"style", "fail"},
		RaceSample:  8,
		Parallel:    4, // cases are judged on 4 goroutines per shard: the library functions are stateless, shared state inside them shows up as wrong verdicts
		Rule: "sweep: one case per (hash, n): every n in 0..1500 (thorough 0..20000) for SHA-256, every n in 0..300 (thorough 0..4000) and every 5th n above for SHA-512, BLAKE2b-256 and SHA-1, and 2^k-1, 2^k, 2^k+1 for k up to 14 (thorough 18) for all four, plus for SHA-256 leaf counts around 2^15..2^18 (thorough 2^20) and sums of two powers of two (+0, +1); the payload style rotates with n over {random 0..40 bytes, all empty, all equal, one byte, a few long leaves, leaves starting with 0x00/0x01 of node-preimage length, mixed}. " +
			"style: random (hash, n <= 3000) under every payload style. fail: 1..4 leaves at seeded positions (first, last, around the split point, random; n up to 3000 and some lists of 4096..16000 leaves) return distinct errors, the failing leaf with the lowest index is slow (injected 3 ms delay) in half of the cases; Hasher objects are shared between cases and goroutines in three quarters of the cases. empty: nil and empty slices. " +
			"Each case: Hash over instrumented leaves vs. the model's bottom-up root; RFC 6962 audit paths produced by the model for leaf 0, n-1, the leaves around the split point and random leaves are verified against the library's root with the RFC 9162 2.1.3.2 algorithm; the leaf slice, the elements behind its length and every payload are compared with their state before the call; a second call with leaves of other Go types (value-typed, nil instead of empty payloads, and leaves whose MarshalBinary calls back into the same Hasher to hash a nested 3-leaf tree) must give the same root; with failing leaves the error must be that of the lowest failing index, or of the first failing MarshalBinary call the library actually made (the same leaf for a left-to-right traversal), and no hash may be returned. " +
			"Non-trivial: distinct (hash, n) of the sweep with n >= 3 and n not a power of two.",
		Assumptions: []string{"SHA-256, SHA-512, SHA-1 of the Go standard library and BLAKE2b of golang.org/x/crypto (used by both sides)",
			"the bottom-up model in harness/oracle/merklem (self-tested against the recursive RFC 6962 definition for n <= 64, the Certificate Transparency reference roots and audit path)"},
		SelfTest: selfTest,
		Gen:      gen,
		Judge:    judge,
		Render:   render,
		Required: []string{"re-entrant Hash calls from inside MarshalBinary", "root == model root", "root == model root, n not a power of two", "audit path verifies against the library root",
			"Hash(nil) == EmptyRoot() == H()", "Hash(empty slice) == H()", "inputs unchanged", "same root from leaves of another type",
			"fail: error of the lowest failing index returned, no hash", "fail: several failing leaves"},
	})
}

var kept fw.Keeper

type hashDef struct {
	name string
	ch   crypto.Hash
	mk   func() hash.Hash
}

func newBlake() hash.Hash {
	h, err := blake2b.New256(nil)
	if err != nil {
		panic(err)
	}
	return h
}

var hashes = []hashDef{
	{"SHA-256", crypto.SHA256, sha256.New},
	{"SHA-512", crypto.SHA512, sha512.New},
	{"BLAKE2b-256", crypto.BLAKE2b_256, newBlake},
	{"SHA-1", crypto.SHA1, stdsha1.New},
}

func selfTest() error {
	if err := merklem.SelfTest(); err != nil {
		return err
	}
	for _, h := range hashes {
		if !h.ch.Available() {
			return fmt.Errorf("c15: hash %s is not linked in", h.name)
		}
		// the model's constructor and the crypto.Hash registry must name the same function
		a, b := h.mk(), h.ch.New()
		a.Write([]byte("abc"))
		b.Write([]byte("abc"))
		if !bytes.Equal(a.Sum(nil), b.Sum(nil)) {
			return fmt.Errorf("c15: constructor of %s disagrees with crypto.Hash", h.name)
		}
	}
	return nil
}

const (
	stRandom = iota
	stEmpty
	stEqual
	stOneByte
	stLong
	stPrefix
	stMixed
	stDomain // behind stMixed so that "mixed" keeps drawing from the styles before it
	numStyles
)

var styleNames = []string{"random 0..40 bytes", "all empty", "all equal", "one byte", "a few long leaves", "0x00/0x01 prefixes with node-preimage lengths", "mixed", "leaves that are hash preimages or digests of other parts of the same tree"}

type spec struct {
	hid   int
	n     int
	seed  int64
	style int
	fail  []int
}

func mkKey(hid, n int, seed int64, style int, fail []int) []byte {
	fb := make([]byte, 0, 4*len(fail))
	for _, f := range fail {
		fb = append(fb, fw.U32(uint32(f))...)
	}
	return fw.Pack([]byte{byte(hid)}, fw.U32(uint32(n)), fw.U64(uint64(seed)), []byte{byte(style)}, fb)
}

func parse(key []byte) spec {
	p := fw.Unpack(key)
	if len(p) != 5 || len(p[0]) != 1 || len(p[1]) != 4 || len(p[2]) != 8 || len(p[3]) != 1 || len(p[4])%4 != 0 {
		panic("c15: malformed key")
	}
	s := spec{hid: int(p[0][0]), n: int(fw.GetU32(p[1])), seed: int64(fw.GetU64(p[2])), style: int(p[3][0])}
	for i := 0; i+4 <= len(p[4]); i += 4 {
		s.fail = append(s.fail, int(fw.GetU32(p[4][i:])))
	}
	if s.hid >= len(hashes) || s.style >= numStyles || s.n > 1<<22 {
		panic("c15: key out of range")
	}
	for _, f := range s.fail {
		if f >= s.n {
			panic("c15: failing position out of range")
		}
	}
	return s
}

func render(class string, key []byte) interface{} {
	s := parse(key)
	m := map[string]interface{}{"hash": hashes[s.hid].name, "leaves": s.n, "payload_seed": fmt.Sprint(s.seed), "payload_style": styleNames[s.style]}
	if len(s.fail) > 0 {
		m["failing_leaves"] = s.fail
	}
	if class == "empty" {
		m = map[string]interface{}{"hash": hashes[s.hid].name, "leaves": "nil slice and empty non-nil slice"}
	}
	return m
}

// payloads returns all leaf payloads in one buffer with their offsets.
func payloads(s spec, size int, T merklem.Tree) (buf []byte, offs []int) {
	r := fw.SubRng(s.seed, "payload")
	if s.style == stDomain {
		return domainPayloads(s, r, T)
	}
	offs = make([]int, s.n+1)
	buf = make([]byte, 0, 24*s.n+64)
	equal := make([]byte, 32)
	r.Read(equal)
	long := 0
	var tmp [64]byte
	rnd := func(n int) {
		for n > 0 {
			k := n
			if k > len(tmp) {
				k = len(tmp)
			}
			r.Read(tmp[:k])
			buf = append(buf, tmp[:k]...)
			n -= k
		}
	}
	for i := 0; i < s.n; i++ {
		st := s.style
		if st == stMixed {
			st = r.Intn(stMixed)
		}
		switch st {
		case stRandom:
			rnd(r.Intn(41))
		case stEmpty:
		case stEqual:
			buf = append(buf, equal...)
		case stOneByte:
			buf = append(buf, byte(r.Intn(4)))
		case stLong:
			if (i == 0 || r.Intn(64) == 0) && long < 48 {
				long++
				rnd(500 + r.Intn(4500))
			} else {
				rnd(r.Intn(17))
			}
		case stPrefix:
			buf = append(buf, byte(r.Intn(2)))
			switch r.Intn(6) {
			case 0:
			case 1:
				rnd(size)
			case 2:
				rnd(2 * size) // 0x01 || l || r: the preimage of an inner node
			case 3:
				rnd(2*size - 1) // same length as l || r without a prefix
			case 4:
				buf = append(buf, make([]byte, 2*size)...)
			default:
				rnd(r.Intn(8))
			}
		}
		offs[i+1] = len(buf)
	}
	return buf, offs
}

// domainPayloads: second-preimage style inputs. Some leaves are ordinary short strings; each of the others is
// built from the ordinary ones next to it: the concatenation of the leaf hashes of the two leaves before or
// after it (what an inner node hashes, without its prefix), the same with the 0x01 / 0x00 prefix in front,
// the inner node's digest, a neighbour's leaf hash, a neighbour's content with the leaf prefix in front, or a
// copy of a neighbour. RFC 6962 separates all of these by the 0x00 / 0x01 prefixes.
func domainPayloads(s spec, r *rand.Rand, T merklem.Tree) (buf []byte, offs []int) {
	n := s.n
	pl := make([][]byte, n)
	derived := make([]bool, n)
	for i := range pl {
		derived[i] = r.Intn(3) == 0
		if !derived[i] {
			pl[i] = make([]byte, r.Intn(9))
			r.Read(pl[i])
		}
	}
	base := func(i int) bool { return i >= 0 && i < n && !derived[i] }
	for i := range pl {
		if !derived[i] {
			continue
		}
		a, b := i-2, i-1 // the pair before
		if r.Intn(2) == 0 {
			a, b = i+1, i+2 // the pair behind
		}
		var d []byte
		switch {
		case base(a) && base(b):
			la, lb := T.LeafHash(pl[a]), T.LeafHash(pl[b])
			switch r.Intn(5) {
			case 0, 1:
				d = append(append(d, la...), lb...)
			case 2:
				d = append(append(append(d, 1), la...), lb...)
			case 3:
				d = T.NodeHash(la, lb)
			default:
				d = append(append(append(d, 0), la...), lb...)
			}
		case base(b):
			switch r.Intn(3) {
			case 0:
				d = T.LeafHash(pl[b])
			case 1:
				d = append([]byte{0}, pl[b]...)
			default:
				d = append(d, pl[b]...)
			}
		case base(a):
			d = T.LeafHash(pl[a])
		default:
			d = []byte{byte(r.Intn(2))}
		}
		pl[i] = d
	}
	offs = make([]int, n+1)
	for i, d := range pl {
		buf = append(buf, d...)
		offs[i+1] = len(buf)
	}
	return buf, offs
}

// leafErr is the error of a failing leaf; identity is the pointer.
type leafErr struct{ idx int }

func (e *leafErr) Error() string { return fmt.Sprintf("leaf %d cannot be marshaled", e.idx) }

// leaf is an instrumented encoding.BinaryMarshaler.
type leaf struct {
	idx   int
	data  []byte
	err   error
	log   *[]int32
	cl    *callLog
	delay time.Duration
}

// callLog makes the instrumentation safe if the library marshals leaves from several goroutines,
// and records whether calls ever overlapped.
type callLog struct {
	mu       sync.Mutex
	inFlight int32
	overlap  int32
}

func (l *leaf) MarshalBinary() ([]byte, error) {
	if atomic.AddInt32(&l.cl.inFlight, 1) > 1 {
		atomic.StoreInt32(&l.cl.overlap, 1)
	}
	defer atomic.AddInt32(&l.cl.inFlight, -1)
	l.cl.mu.Lock()
	*l.log = append(*l.log, int32(l.idx))
	l.cl.mu.Unlock()
	if l.delay > 0 {
		time.Sleep(l.delay) // injected delay: the leaf that fails first in leaf order is slow
	}
	if l.err != nil {
		return nil, l.err
	}
	return l.data, nil
}

// shared Hasher objects: a Hasher is used for many calls, from several goroutines (ordinary use)
var sharedH [8]*merkle.Hasher
var sharedOnce sync.Once

func hasherFor(hid int, ch crypto.Hash, seed int64) *merkle.Hasher {
	sharedOnce.Do(func() {
		for i, h := range hashes {
			sharedH[i] = merkle.NewHasher(h.ch)
		}
	})
	if seed%4 == 0 {
		return merkle.NewHasher(ch)
	}
	return sharedH[hid]
}

// nestedLeaf computes the root of a small tree with the same Hasher inside its MarshalBinary.
type nestedLeaf struct {
	h    *merkle.Hasher
	sub  [][]byte
	want []byte
	data []byte
	bad  *int32
}

func (l *nestedLeaf) MarshalBinary() ([]byte, error) {
	leaves := make([]encoding.BinaryMarshaler, len(l.sub))
	for i, d := range l.sub {
		leaves[i] = rawLeaf(d)
	}
	got, err := l.h.Hash(leaves)
	if err != nil || !bytes.Equal(got, l.want) {
		atomic.StoreInt32(l.bad, 1)
	}
	return l.data, nil
}

// rawLeaf is a second, value-typed marshaler over the same bytes.
type rawLeaf []byte

func (l rawLeaf) MarshalBinary() ([]byte, error) { return l, nil }

func pow2(n int) bool { return n > 0 && n&(n-1) == 0 }

// splitPoint is the largest power of two strictly below n (n >= 2).
func splitPoint(n int) int {
	k := 1
	for 2*k < n {
		k *= 2
	}
	return k
}

func judge(class string, key []byte, o *fw.Obs) {
	s := parse(key)
	hd := hashes[s.hid]
	T := merklem.Tree{New: hd.mk}
	size := hd.mk().Size()
	n := s.n
	if class == "sweep" && n >= 3 && !pow2(n) {
		o.Nontrivial()
	}

	if class == "empty" {
		var r1, r2, er []byte
		var e1, e2 error
		var sz int
		if !o.Try("Hasher.Hash/EmptyRoot", func() {
			H := merkle.NewHasher(hd.ch)
			r1, e1 = H.Hash(nil)
			r2, e2 = H.Hash([]encoding.BinaryMarshaler{})
			er = H.EmptyRoot()
			sz = H.Size()
		}) {
			return
		}
		want := T.Empty()
		if e1 != nil || !bytes.Equal(r1, want) || !bytes.Equal(er, want) {
			o.Fail("empty", "%s: Hash(nil) = %x (err=%v), EmptyRoot() = %x, H() = %x", hd.name, r1, e1, er, want)
			return
		}
		o.Count("Hash(nil) == EmptyRoot() == H()")
		if e2 != nil || !bytes.Equal(r2, want) {
			o.Fail("empty", "%s: Hash of an empty slice = %x (err=%v), H() = %x", hd.name, r2, e2, want)
			return
		}
		o.Count("Hash(empty slice) == H()")
		if sz != size {
			o.Fail("size", "%s: Size() = %d, digest length %d", hd.name, sz, size)
		}
		return
	}

	buf, offs := payloads(s, size, T)
	pristine := append([]byte(nil), buf...)
	at := func(b []byte, i int) []byte { return b[offs[i]:offs[i+1]:offs[i+1]] }

	var log []int32
	cl := &callLog{}
	ls := make([]leaf, n+2)
	backing := make([]encoding.BinaryMarshaler, n+2)
	for i := 0; i < n; i++ {
		ls[i] = leaf{idx: i, data: at(buf, i), log: &log, cl: cl}
		backing[i] = &ls[i]
	}
	// two more elements behind the length of the slice handed over
	for i := n; i < n+2; i++ {
		ls[i] = leaf{idx: -1 - (i - n), data: []byte("behind the slice"), log: &log, cl: cl}
		backing[i] = &ls[i]
	}
	var errs []*leafErr
	lowestFail := -1
	for _, f := range s.fail {
		e := &leafErr{idx: f}
		errs = append(errs, e)
		ls[f].err = e
		if lowestFail < 0 || f < lowestFail {
			lowestFail = f
		}
	}
	if lowestFail >= 0 && len(s.fail) > 1 && s.seed%2 == 0 {
		ls[lowestFail].delay = 3 * time.Millisecond
	}
	data := backing[:n]

	var root []byte
	var err error
	var H *merkle.Hasher
	if !o.Try("Hasher.Hash", func() {
		H = hasherFor(s.hid, hd.ch, s.seed)
		root, err = H.Hash(data)
	}) {
		return
	}
	kept.Keep(fmt.Sprintf("root returned by Hash (%s, n=%d)", hd.name, n), root)
	defer kept.Check(o)

	// the inputs must be as before
	for i := 0; i < n+2; i++ {
		if backing[i] != encoding.BinaryMarshaler(&ls[i]) {
			o.Fail("mutation", "%s n=%d: element %d of the leaf slice (length %d, capacity %d) was replaced", hd.name, n, i, n, n+2)
			return
		}
	}
	for i := 0; i < n; i++ {
		l := &ls[i]
		if l.idx != i || len(l.data) != offs[i+1]-offs[i] || !bytes.Equal(l.data, at(pristine, i)) || (len(l.data) > 0 && &l.data[0] != &buf[offs[i]]) {
			o.Fail("mutation", "%s n=%d: payload of leaf %d was modified: %x, before the call %x", hd.name, n, i, l.data, at(pristine, i))
			return
		}
	}
	if !bytes.Equal(buf, pristine) {
		o.Fail("mutation", "%s n=%d: payload bytes were modified", hd.name, n)
		return
	}
	for _, c := range log {
		if c < 0 {
			o.Fail("mutation", "%s n=%d: an element behind the length of the slice was marshaled", hd.name, n)
			return
		}
	}
	o.Count("inputs unchanged")

	if class == "fail" {
		if err == nil {
			o.Fail("error", "%s n=%d: leaves %v fail to marshal but Hash returned %x without error", hd.name, n, s.fail, root)
			return
		}
		if len(root) != 0 {
			o.Fail("error", "%s n=%d: a hash (%x) was returned together with the error %v", hd.name, n, root, err)
			return
		}
		lowest := errs[0]
		for _, e := range errs {
			if e.idx < lowest.idx {
				lowest = e
			}
		}
		// the first failing call in the order the library made its calls
		var firstCalled *leafErr
		for _, c := range log {
			if ls[c].err != nil {
				firstCalled = ls[c].err.(*leafErr)
				break
			}
		}
		isLowest := errors.Is(err, lowest)
		// "first" in the order of the calls is only well defined when the library marshals sequentially
		isFirstCalled := firstCalled != nil && errors.Is(err, firstCalled) && atomic.LoadInt32(&cl.overlap) == 0
		if !isLowest && !isFirstCalled {
			fc := "none"
			if firstCalled != nil {
				fc = fmt.Sprint(firstCalled.idx)
			}
			o.Fail("error", "%s n=%d failing leaves %v: Hash returned %q; the first marshaling error is that of leaf %d (first failing call made: leaf %s)", hd.name, n, s.fail, err, lowest.idx, fc)
			return
		}
		if isLowest {
			o.Count("fail: error of the lowest failing index returned, no hash")
		} else {
			o.Count("fail: error of the first failing call returned (not the lowest index), no hash")
		}
		if len(errs) > 1 {
			o.Count("fail: several failing leaves")
		}
		return
	}

	if err != nil {
		o.Fail("error", "%s n=%d: Hash failed: %v", hd.name, n, err)
		return
	}
	lh := make([][]byte, n)
	for i := range lh {
		lh[i] = T.LeafHash(at(pristine, i))
	}
	want := T.RootOfHashes(lh)
	if !bytes.Equal(root, want) {
		k := 0
		if n >= 2 {
			k = splitPoint(n)
		}
		o.Fail("root", "%s n=%d (style %s): Hash = %x, bottom-up RFC 6962 root = %x (split point of the top node: %d)", hd.name, n, styleNames[s.style], root, want, k)
		return
	}
	o.Count("root == model root")
	if !pow2(n) && n >= 3 {
		o.Count("root == model root, n not a power of two")
	}
	if len(root) != size {
		o.Fail("size", "%s: digest length %d", hd.name, len(root))
		return
	}
	inOrder := len(log) == n
	for i := 0; inOrder && i < n; i++ {
		inOrder = int(log[i]) == i
	}
	if inOrder {
		o.Count("leaves marshaled once each in index order")
	} else {
		o.Count("leaves marshaled in another order or more than once (not a violation)")
	}

	// audit paths of the model against the library's root
	if n >= 1 {
		L := T.Levels(lh)
		r := fw.SubRng(s.seed, "paths")
		idxs := []int{0, n - 1, n / 2}
		if n >= 2 {
			k := splitPoint(n)
			idxs = append(idxs, k-1, k)
			if k+1 < n {
				idxs = append(idxs, k+1)
			}
		}
		for j := 0; j < 3; j++ {
			idxs = append(idxs, r.Intn(n))
		}
		for _, m := range idxs {
			p, ok := L.Path(m)
			if !ok {
				panic("c15: model produced no path")
			}
			got, ok := T.RootFromPath(uint64(m), uint64(n), lh[m], p)
			if !ok || !bytes.Equal(got, root) {
				o.Fail("path", "%s n=%d: the RFC 6962 audit path of leaf %d (%d elements) leads to %x, Hash returned %x", hd.name, n, m, len(p), got, root)
				return
			}
			o.Count("audit path verifies against the library root")
		}
	}

	// the same bytes behind another Go type
	if n <= 4096 {
		data2 := make([]encoding.BinaryMarshaler, n)
		nestedBad := int32(0)
		for i := range data2 {
			switch {
			case i%3 == 2 && i%5 != 0:
				// a leaf that is itself the root of a small tree: its MarshalBinary calls back into the SAME
				// Hasher (re-entrant use) before it returns its bytes
				sub := [][]byte{at(buf, i), {byte(i)}, nil}
				data2[i] = &nestedLeaf{h: H, sub: sub, want: T.Root(sub), data: at(buf, i), bad: &nestedBad}
			case i%2 == 0:
				d := at(buf, i)
				if len(d) == 0 && i%4 == 0 {
					d = nil // nil instead of empty
				}
				data2[i] = rawLeaf(d)
			default:
				data2[i] = &leaf{idx: i, data: at(buf, i), log: &log, cl: cl}
			}
		}
		var root2 []byte
		if !o.Try("Hasher.Hash (second call)", func() { root2, err = H.Hash(data2) }) {
			return
		}
		if err != nil || !bytes.Equal(root2, root) {
			o.Fail("determinism", "%s n=%d: a second call over the same marshaled bytes (other leaf types) returned %x err=%v, first call %x", hd.name, n, root2, err, root)
			return
		}
		if atomic.LoadInt32(&nestedBad) != 0 {
			o.Fail("root", "%s n=%d: a nested Hash call made from inside a leaf's MarshalBinary on the same Hasher (a 3-leaf tree) returned an error or a root different from the RFC 6962 root", hd.name, n)
			return
		}
		o.Count("same root from leaves of another type")
		if n > 2 {
			o.Count("re-entrant Hash calls from inside MarshalBinary")
		}
	}
}

// ---------------------------------------------------------------------------

type hn struct{ hid, n int }

func sweepList(g *fw.Gen) []hn {
	var list []hn
	seen := map[hn]bool{}
	add := func(hid, n int) {
		if n < 0 || seen[hn{hid, n}] {
			return
		}
		seen[hn{hid, n}] = true
		list = append(list, hn{hid, n})
	}
	full256, fullOther, kmax := g.Scaled(g.Pick(1500, 20000)), g.Scaled(g.Pick(300, 4000)), g.Pick(14, 18)
	for n := 0; n <= full256; n++ {
		add(0, n)
		for hid := 1; hid < len(hashes); hid++ {
			if n <= fullOther || (n+hid)%5 == 0 {
				add(hid, n)
			}
		}
	}
	for k := 1; k <= kmax; k++ {
		for d := -1; d <= 1; d++ {
			for hid := range hashes {
				add(hid, 1<<uint(k)+d)
			}
		}
	}
	// large leaf counts for SHA-256 only: around higher powers of two and sums of two powers (+0, +1, +2),
	// i.e. tree shapes whose split decisions involve high bits of n
	kbig := g.Pick(18, 20)
	if g.Build == "386" {
		kbig = 16 // the largest lists are hashed on the native build only
	}
	for k := kmax + 1; k <= kbig; k++ {
		for d := -1; d <= 2; d++ {
			add(0, 1<<uint(k)+d)
		}
	}
	for a := 15; a < kbig; a++ {
		for _, b := range []int{0, 1, 7, 8, 9, a - 1} {
			if b >= a {
				continue
			}
			for d := 0; d <= 1; d++ {
				add(0, 1<<uint(a)+1<<uint(b)+d)
			}
		}
		add(0, 3<<uint(a-1)+1)
	}
	return list
}

func failPositions(r *rand.Rand, n int) []int {
	cand := []int{0, n - 1, r.Intn(n), r.Intn(n), r.Intn(n)}
	if n >= 2 {
		k := splitPoint(n)
		cand = append(cand, k-1, k)
		if k+1 < n {
			cand = append(cand, k+1)
		}
	}
	want := 1 + r.Intn(4)
	var out []int
	used := map[int]bool{}
	for tries := 0; len(out) < want && tries < 20; tries++ {
		c := cand[r.Intn(len(cand))]
		if !used[c] {
			used[c] = true
			out = append(out, c)
		}
	}
	return out
}

func randN(r *rand.Rand, max int) int {
	switch r.Intn(6) {
	case 0:
		return 1 + r.Intn(9)
	case 1:
		// around a power of two
		k := 1 << uint(1+r.Intn(11))
		n := k + r.Intn(5) - 2
		if n < 1 {
			n = 1
		}
		if n > max {
			n = max
		}
		return n
	default:
		return 1 + r.Intn(max)
	}
}

func gen(g *fw.Gen) {
	for i := range hashes {
		if g.Own(i) {
			g.Emit("empty", mkKey(i, 0, 0, 0, nil))
		}
	}
	for i, e := range sweepList(g) {
		if !g.Own(i) {
			continue
		}
		g.Emit("sweep", mkKey(e.hid, e.n, g.Rng.Int63(), (e.n+e.hid)%numStyles, nil))
	}
	for c := g.ShareOf(4000, 400000); c > 0; c-- {
		hid := g.Rng.Intn(len(hashes))
		if g.Rng.Intn(2) == 0 {
			hid = 0
		}
		g.Emit("style", mkKey(hid, randN(g.Rng, 3000), g.Rng.Int63(), c%numStyles, nil))
	}
	for c := g.ShareOf(6000, 600000); c > 0; c-- {
		hid := g.Rng.Intn(len(hashes))
		n := randN(g.Rng, 3000)
		if c%40 == 0 {
			n = 4096 + g.Rng.Intn(12000) // large lists: failing leaves far apart
		}
		g.Emit("fail", mkKey(hid, n, g.Rng.Int63(), g.Rng.Intn(numStyles), failPositions(g.Rng, n)))
	}
}
