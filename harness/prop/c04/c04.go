// Package c04 monitors bech32.Decode two-sidedly against the BIP-173 model in
// harness/oracle/bech32m: verdict, outputs, canonical re-encoding, range of the
// reported error position, absence of panics.
package c04

import (
	"bytes"
	"errors"
	"fmt"
	"math/rand"
	"strings"

	"github.com/wollac/iota-crypto-demo/pkg/bech32"

	"verif/harness/fw"
	"verif/harness/oracle/bech32m"
	"verif/harness/prop/bechscan"
)

var residuesPad = []int{2, 4, 5, 7} // data symbol counts mod 8 that leave 1..4 padding bits
var residuesBad = []int{1, 3, 6}    // ... that leave 5 or more bits: never whole bytes
const cPadOnly = "checksum-valid per BIP-173, rejected only for padding/regrouping"

func init() {
	req := []string{"model=accept impl=accept", "model=reject impl=reject", cPadOnly,
		"error carries an offset", "accepted at total length 90", "too long (91+) but otherwise valid",
		"accepted in upper case", "non-ASCII input"}
	for _, r := range residuesPad {
		req = append(req, fmt.Sprintf("non-zero padding rejected, data symbols mod 8 = %d", r))
		req = append(req, fmt.Sprintf("accepted, data symbols mod 8 = %d", r))
	}
	for _, r := range residuesBad {
		req = append(req, fmt.Sprintf("incomplete group rejected, data symbols mod 8 = %d", r))
	}
	fw.Register(&fw.Prop{
		ID:                  "C04",
		DeadlockIsViolation: true,                       // the calls of this property are synchronous functions of their inputs: a call blocked for good inside the library is a violation
		Builds:              []string{"default", "386"}, // the 386 build runs a quarter of the random classes on a 32-bit target
		Parallel:            4,                          // cases are judged on 4 goroutines per shard: the library functions are stateless, shared state inside them shows up as wrong verdicts
		Rule: "strings built by the model encoder from arbitrary 5-bit symbol sequences of every length 0..84 (random symbols, whole-byte data, forced zero / non-zero padding) under human-readable parts of 1..83 characters over 33..126 (with '1' inside, digits only, lower or upper case), total lengths on both sides of 90; " +
			"mutations of them: upper-casing, one letter in the other case, substitution by any byte 0..255, by another charset character, insertion, deletion, truncation around the checksum, separator removed / first / last, white space, multi-byte runes whose case mapping changes the byte length (U+212A, U+0130, U+0131, U+017F) put in place of k/i/s and inserted before and after the separator, invalid UTF-8; uniformly random byte strings and random charset strings. " +
			"Every Decode call is judged two-sidedly against the model (accept iff BIP-173-valid and the data regroups 5->8 without padding violation), outputs compared, Encode(hrp, data) compared with the lower-cased input, SyntaxError.Offset required in [0, len]. " +
			"Non-trivial: distinct inputs that are checksum-valid per the model or contain a byte >= 0x80.",
		Assumptions: []string{"the BIP-173 port in harness/oracle/bech32m (self-tested against the test vectors published in BIP-173, including the segwit addresses for the 5<->8 regrouping)"},
		SelfTest:    bech32m.SelfTest,
		Gen:         gen,
		Judge:       judge,
		Render:      render,
		Required:    req,
	})
}

func render(class string, key []byte) interface{} {
	if class == "acceptset" {
		p := fw.Unpack(key)
		return map[string]interface{}{"base_string": bechscan.Base(fw.GetU64(p[0])), "mode": map[byte]string{0: "targeted constants", 1: "chunk of 2^22 checksum values"}[p[1][0]], "chunk": fw.GetU32(p[2])}
	}
	return map[string]interface{}{"string": fmt.Sprintf("%+q", string(key)), "hex": fw.Hex(key), "length": len(key)}
}

func ar(b bool) string {
	if b {
		return "accept"
	}
	return "reject"
}

func hasNonASCII(s string) bool {
	for i := 0; i < len(s); i++ {
		if s[i] >= 0x80 {
			return true
		}
	}
	return false
}

// judgeAcceptSet scans checksum values of one valid string (see package bechscan): Decode must
// accept exactly the one string whose checksum polymod is 1.
func judgeAcceptSet(key []byte, o *fw.Obs) {
	p := fw.Unpack(key)
	seed, mode, chunk := fw.GetU64(p[0]), p[1][0], fw.GetU32(p[2])
	o.Nontrivial()
	b := bechscan.Base(seed)
	var next func() uint32
	if mode == 0 {
		list := bechscan.Targeted()
		i := 0
		next = func() uint32 {
			if i >= len(list) {
				return 0
			}
			i++
			return list[i-1]
		}
	} else {
		d, end := chunk<<22, (chunk+1)<<22
		next = func() uint32 {
			if d == 0 {
				d = 1
			}
			if d >= end {
				return 0
			}
			d++
			return d - 1
		}
	}
	var acc []uint32
	var tried int64
	if !o.Try("bech32.Decode", func() {
		if _, _, err := bech32.Decode(b); err != nil {
			o.Fail("verdict", "Decode(%q): the valid string is rejected: %v", b, err)
			return
		}
		acc, tried = bechscan.Scan(b, next, func(s string) bool { _, _, err := bech32.Decode(s); return err == nil })
	}) {
		return
	}
	o.Add("acceptance-set scan: checksum values tried", tried)
	o.Count("acceptance-set scan cases")
	for _, d := range acc {
		o.Fail("verdict", "Decode accepts %s, a string with an invalid checksum (it differs from the valid string %q in the checksum characters only)", bechscan.Describe(b, d), b)
		return
	}
}

var kept fw.Keeper

func judge(class string, key []byte, o *fw.Obs) {
	if class == "acceptset" {
		judgeAcceptSet(key, o)
		return
	}
	s := string(key)
	mhrp, mdata, reason := bech32m.DecodeBytesReason(s)
	mok := reason == bech32m.OK
	ckValid := mok || reason == bech32m.RIncomplete || reason == bech32m.RNonZeroPad
	nonASCII := hasNonASCII(s)
	if ckValid || nonASCII {
		o.Nontrivial()
	}
	if nonASCII {
		o.Count("non-ASCII input")
	}
	nsym := -1
	if ckValid {
		_, syms, _ := bech32m.Decode(s)
		nsym = len(syms)
	}

	var hrp string
	var data []byte
	var err error
	if !o.Try("bech32.Decode", func() { hrp, data, err = bech32.Decode(s) }) {
		return
	}
	iok := err == nil
	kept.Keep(fmt.Sprintf("data returned by Decode(%+q)", s), data)
	defer kept.Check(o)
	o.Count(fmt.Sprintf("model=%s impl=%s", ar(mok), ar(iok)))
	if !mok {
		o.Count("model rejects: " + reason)
	}
	if mok != iok {
		vc := "verdict"
		note := ""
		if nonASCII {
			vc = "verdict-nonascii"
			note = " (the input contains a non-ASCII byte)"
		}
		o.Fail(vc, "Decode(%+q): BIP-173 model says %s (%s), implementation %s%s (err=%v, hrp=%+q, data=%x)",
			s, ar(mok), reason, ar(iok), note, err, hrp, data)
		return
	}
	if !iok {
		if ckValid {
			o.Count(cPadOnly)
			if reason == bech32m.RNonZeroPad {
				o.Count(fmt.Sprintf("non-zero padding rejected, data symbols mod 8 = %d", nsym%8))
			} else {
				o.Count(fmt.Sprintf("incomplete group rejected, data symbols mod 8 = %d", nsym%8))
			}
		}
		if reason == bech32m.RTooLong {
			if _, _, r2 := bech32m.DecodeAnyLength(s); r2 == bech32m.OK {
				o.Count("too long (91+) but otherwise valid")
			}
		}
		var se *bech32.SyntaxError
		if errors.As(err, &se) && se != nil {
			o.Count("error carries an offset")
			if se.Offset < 0 || se.Offset > len(s) {
				vc := "offset"
				if nonASCII {
					vc = "offset-nonascii"
				}
				o.Fail(vc, "Decode(%+q) (%d bytes): the error %+q carries Offset %d, outside [0, %d]", s, len(s), err.Error(), se.Offset, len(s))
			}
		}
		return
	}
	// accepted by both
	if hrp != mhrp || !bytes.Equal(data, mdata) {
		o.Fail("value", "Decode(%+q) = (%+q, %x), the model decodes (%+q, %x)", s, hrp, data, mhrp, mdata)
		return
	}
	o.Count(fmt.Sprintf("accepted, data symbols mod 8 = %d", nsym%8))
	if len(s) == bech32m.MaxLen {
		o.Count("accepted at total length 90")
	}
	if bech32m.HasUpper(s) {
		o.Count("accepted in upper case")
	}
	var back string
	if !o.Try("bech32.Encode", func() { back, err = bech32.Encode(hrp, data) }) {
		return
	}
	if err != nil || back != bech32m.Lower(s) {
		o.Fail("reencode", "Decode(%+q) succeeded with (%+q, %x) but Encode of that gives %+q, err=%v; expected the lower-cased input", s, hrp, data, back, err)
	}
}

// ---------------------------------------------------------------------------
// generators

const letters = "abcdefghijklmnopqrstuvwxyz"

// randHRP returns n characters over 33..126 without upper-case letters.
func randHRP(r *rand.Rand, n int) string {
	if r.Intn(12) == 0 { // a human-readable part an implementation may treat specially, if one has this length
		var fit []string
		for _, h := range bechscan.WellKnownHRPs {
			if len(h) == n {
				fit = append(fit, h)
			}
		}
		if len(fit) > 0 {
			return fit[r.Intn(len(fit))]
		}
	}
	b := make([]byte, n)
	mode := r.Intn(6)
	for i := range b {
		var c byte
		switch mode {
		case 0: // letters and digits
			if r.Intn(4) == 0 {
				c = byte('0' + r.Intn(10))
			} else {
				c = letters[r.Intn(26)]
			}
		case 1: // digits only (no case at all), many separators
			c = byte('0' + r.Intn(10))
		case 2: // letters the charset excludes and letters with special case mappings
			c = "bio1ks"[r.Intn(6)]
		default:
			c = byte(33 + r.Intn(94))
		}
		if c >= 'A' && c <= 'Z' {
			c += 32
		}
		b[i] = c
	}
	if n > 1 && r.Intn(3) == 0 {
		b[r.Intn(n)] = '1'
	}
	return string(b)
}

func randSyms(r *rand.Rand, n int) []byte {
	b := make([]byte, n)
	switch r.Intn(8) {
	case 0:
		// all zero
	case 1:
		for i := range b {
			b[i] = 31
		}
	default:
		for i := range b {
			b[i] = byte(r.Intn(32))
		}
	}
	if n == 0 {
		return b
	}
	// padding bits of the last symbol
	pad := uint(n*5) % 8 // left-over bits
	if pad >= 1 && pad <= 4 {
		switch r.Intn(4) {
		case 0, 1: // zero padding: a whole-byte encoding
			b[n-1] &^= byte(1<<pad - 1)
		case 2: // some non-zero pattern, every pattern equally likely
			b[n-1] = b[n-1]&^byte(1<<pad-1) | byte(1+r.Intn(1<<pad-1))
		}
	}
	// make sure letters with a multi-byte case partner occur in the data part
	if r.Intn(4) == 0 {
		b[r.Intn(n)] = 22 // 'k'
	}
	if r.Intn(8) == 0 {
		b[r.Intn(n)] = 16 // 's'
	}
	return b
}

// base builds a model-encoded string of nsym data symbols.
func base(r *rand.Rand, nsym int) string {
	hmax := bech32m.MaxLen - 1 - bech32m.ChecksumLen - nsym // largest hrp that fits
	var hl int
	switch {
	case hmax < 1:
		hl = 1 + r.Intn(3) // over-long whatever we do
	default:
		switch r.Intn(10) {
		case 0:
			hl = hmax // total exactly 90
		case 1:
			hl = hmax + 1 // 91
		case 2:
			hl = hmax + 1 + r.Intn(12)
		case 3:
			hl = 1
		case 4:
			if hmax > 1 {
				hl = hmax - 1
			} else {
				hl = 1
			}
		default:
			hl = 1 + r.Intn(hmax)
		}
	}
	s := bech32m.EncodeSymbols(randHRP(r, hl), randSyms(r, nsym))
	return s
}

// KELVIN SIGN, I WITH DOT ABOVE, DOTLESS I, LONG S, e acute, ANGSTROM SIGN, an emoji, COMBINING DOT ABOVE
var oddRunes = []string{"\u212a", "\u0130", "\u0131", "\u017f", "\u00e9", "\u212b", "\U0001f600", "\u0307"}
var badUTF8 = []string{"\x80", "\xff", "\xc0", "\xef", "\xe2\x84", "\xc4", "\xed\xa0\x80", "\xf8", "\xc0\xaa"}

func replaceAt(s string, i int, with string) string { return s[:i] + with + s[i+1:] }
func insertAt(s string, i int, what string) string  { return s[:i] + what + s[i:] }

// positions of the letter c (given in lower case) in s[from:to], in either case
func positions(s string, from, to int, c byte) []int {
	var p []int
	for i := from; i < to && i < len(s); i++ {
		if s[i] == c || s[i] == c-32 {
			p = append(p, i)
		}
	}
	return p
}

func emitS(g *fw.Gen, class, s string) { g.Emit(class, []byte(s)) }

// variants emits a model-built string and its mutations.
func variants(g *fw.Gen, s string) {
	r := g.Rng
	emitS(g, "encoded", s)
	up := bech32m.Upper(s)
	emitS(g, "encoded", up)
	sep := strings.LastIndexByte(s, '1')
	if sep < 0 {
		return
	}
	pick := func() string { // the string in one of its two cases
		if r.Intn(3) == 0 {
			return up
		}
		return s
	}
	n := len(s)
	// one letter in the other case
	{
		t := []byte(pick())
		for try := 0; try < 8; try++ {
			i := r.Intn(n)
			if c := t[i] | 0x20; c >= 'a' && c <= 'z' {
				t[i] ^= 0x20
				emitS(g, "mutated", string(t))
				break
			}
		}
	}
	// substitutions
	emitS(g, "mutated", replaceAt(pick(), r.Intn(n), string([]byte{byte(r.Intn(256))})))
	emitS(g, "mutated", replaceAt(pick(), r.Intn(n), string([]byte{byte(r.Intn(256))})))
	if n > sep+1 {
		i := sep + 1 + r.Intn(n-sep-1)
		emitS(g, "mutated", replaceAt(s, i, string(bech32m.Charset[r.Intn(32)])))
	}
	// insertion / deletion
	emitS(g, "mutated", insertAt(pick(), r.Intn(n+1), string([]byte{byte(r.Intn(256))})))
	emitS(g, "mutated", insertAt(s, sep+1+r.Intn(n-sep), string(bech32m.Charset[r.Intn(32)])))
	{
		i := r.Intn(n)
		emitS(g, "mutated", s[:i]+s[i+1:])
	}
	// truncation around the checksum
	emitS(g, "mutated", pick()[:n-1-r.Intn(8)%n])
	if k := sep + 1 + r.Intn(8); k <= n {
		emitS(g, "mutated", s[:k])
	}
	// separator games
	switch r.Intn(6) {
	case 0:
		emitS(g, "mutated", s[:sep]+s[sep+1:])
	case 1:
		emitS(g, "mutated", strings.ReplaceAll(s, "1", "l"))
	case 2:
		emitS(g, "mutated", s[sep:])
	case 3:
		emitS(g, "mutated", pick()+"1")
	case 4:
		emitS(g, "mutated", "1"+s)
	default:
		emitS(g, "mutated", s[:sep]+"1"+s[sep:])
	}
	// white space and control characters around / inside
	switch r.Intn(8) {
	case 0:
		emitS(g, "mutated", " "+s)
	case 1:
		emitS(g, "mutated", s+"\n")
	case 2:
		emitS(g, "mutated", s+"\x00")
	case 3:
		emitS(g, "mutated", insertAt(s, r.Intn(n+1), "\x7f"))
	}
	// multi-byte runes in place of the letters they case-map to, in the case
	// in which the mapping applies (upper-case string: K -> U+212A, I -> U+0130;
	// lower-case string: s -> U+017F, i -> U+0131)
	type sub struct {
		str  string
		c    byte
		with string
	}
	for _, sb := range []sub{{up, 'k', "\u212a"}, {up, 'i', "\u0130"}, {s, 's', "\u017f"}, {s, 'i', "\u0131"}, {s, 'k', "\u212a"}, {up, 's', "\u017f"}} {
		for _, rng := range [][2]int{{0, sep}, {sep + 1, n}} {
			ps := positions(sb.str, rng[0], rng[1], sb.c)
			if len(ps) == 0 {
				continue
			}
			emitS(g, "unicode", replaceAt(sb.str, ps[r.Intn(len(ps))], sb.with))
			if len(ps) > 1 && r.Intn(2) == 0 {
				t := sb.str
				for k := len(ps) - 1; k >= 0; k-- {
					t = replaceAt(t, ps[k], sb.with)
				}
				emitS(g, "unicode", t)
			}
		}
	}
	// the same runes and broken UTF-8 inserted / substituted before and after the separator
	{
		t := pick()
		emitS(g, "unicode", insertAt(t, r.Intn(sep+1), oddRunes[r.Intn(len(oddRunes))]))
		emitS(g, "unicode", insertAt(t, sep+1+r.Intn(n-sep), oddRunes[r.Intn(len(oddRunes))]))
		emitS(g, "unicode", replaceAt(t, r.Intn(n), oddRunes[r.Intn(len(oddRunes))]))
		emitS(g, "unicode", insertAt(t, r.Intn(n+1), badUTF8[r.Intn(len(badUTF8))]))
		emitS(g, "unicode", replaceAt(t, r.Intn(n), badUTF8[r.Intn(len(badUTF8))]))
	}
}

// short strings around the minimal length, where a shrinking lower-cased copy
// matters most (hrp + separator + a few characters)
func shortUnicode(g *fw.Gen) {
	r := g.Rng
	hl := 1 + r.Intn(3)
	hrp := bech32m.Upper(randHRP(r, hl))
	nd := r.Intn(9)
	d := make([]byte, nd)
	for i := range d {
		d[i] = bech32m.Charset[r.Intn(32)]
	}
	t := hrp + "1" + strings.ToUpper(string(d))
	if r.Intn(2) == 0 {
		t = bech32m.Lower(t)
	}
	for k := 1 + r.Intn(3); k > 0; k-- {
		t = insertAt(t, len(hrp)+1+r.Intn(len(t)-len(hrp)), oddRunes[r.Intn(4)])
	}
	emitS(g, "unicode", t)
}

func gen(g *fw.Gen) {
	r := g.Rng
	// acceptance-set scan: targeted constants on every shard, one random 2^22 chunk of checksum values per shard
	// (quick) or all 256 chunks = every one of the 2^30 checksum values of one string (thorough)
	g.Emit("acceptset", fw.Pack(fw.U64(r.Uint64()), []byte{0}, fw.U32(0)))
	if g.Build == "386" {
		// the scan of checksum values is run on the native build only
	} else if g.Quick() {
		g.Emit("acceptset", fw.Pack(fw.U64(r.Uint64()), []byte{1}, fw.U32(uint32(r.Intn(256)))))
	} else {
		for c := 0; c < 256; c++ {
			if g.Own(c) {
				g.Emit("acceptset", fw.Pack(fw.U64(uint64(g.Seed)+77), []byte{1}, fw.U32(uint32(c))))
			}
		}
	}
	// every symbol count 0..84, several times over
	reps := g.Scaled(g.Pick(600, 54000))
	idx := 0
	for rep := 0; rep < reps; rep++ {
		for nsym := 0; nsym <= 84; nsym++ {
			if g.Own(idx) {
				variants(g, base(r, nsym))
			}
			idx++
		}
	}
	// whole-byte data of every length that fits, through the 8->5 regrouping of the model
	for n := g.ShareOf(50000, 4500000); n > 0; n-- {
		nb := r.Intn(53)
		syms, _ := bech32m.ConvertBits(g.Bytes(nb), 8, 5, true)
		hmax := bech32m.MaxLen - 7 - len(syms)
		hl := 1
		if hmax > 1 {
			hl = 1 + r.Intn(hmax)
			if r.Intn(4) == 0 {
				hl = hmax
			}
		}
		variants(g, bech32m.EncodeSymbols(randHRP(r, hl), syms))
	}
	for n := g.ShareOf(250000, 22000000); n > 0; n-- {
		shortUnicode(g)
	}
	// random byte strings and random strings over the charset and a few specials
	alpha := bech32m.Charset + "11bioBIO QPZ\x00\x80\xff"
	for n := g.ShareOf(1200000, 100000000); n > 0; n-- {
		var b []byte
		if n%4 == 0 {
			b = g.Bytes(r.Intn(100))
		} else {
			b = make([]byte, r.Intn(100))
			for i := range b {
				b[i] = alpha[r.Intn(len(alpha))]
			}
		}
		g.Emit("random", b)
	}
}
