// Package c12 monitors PoW v2: soundness of returned nonces, the "never passes
// over a nonce that qualifies with margin" rule at lane and at block level,
// toInt and Score against exact big-integer definitions.
package c12

import (
	"bytes"
	"context"
	"encoding/binary"
	"fmt"
	"math"
	"math/big"
	"math/bits"
	"sync"
	"sync/atomic"
	"time"

	powv2 "github.com/wollac/iota-crypto-demo/pkg/pow/v2"
	"golang.org/x/crypto/blake2b"

	"verif/harness/fw"
	"verif/harness/oracle/curlp"
)

func init() {
	fw.Register(&fw.Prop{
		ID:     "C12",
		Builds: []string{"default", "386"}, // the 386 build runs a quarter of the random classes on a 32-bit target
		Rule: "lane (hook level): message lengths 8..65536 and targets t such that lx = len*t spans 8..2^64-1 including 3^k-1, 3^k, 3^k+1, the 64-bit edge and lx uniform in [3^40, 2^64) where 3^41 no longer fits 64 bits; s and T are obtained from the real sufficientTrailingZeros/targetHash exactly as Mine does (not asserted); 64-lane bit-plane states with lanes drawn from: random trits, exactly s-2, s-1, s, s+1, 243 trailing zeros, s-1 zeros with hash in {T-1, T, T+1}, hashes whose difficulty equals lx exactly / lx+1 / lx-1, all-zero and all-(-1) hashes, placed at lane 0, lane 63, several lanes, no lane. Oracle: a returned lane i < 64 must have difficulty floor(3^243/h_i) >= lx; a return of 64 means no lane has difficulty > lx. toint: toInt(trits) == 1 + sum d_i 3^i. score: Score(msg) == min(floor(d/len), 2^64-1) with d from the model hash. mine: Mine(1 worker, len*t from 8 up to 3^10 so that scans cover hundreds of 64-nonce blocks) must return a nonce with Score >= t and no nonce in the 64-blocks before the returned one's block may have difficulty > lx (every skipped nonce is re-hashed by a bit-sliced 64-lane model that is self-tested against the single-lane one); Mine(2..16 workers) soundness; t = 0 returns at once; bigmine: the same with data of 8 KiB..128 KiB whose length is within 72 of m*2^j (j = 13..16, m = 1..2), targets 1..3, 1..8 workers. shared: two demanding Mine calls (lx just below a power of three) and a looping easy one run concurrently on ONE *Worker; every returned nonce must meet its own target. " +
			"Non-trivial: lane cases that reach the big-integer comparison (a lane with exactly s-1 zeros and none with s), mine cases whose scan covered at least one full block, all toint cases with a non-zero high chunk.",
		Assumptions: []string{"BLAKE2b-256 (x/crypto), math/big", "the Curl-P-81 / b1t6 model in harness/oracle/curlp (self-tested)", "Score's big-integer fall-back (difficulty >= 2^64) needs a hash with >= 41 trailing zeros and is unreachable through Score; only toInt is checked on such vectors"},
		SelfTest:    curlp.SelfTest,
		Gen:         gen,
		Judge:       judge,
		Render: func(class string, key []byte) interface{} {
			p := fw.Unpack(key)
			switch class {
			case "lane":
				return map[string]interface{}{"state_seed": fw.GetU64(p[0]), "data_len": fw.GetU32(p[1]), "target": fw.GetU64(p[2])}
			case "toint":
				return map[string]interface{}{"seed": fw.GetU64(p[0]), "style": p[1][0]}
			case "score":
				return map[string]interface{}{"msg": fw.Hex(p[0])}
			case "bigmine":
				return map[string]interface{}{"data": fmt.Sprintf("%d bytes derived from seed %d", fw.GetU32(p[1]), fw.GetU64(p[0])), "target": fw.GetU64(p[2]), "workers": p[3][0]}
			case "reuse":
				return map[string]interface{}{"seed": fw.GetU64(p[0]), "scenario": "six consecutive Mine calls on one Worker, message kept in one buffer edited in place between the calls"}
			case "shared":
				return map[string]interface{}{"seed": fw.GetU64(p[0]), "scenario": "two demanding and one looping easy Mine call run concurrently on one *Worker"}
			}
			return map[string]interface{}{"data": fw.Hex(p[0]), "target": fw.GetU64(p[1]), "workers": p[2][0]}
		},
		Required:      []string{"lane returned<64 sound", "lane returned 64 and nothing passed over", "lane reached big-int stage", "toint ok", "score ok", "mine ok", "mine with data of 8 KiB .. 128 KiB", "reuse executions", "shared-worker executions", "mine blocks scanned", "lane: candidate with difficulty == lx"},
		WatchdogQuick: 900,
		StallClass:    map[string]int{"lane": 30, "toint": 30, "score": 30}, // pure arithmetic on one input: microseconds
	})
}

var (
	maxHash = curlp.Pow3(243)
	max64   = new(big.Int).SetUint64(math.MaxUint64)
)

// tritsOf writes h-1 (0 <= h-1 < 3^243) as 243 trits, digit 2 -> -1.
func tritsOf(h *big.Int) []int8 {
	v := new(big.Int).Sub(h, big.NewInt(1))
	out := make([]int8, 243)
	three := big.NewInt(3)
	m := new(big.Int)
	for i := 0; i < 243; i++ {
		v.DivMod(v, three, m)
		switch m.Int64() {
		case 1:
			out[i] = 1
		case 2:
			out[i] = -1
		}
	}
	return out
}

func hashInt(trits []int8) *big.Int {
	h := curlp.Base3(trits)
	return h.Add(h, big.NewInt(1))
}

func difficultyOf(trits []int8) *big.Int {
	return new(big.Int).Quo(maxHash, hashInt(trits))
}

func powHash(msg []byte) []int8 {
	d := blake2b.Sum256(msg[:len(msg)-8])
	buf := append(curlp.B1T6(d[:]), curlp.B1T6(msg[len(msg)-8:])...)
	buf = append(buf, 0, 0, 0)
	return curlp.Hash(buf)
}

func modelScore(msg []byte) uint64 {
	d := difficultyOf(powHash(msg))
	d.Quo(d, big.NewInt(int64(len(msg))))
	if d.Cmp(max64) > 0 {
		return math.MaxUint64
	}
	return d.Uint64()
}

func judge(class string, key []byte, o *fw.Obs) {
	p := fw.Unpack(key)
	switch class {
	case "lane":
		judgeLane(fw.GetU64(p[0]), int(fw.GetU32(p[1])), fw.GetU64(p[2]), o)
	case "toint":
		r := fw.SubRng(int64(fw.GetU64(p[0])), "c12-toint")
		trits := make([]int8, 243)
		switch p[1][0] {
		case 0:
			for i := range trits {
				trits[i] = int8(r.Intn(3) - 1)
			}
		case 1: // many trailing zeros (high chunks zero)
			for i := 0; i < r.Intn(243); i++ {
				trits[i] = int8(r.Intn(3) - 1)
			}
		case 2:
			for i := range trits {
				trits[i] = -1
			}
		case 3: // chunk boundaries
			for _, i := range []int{0, 39, 40, 79, 80, 199, 200, 239, 240, 241, 242} {
				trits[i] = int8(r.Intn(3) - 1)
			}
		default:
			trits[r.Intn(243)] = int8(1 - 2*r.Intn(2))
		}
		o.Nontrivial()
		var got *big.Int
		if !o.Try("toInt", func() { got = powv2.VerifToInt(trits) }) {
			return
		}
		if want := hashInt(trits); got == nil || got.Cmp(want) != 0 {
			o.Fail("toint", "toInt(%v) = %v, definition gives %v", trits, got, want)
			return
		}
		o.Count("toint ok")
	case "shared":
		judgeShared(fw.GetU64(p[0]), o)
	case "reuse":
		judgeReuse(fw.GetU64(p[0]), o)
	case "score":
		msg := p[0]
		o.Nontrivial()
		var got uint64
		if !o.Try("Score", func() { got = powv2.Score(msg) }) {
			return
		}
		if want := modelScore(msg); got != want {
			o.Fail("score", "Score = %d, floor(floor(3^243/h)/len) = %d", got, want)
			return
		}
		o.Count("score ok")
	case "bigmine": // a mine case whose data (8 KiB .. 128 KiB) is derived from a seed
		d := make([]byte, int(fw.GetU32(p[1])))
		fw.SubRng(int64(fw.GetU64(p[0])), "c12-bigmine").Read(d)
		o.Count("mine with data of 8 KiB .. 128 KiB")
		judgeMine(d, fw.GetU64(p[2]), int(p[3][0]), o)
	default:
		judgeMine(p[0], fw.GetU64(p[1]), int(p[2][0]), o)
	}
}

func setLane(l, h *[243]uint, j uint, trits []int8) {
	for i, t := range trits {
		l[i] &^= 1 << j
		h[i] &^= 1 << j
		switch t {
		case 0:
			l[i] |= 1 << j
			h[i] |= 1 << j
		case 1:
			h[i] |= 1 << j
		default:
			l[i] |= 1 << j
		}
	}
}

func judgeLane(seed uint64, dataLen int, t uint64, o *fw.Obs) {
	r := fw.SubRng(int64(seed), "c12-lane")
	data := make([]byte, dataLen)
	n := dataLen + 8
	lx := new(big.Int).Mul(new(big.Int).SetUint64(t), big.NewInt(int64(n)))
	if lx.Cmp(max64) > 0 || t == 0 {
		panic("generator produced a target outside the statement")
	}
	var s int
	var T *big.Int
	if !o.Try("sufficientTrailingZeros/targetHash", func() {
		s = powv2.VerifSufficientTrailingZeros(data, t)
		T = powv2.VerifTargetHash(data, t)
	}) {
		return
	}
	if s < 1 || s > 243 || T == nil || T.Sign() <= 0 {
		// mechanism values are not asserted, but the lane test cannot be driven with them
		o.Fail("mechanism", "sufficientTrailingZeros=%d / targetHash=%v are unusable for len=%d target=%d", s, T, n, t)
		return
	}
	// candidate generators
	withZeros := func(z int) []int8 { // exactly z trailing zero trits, rest random
		tr := make([]int8, 243)
		if z > 243 {
			z = 243
		}
		if z < 0 {
			z = 0
		}
		for i := 0; i < 243-z; i++ {
			tr[i] = int8(r.Intn(3) - 1)
		}
		if z < 243 {
			tr[243-z-1] = int8(1 - 2*r.Intn(2))
		}
		return tr
	}
	fromInt := func(h *big.Int) []int8 {
		if h.Sign() <= 0 {
			h = big.NewInt(1)
		}
		if h.Cmp(maxHash) > 0 {
			h = new(big.Int).Set(maxHash)
		}
		return tritsOf(h)
	}
	exactD := func(d *big.Int) []int8 { // a hash whose difficulty is exactly d (largest such h)
		if d.Sign() <= 0 {
			d = big.NewInt(1)
		}
		return fromInt(new(big.Int).Quo(maxHash, d))
	}
	nonQual := func() []int8 { return withZeros(r.Intn(s)) } // fewer than s-1 zeros mostly; filtered below
	one := big.NewInt(1)
	cands := []func() []int8{
		func() []int8 { return withZeros(s - 2) },
		func() []int8 { return withZeros(s - 1) },
		func() []int8 { return withZeros(s) },
		func() []int8 { return withZeros(s + 1) },
		func() []int8 { return withZeros(243) },
		func() []int8 { return fromInt(new(big.Int).Sub(T, one)) },
		func() []int8 { return fromInt(T) },
		func() []int8 { return fromInt(new(big.Int).Add(T, one)) },
		func() []int8 { return exactD(lx) },
		func() []int8 { return exactD(new(big.Int).Add(lx, one)) },
		func() []int8 { return exactD(new(big.Int).Sub(lx, one)) },
		func() []int8 { return fromInt(new(big.Int).Add(new(big.Int).Quo(maxHash, lx), one)) }, // just too large: d = lx-1 or so
		func() []int8 {
			tr := make([]int8, 243)
			for i := range tr {
				tr[i] = -1
			}
			return tr
		},
	}
	var l, h [243]uint
	const nl = bits.UintSize // 64 lanes on 64-bit targets, 32 in the 386 build
	lanes := make([][]int8, nl)
	for j := range lanes {
		lanes[j] = nonQual()
	}
	// place special candidates
	var spots []int
	switch r.Intn(5) {
	case 0:
	case 1:
		spots = []int{0}
	case 2:
		spots = []int{nl - 1}
	case 3:
		spots = []int{r.Intn(nl)}
	default:
		for k := 1 + r.Intn(5); k > 0; k-- {
			spots = append(spots, r.Intn(nl))
		}
	}
	for _, j := range spots {
		lanes[j] = cands[r.Intn(len(cands))]()
	}
	for j, tr := range lanes {
		setLane(&l, &h, uint(j), tr)
	}
	var got int
	if !o.Try("checkStateTrits", func() { got = powv2.VerifCheckStateTrits(&l, &h, s, T) }) {
		return
	}
	// classify
	anyS, anySm1 := false, false
	var best *big.Int
	bestLane := -1
	for j, tr := range lanes {
		z := curlp.TrailingZeros(tr)
		if z >= s {
			anyS = true
		} else if z == s-1 {
			anySm1 = true
		}
		d := difficultyOf(tr)
		if d.Cmp(lx) == 0 {
			o.Count("lane: candidate with difficulty == lx")
		}
		if best == nil || d.Cmp(best) > 0 {
			best, bestLane = d, j
		}
	}
	if anySm1 && !anyS {
		o.Nontrivial()
		o.Count("lane reached big-int stage")
	}
	if got < 0 || got > nl {
		o.Fail("range", "checkStateTrits returned %d", got)
		return
	}
	if got < nl {
		d := difficultyOf(lanes[got])
		if d.Cmp(lx) < 0 {
			o.Fail("unsound", "len=%d target=%d (lx=%v, s=%d): lane %d accepted but its difficulty %v is below lx (hash %v, target hash %v)", n, t, lx, s, got, d, hashInt(lanes[got]), T)
			return
		}
		o.Count("lane returned<64 sound")
		return
	}
	if best.Cmp(lx) > 0 {
		o.Fail("passover", "len=%d target=%d (lx=%v, s=%d): no lane accepted although lane %d has difficulty %v > lx (hash %v with %d trailing zeros, target hash %v)", n, t, lx, s, bestLane, best, hashInt(lanes[bestLane]), curlp.TrailingZeros(lanes[bestLane]), T)
		return
	}
	o.Count("lane returned 64 and nothing passed over")
}

// judgeReuse: one long-lived *Worker, message kept in ONE buffer edited in place between the calls.
func judgeReuse(seed uint64, o *fw.Obs) {
	o.Nontrivial()
	r := fw.SubRng(int64(seed), "c12-reuse")
	var w *powv2.Worker
	nw := 1 + r.Intn(4)
	if !o.Try("New", func() { w = powv2.New(nw) }) {
		return
	}
	buf := make([]byte, 1+r.Intn(80))
	r.Read(buf)
	ctx, cancel := context.WithTimeout(context.Background(), 300*time.Second)
	defer cancel()
	for step := 0; step < 6; step++ {
		switch r.Intn(4) {
		case 0:
		case 1:
			buf[r.Intn(len(buf))] ^= byte(1 + r.Intn(255))
		default:
			r.Read(buf)
		}
		snapshot := append([]byte(nil), buf...)
		t := uint64(20+r.Intn(2000)) / uint64(len(buf)+8)
		if t == 0 {
			t = 1
		}
		var nonce uint64
		var err error
		if !o.Try("Mine", func() { nonce, err = w.Mine(ctx, buf, t) }) {
			return
		}
		if err != nil {
			if ctx.Err() != nil {
				o.Inconclusive("v2 Mine on a reused Worker did not return within 300 s")
				return
			}
			o.Fail("error", "Mine on a reused Worker returned %v", err)
			return
		}
		if !bytes.Equal(buf, snapshot) {
			o.Fail("mutation", "Mine modified the caller's data")
			return
		}
		msg := append(append([]byte(nil), snapshot...), make([]byte, 8)...)
		binary.LittleEndian.PutUint64(msg[len(snapshot):], nonce)
		if ms := modelScore(msg); ms < t {
			o.Fail("unsound", "call %d on one Worker with the message kept in one buffer that is edited in place between calls: Mine(%x, target=%d) returned nonce %d with score %d below the target", step+1, snapshot, t, nonce, ms)
			return
		}
		o.Count("reuse: calls on a long-lived Worker checked")
	}
	o.Count("reuse executions")
}

// judgeShared: several goroutines mine concurrently on ONE *Worker with different data and targets
// (a Worker holds only its worker count, so sharing it is ordinary use); every returned nonce must be sound.
func judgeShared(seed uint64, o *fw.Obs) {
	o.Nontrivial()
	r := fw.SubRng(int64(seed), "c12-shared")
	var w *powv2.Worker
	nw := 1 + r.Intn(4)
	if !o.Try("New", func() { w = powv2.New(nw) }) {
		return
	}
	type job struct {
		data []byte
		t    uint64
	}
	pow3 := func(k int) uint64 {
		v := uint64(1)
		for i := 0; i < k; i++ {
			v *= 3
		}
		return v
	}
	mk := func(lx uint64) job {
		l := r.Intn(60)
		d := make([]byte, l)
		r.Read(d)
		t := lx / uint64(l+8)
		if t == 0 {
			t = 1
		}
		return job{d, t}
	}
	// two demanding jobs just below a power of three (few hashes with s-1 zeros qualify) and one easy job looped meanwhile
	hard := []job{mk(pow3(6+r.Intn(2)) - uint64(1+r.Intn(20))), mk(pow3(5+r.Intn(3)) - uint64(1+r.Intn(20)))}
	easy := mk(uint64(8 + r.Intn(20)))
	type outcome struct {
		j     job
		nonce uint64
		err   error
		pan   interface{}
	}
	ctx, cancel := context.WithTimeout(context.Background(), 300*time.Second)
	defer cancel()
	results := make(chan outcome, 4096)
	run := func(j job) outcome {
		oc := outcome{j: j}
		func() {
			defer func() { oc.pan = recover() }()
			oc.nonce, oc.err = w.Mine(ctx, j.data, j.t)
		}()
		return oc
	}
	var wg sync.WaitGroup
	var stop int32
	for _, j := range hard {
		wg.Add(1)
		go func(j job) { defer wg.Done(); results <- run(j) }(j)
	}
	done := make(chan struct{})
	go func() {
		defer close(done)
		for n := 0; atomic.LoadInt32(&stop) == 0 && n < 4000; n++ {
			results <- run(easy)
		}
	}()
	wg.Wait()
	atomic.StoreInt32(&stop, 1)
	<-done
	close(results)
	for oc := range results {
		if oc.pan != nil {
			o.Fail("panic", "concurrent Mine on a shared Worker panicked: %v", oc.pan)
			return
		}
		if oc.err != nil {
			if ctx.Err() != nil {
				o.Inconclusive("concurrent Mine calls did not finish within 300 s")
			} else {
				o.Fail("error", "concurrent Mine on a shared Worker returned %v", oc.err)
			}
			return
		}
		msg := append(append([]byte(nil), oc.j.data...), make([]byte, 8)...)
		binary.LittleEndian.PutUint64(msg[len(oc.j.data):], oc.nonce)
		if ms := modelScore(msg); ms < oc.j.t {
			o.Fail("unsound", "with several Mine calls running concurrently on one Worker, Mine(len(data)=%d, target=%d) returned nonce %d with score %d below the target (the other calls used targets %d, %d, %d)", len(oc.j.data), oc.j.t, oc.nonce, ms, hard[0].t, hard[1].t, easy.t)
			return
		}
		o.Count("shared-worker results checked")
	}
	o.Count("shared-worker executions")
}

// scanBlocks re-hashes the nonces 0 .. 64*blocks-1 with the bit-sliced model (64 per call) and returns the
// first one whose difficulty strictly exceeds lx.
func scanBlocks(data []byte, lx *big.Int, blocks uint64) (uint64, *big.Int, bool) {
	dg := blake2b.Sum256(data)
	prefix := curlp.B1T6(dg[:])
	// a difficulty above lx needs at least s-1 trailing zero trits, s = smallest s with 3^s >= lx
	sMin := 0
	for p := big.NewInt(1); p.Cmp(lx) < 0; p.Mul(p, big.NewInt(3)) {
		sMin++
	}
	sMin -= 2
	ins := make([][]int8, 64)
	for j := range ins {
		ins[j] = make([]int8, 243)
		copy(ins[j], prefix)
	}
	var nb [8]byte
	for b := uint64(0); b < blocks; b++ {
		for j := range ins {
			binary.LittleEndian.PutUint64(nb[:], b*64+uint64(j))
			copy(ins[j][192:], curlp.B1T6(nb[:]))
		}
		for j, hsh := range curlp.Hash64(ins) {
			if curlp.TrailingZeros(hsh) < sMin {
				continue
			}
			if d := difficultyOf(hsh); d.Cmp(lx) > 0 {
				return b*64 + uint64(j), d, true
			}
		}
	}
	return 0, nil, false
}

func judgeMine(data []byte, t uint64, workers int, o *fw.Obs) {
	n := len(data) + 8
	lx := new(big.Int).Mul(new(big.Int).SetUint64(t), big.NewInt(int64(n)))
	ctx, cancel := context.WithTimeout(context.Background(), 300*time.Second)
	defer cancel()
	var nonce uint64
	var err error
	var sp fw.SpareSet
	dataIn := fw.NilIfEmpty(sp.Of("data", data, 64), byte(workers)) // a window into a larger buffer: a nonce appended to it would write into the caller's memory
	if !o.Try("Mine", func() {
		if workers == 0 {
			nonce, err = powv2.New().Mine(ctx, dataIn, t) // the constructor's default worker count
		} else {
			nonce, err = powv2.New(workers).Mine(ctx, dataIn, t)
		}
	}) {
		return
	}
	if !sp.Check(o) {
		return
	}
	if err != nil {
		if ctx.Err() != nil {
			o.Inconclusive("v2 Mine(len=%d, target=%d, workers=%d) did not return within 300 s", len(data), t, workers)
			return
		}
		o.Fail("error", "Mine returned %v without cancellation", err)
		return
	}
	msg := append(append([]byte(nil), data...), make([]byte, 8)...)
	binary.LittleEndian.PutUint64(msg[len(data):], nonce)
	var sc uint64
	if !o.Try("Score", func() { sc = powv2.Score(msg) }) {
		return
	}
	if ms := modelScore(msg); sc < t || ms < t {
		o.Fail("unsound", "Mine(len(data)=%d, target=%d, workers=%d) returned nonce %d with Score %d (model %d) below the target", len(data), t, workers, nonce, sc, ms)
		return
	}
	if t == 0 && nonce != 0 {
		o.Count("zero target returned a non-zero nonce")
	}
	if workers == 1 && t > 0 {
		blocks := nonce / 64
		if blocks > 0 {
			o.Nontrivial()
		}
		if blocks > 40000 {
			o.Inconclusive("single-worker scan of %d blocks is too long to re-hash", blocks)
			return
		}
		if k, d, found := scanBlocks(data, lx, blocks); found {
			o.Fail("passover", "Mine(len(data)=%d, target=%d, 1 worker) returned nonce %d (block %d) but nonce %d in the earlier block %d has difficulty %v > len*target = %v", len(data), t, nonce, blocks, k, k/64, d, lx)
			return
		}
		o.Add("mine blocks scanned", int64(blocks))
		o.Add("mine skipped nonces re-hashed", int64(blocks*64))
	}
	o.Count("mine ok")
}

// ---------------------------------------------------------------------------

func gen(g *fw.Gen) {
	pow3 := func(k int) uint64 {
		v := uint64(1)
		for i := 0; i < k; i++ {
			v *= 3
		}
		return v
	}
	// lane level
	for n := g.ShareOf(60000, 1500000); n > 0; n-- {
		var ln int
		var t uint64
		switch g.Rng.Intn(8) {
		case 0: // lx = 3^k exactly: len in {9, 27, 81, 243}
			e := 2 + g.Rng.Intn(4)
			ln = int(pow3(e))
			t = pow3(g.Rng.Intn(41 - e))
		case 1: // lx = 3^k - 1 with len 8 (k even)
			k := 2 * (1 + g.Rng.Intn(20))
			ln, t = 8, (pow3(k)-1)/8
		case 2: // lx = 3^k + 1 with len 10 (k = 2 mod 4)
			k := 2 + 4*g.Rng.Intn(10)
			ln, t = 10, (pow3(k)+1)/10
		case 3: // the 64-bit edge
			ln = 8 + g.Rng.Intn(300)
			t = math.MaxUint64 / uint64(ln)
			if g.Rng.Intn(2) == 0 {
				t -= uint64(g.Rng.Intn(1000))
			}
		case 4: // lx near 3^k for arbitrary len
			ln = 8 + g.Rng.Intn(65529)
			k := 2 + g.Rng.Intn(39)
			t = pow3(k) / uint64(ln)
			if g.Rng.Intn(2) == 0 {
				t++
			}
		case 5: // small
			ln = 8 + g.Rng.Intn(200)
			t = 1 + uint64(g.Rng.Intn(50))
		case 6: // lx uniform in [3^40, 2^64): s = 41 and 3^41 does not fit 64 bits
			ln = 8 + g.Rng.Intn(65529)
			lx := pow3(40) + g.Rng.Uint64()%(math.MaxUint64-pow3(40))
			t = lx / uint64(ln)
		default:
			ln = 8 + g.Rng.Intn(65529)
			t = g.Rng.Uint64() >> uint(g.Rng.Intn(64))
			if hi := math.MaxUint64 / uint64(ln); t > hi {
				t = hi
			}
		}
		if t == 0 {
			t = 1
		}
		g.Emit("lane", fw.Pack(fw.U64(g.Rng.Uint64()), fw.U32(uint32(ln-8)), fw.U64(t)))
	}
	for n := g.ShareOf(20000, 500000); n > 0; n-- {
		g.Emit("toint", fw.Pack(fw.U64(g.Rng.Uint64()), []byte{byte(g.Rng.Intn(5))}))
	}
	for n := g.ShareOf(20000, 500000); n > 0; n-- {
		if g.Rng.Intn(8) == 0 {
			g.Emit("score", fw.Pack(g.Bytes(8+g.Rng.Intn(6000))))
			continue
		}
		g.Emit("score", fw.Pack(g.Bytes(8+g.Rng.Intn(300))))
	}
	for n := g.ShareOf(64, 1500); n > 0; n-- {
		g.Emit("shared", fw.Pack(fw.U64(g.Rng.Uint64())))
	}
	for n := g.ShareOf(200, 5000); n > 0; n-- {
		g.Emit("reuse", fw.Pack(fw.U64(g.Rng.Uint64())))
	}
	// long single-worker mines (tens of thousands of nonces, hundreds of blocks)
	for n := g.ShareOf(480, 12000); n > 0; n-- {
		l := g.Rng.Intn(60)
		lx := 19683 + g.Rng.Intn(40000)
		g.Emit("mine", fw.Pack(g.Bytes(l), fw.U64(uint64(lx/(l+8))), []byte{1}))
	}
	// data of 8 KiB .. 128 KiB, lengths next to m * 2^j (j = 13..16, m = 1..2), target 1..3
	for n := g.ShareOf(48, 2400); n > 0; n-- {
		l := (1+g.Rng.Intn(2))<<uint(13+g.Rng.Intn(4)) + g.Rng.Intn(145) - 72
		g.Emit("bigmine", fw.Pack(fw.U64(g.Rng.Uint64()), fw.U32(uint32(l)), fw.U64(uint64(1+g.Rng.Intn(3))), []byte{byte(1 + g.Rng.Intn(8))}))
	}
	// API level
	for n := g.ShareOf(250, 6000); n > 0; n-- {
		l := g.Rng.Intn(120)
		if g.Rng.Intn(10) == 0 {
			l = 120 + g.Rng.Intn(1400)
		}
		lx := 8 + g.Rng.Intn(2500)
		if g.Rng.Intn(3) == 0 {
			// around powers of three
			lx = int(pow3(2+g.Rng.Intn(6))) + g.Rng.Intn(3) - 1
		}
		t := uint64(lx / (l + 8))
		if t == 0 {
			t = 1
		}
		w := 1
		if g.Rng.Intn(3) == 0 {
			w = 2 + g.Rng.Intn(15)
		} else if g.Rng.Intn(12) == 0 {
			w = 0 // New() without an argument
		}
		if g.Rng.Intn(40) == 0 {
			t = 0
		}
		g.Emit("mine", fw.Pack(g.Bytes(l), fw.U64(t), []byte{byte(w)}))
	}
}

var _ = fmt.Sprintf
