// Package c14 monitors the b1t6 and b1t8 byte/trit codecs against the
// table-driven TIP-5 model: exhaustively on single bytes and single groups,
// and on multi-group strings with an invalid group at every position and every
// remainder length.
package c14

import (
	"bytes"
	"errors"
	"fmt"
	"math/rand"
	"sync/atomic"

	"github.com/iotaledger/iota.go/trinary"
	"github.com/wollac/iota-crypto-demo/pkg/encoding/b1t6"
	"github.com/wollac/iota-crypto-demo/pkg/encoding/b1t8"

	"verif/harness/fw"
	"verif/harness/oracle/tern"
)

const (
	clB6Byte   = "b1t6/byte"   // key: one byte
	clB8Byte   = "b1t8/byte"   // key: one byte
	clB6Group  = "b1t6/group"  // key: index 0..728 of a 6-trit group
	clB6Trytes = "b1t6/trytes" // key: index 0..728 of a tryte pair
	clB8Group  = "b1t8/group"  // key: index 0..6560 of an 8-trit group
	clB6Seq    = "b1t6/seq"    // key: seqKey
	clB6TSeq   = "b1t6/tseq"   // key: seqKey (trytes; remainder 0 or 1 tryte)
	clB8Seq    = "b1t8/seq"    // key: seqKey
	clB6Bytes  = "b1t6/bytes"  // key: bytesKey
	clB8Bytes  = "b1t8/bytes"  // key: bytesKey
)

// exhaustive classes and their sizes
var exhaustive = map[string]int64{clB6Byte: 256, clB8Byte: 256, clB6Group: 729, clB6Trytes: 729, clB8Group: 6561}

func init() {
	fw.Register(&fw.Prop{
		ID:                  "C14",
		DeadlockIsViolation: true,                               // the calls of this property are synchronous functions of their inputs: a call blocked for good inside the library is a violation
		Builds:              []string{"default", "386", "race"}, // the 386 build runs a quarter of the random classes on a 32-bit target
		// race build: only the classes in which several goroutines are inside the library at once, under the race detector
		RaceClasses: []string{"coldstart", "b1t6/seq", "b1t8/seq"},
		RaceSample:  100,
		Parallel:    4, // cases are judged on 4 goroutines per shard: the library functions are stateless, shared state inside them shows up as wrong verdicts
		Rule: "exhaustive: every byte through Encode/EncodeToTrytes/Decode/DecodeTrytes of b1t6 and Encode/Decode of b1t8; every one of the 3^6 b1t6 groups as trits (Decode) and as a tryte pair (DecodeTrytes), every one of the 3^8 b1t8 groups. " +
			"sequences: long sequences of 255..5000 groups with the first invalid group at 1, the middle, around 256/1024/2048 and at the end; for every group count 0..64, every position of an invalid group (and none), every remainder length (b1t6: 0..5 trits with 0/1-only and arbitrary contents; trytes: 0 or 1 extra tryte; b1t8: 0..7 trits with and without a -1 in the remainder), random contents, optionally further invalid groups behind the first; random byte strings of length 0..64 (some up to 2000; one in 4000 of 16383..262147 bytes, sizes at which an implementation may work in chunks or on several goroutines) through encode and decode. " +
			"Verdict, sentinel (errors.Is), returned byte count and the bytes written before the fault are compared with the model; accepted inputs are re-encoded and must reproduce the input. Only trits in {-1,0,1} and trytes in [9A-Z] are generated. " +
			"Non-trivial: distinct inputs that contain an invalid group or have a remainder.",
		Assumptions: []string{"the table-driven TIP-5 model in harness/oracle/tern (self-tested against a brute-force enumeration of all groups and the TIP-5 examples)", "errors.Is of the Go standard library"},
		SelfTest:    tern.SelfTest,
		Gen:         gen,
		Judge:       judge,
		Render:      render,
		Required: []string{
			"cold start: first calls of a process made concurrently",
			"b1t6/byte ok", "b1t8/byte ok",
			"b1t6/group model=accept impl=accept", "b1t6/group model=reject impl=reject",
			"b1t6/trytes model=accept impl=accept", "b1t6/trytes model=reject impl=reject",
			"b1t8/group model=accept impl=accept", "b1t8/group model=reject impl=reject",
			"b1t6/seq model=accept impl=accept", "b1t6/seq model=reject impl=reject",
			"b1t6/tseq model=accept impl=accept", "b1t6/tseq model=reject impl=reject",
			"b1t8/seq model=accept impl=accept", "b1t8/seq model=reject impl=reject",
			"b1t6/seq: invalid group only", "b1t6/seq: bad length only", "b1t6/seq: invalid group and bad length",
			"b1t6/tseq: invalid group only", "b1t6/tseq: bad length only", "b1t6/tseq: invalid group and bad length",
			"b1t8/seq: invalid group only", "b1t8/seq: bad length only", "b1t8/seq: invalid group and bad length",
			"b1t8/seq: invalid trit in the remainder only",
			"accepted input re-encodes to itself", "b1t6/bytes ok", "b1t8/bytes ok",
		},
		Post:       post,
		ColdStart:  true,
		ColdProbes: 128,
	})
}

func post(r *fw.RunResult) {
	ok := true
	// every build variant (native, 386) enumerates the exhaustive classes once
	nb := int64(0)
	seen := map[string]bool{}
	for _, sh := range r.Shards {
		if sh.Build == "race" {
			continue // the race build judges the cold-start and sequence classes only
		}
		if !seen[sh.Build] {
			seen[sh.Build] = true
			nb++
		}
	}
	for cl, want := range exhaustive {
		want *= nb
		if r.ByClass[cl] != want {
			ok = false
			r.AddInconclusive("exhaustive class %s: %d cases evaluated, %d expected", cl, r.ByClass[cl], want)
		}
	}
	// the verdict tables of the exhaustive classes, when nothing was violated
	if ok && r.ViolTotal == 0 {
		for _, e := range []struct {
			cl       string
			acc, rej int64
		}{{clB6Group, 256, 473}, {clB6Trytes, 256, 473}, {clB8Group, 256, 6305}} {
			a, j := r.Counters[e.cl+" model=accept impl=accept"], r.Counters[e.cl+" model=reject impl=reject"]
			if a != e.acc*nb || j != e.rej*nb {
				ok = false
				r.AddInconclusive("exhaustive class %s: %d accepted / %d rejected, expected %d / %d", e.cl, a, j, e.acc, e.rej)
			}
		}
	}
	r.Exhaustive = ok
	r.Extra["exhaustive_classes"] = exhaustive
	r.Extra["exhaustive_classes_enumerated_in_builds"] = nb
}

// ---------------------------------------------------------------------------
// inputs from keys

func groupTrits(idx uint32, n int) []int8 {
	t := make([]int8, n)
	for i := range t {
		t[i] = int8(idx%3) - 1
		idx /= 3
	}
	return t
}

func trytePair(idx uint32) string {
	return string([]byte{tern.Alphabet[idx%27], tern.Alphabet[(idx/27)%27]})
}

// seqKey: seed(8) | groups | bad (0 = none, p+1 = invalid group at p) | more (1 = further invalid groups behind) | remainder length | remainder flag
func seqKey(seed int64, ng, bad, more, rem, remflag int) []byte {
	return append(fw.U64(uint64(seed)), byte(ng), byte(bad), byte(more), byte(rem), byte(remflag))
}

type seqSpec struct {
	seed                       int64
	ng, bad, more, rem, remflg int
}

// longSeqKey is seqKey for sequences of up to 65535 groups.
func longSeqKey(seed int64, ng, bad, more, rem, remflag int) []byte {
	return append(fw.U64(uint64(seed)), byte(ng), byte(ng>>8), byte(bad), byte(bad>>8), byte(more), byte(rem), byte(remflag))
}

func parseSeq(key []byte) seqSpec {
	if len(key) == 15 {
		return seqSpec{seed: int64(fw.GetU64(key)), ng: int(key[8]) | int(key[9])<<8, bad: int(key[10]) | int(key[11])<<8, more: int(key[12]), rem: int(key[13]), remflg: int(key[14])}
	}
	if len(key) != 13 {
		panic("c14: bad sequence key")
	}
	return seqSpec{seed: int64(fw.GetU64(key)), ng: int(key[8]), bad: int(key[9]), more: int(key[10]), rem: int(key[11]), remflg: int(key[12])}
}

var boundaryBytes = []byte{0x00, 0x01, 0x7f, 0x80, 0x81, 0xff, 0x7e, 0xfe}
var boundaryInvalid = []int{128, -129, 129, -130, 364, -364, 243, -243, 200, -200, 135, -135}

func randBytes(r *rand.Rand, n int) []byte {
	b := make([]byte, n)
	switch r.Intn(6) {
	case 0:
		for i := range b {
			b[i] = boundaryBytes[r.Intn(len(boundaryBytes))]
		}
	case 1:
		c := byte(r.Intn(256))
		for i := range b {
			b[i] = c
		}
	default:
		r.Read(b)
	}
	return b
}

// invalidB6Group draws one of the 473 groups whose value is outside -128..127.
func invalidB6Group(r *rand.Rand) []int8 {
	if r.Intn(3) == 0 {
		g, _ := tern.Balanced(boundaryInvalid[r.Intn(len(boundaryInvalid))], 6)
		return g
	}
	for {
		g := groupTrits(uint32(r.Intn(729)), 6)
		if v := tern.GroupValue(g); v < -128 || v > 127 {
			return g
		}
	}
}

// invalidB8Group draws a group with at least one trit -1.
func invalidB8Group(r *rand.Rand) []int8 {
	g := make([]int8, 8)
	for i := range g {
		g[i] = int8(r.Intn(2))
	}
	switch r.Intn(4) {
	case 0:
		g[0] = -1
	case 1:
		g[7] = -1
	case 2:
		for i := range g {
			if r.Intn(2) == 0 {
				g[i] = -1
			}
		}
		g[r.Intn(8)] = -1
	default:
		g[r.Intn(8)] = -1
	}
	return g
}

// buildTrits makes the trit string of a sequence case. group is 6 or 8.
func buildTrits(class string, s seqSpec, group int) []int8 {
	r := fw.SubRng(s.seed, class)
	src := randBytes(r, s.ng)
	var t []int8
	if group == 6 {
		t = tern.B1T6Encode(src)
	} else {
		t = tern.B1T8Encode(src)
	}
	inv := func() []int8 {
		if group == 6 {
			return invalidB6Group(r)
		}
		return invalidB8Group(r)
	}
	if s.bad > 0 && s.bad <= s.ng {
		p := s.bad - 1
		copy(t[p*group:], inv())
		if s.more != 0 {
			for q := p + 1; q < s.ng; q++ {
				if r.Intn(3) == 0 {
					copy(t[q*group:], inv())
				}
			}
		}
	}
	for i := 0; i < s.rem && i < group-1; i++ {
		switch {
		case group == 6 && s.remflg != 0:
			t = append(t, int8(r.Intn(3))-1)
		default:
			t = append(t, int8(r.Intn(2)))
		}
	}
	if group == 8 && s.remflg != 0 && s.rem > 0 {
		// at least one -1 in the remainder
		n := len(t)
		k := s.rem
		if k > group-1 {
			k = group - 1
		}
		t[n-1-r.Intn(k)] = -1
		if r.Intn(3) == 0 {
			t[n-1-r.Intn(k)] = -1
		}
	}
	return t
}

// buildTrytes makes the tryte string of a b1t6/tseq case.
func buildTrytes(s seqSpec) string {
	s2 := s
	s2.rem = 0
	t := buildTrits(clB6TSeq, s2, 6)
	str, _ := tern.TritsToTrytes(t)
	if s.rem > 0 {
		r := fw.SubRng(s.seed, clB6TSeq, "rem")
		str += string(tern.Alphabet[r.Intn(27)])
	}
	return str
}

func bytesKey(seed int64, n int) []byte { return fw.Pack(fw.U64(uint64(seed)), fw.U32(uint32(n))) }

func buildBytes(class string, key []byte) []byte {
	p := fw.Unpack(key)
	r := fw.SubRng(int64(fw.GetU64(p[0])), class)
	return randBytes(r, int(fw.GetU32(p[1])))
}

func tritString(t []int8) string {
	b := make([]byte, len(t))
	for i, x := range t {
		switch x {
		case -1:
			b[i] = '-'
		case 0:
			b[i] = '0'
		case 1:
			b[i] = '1'
		default:
			b[i] = '?'
		}
	}
	return string(b)
}

func render(class string, key []byte) interface{} {
	switch class {
	case "coldstart":
		return map[string]interface{}{"scenario": "the first b1t6/b1t8 calls of a fresh process, made by 8 goroutines at the same instant"}
	case clB6Byte, clB8Byte:
		return map[string]interface{}{"byte": fw.Hex(key)}
	case clB6Group:
		return map[string]interface{}{"trits": tritString(groupTrits(fw.GetU32(key), 6)), "notation": "one character per trit, '-' is -1, first trit first"}
	case clB8Group:
		return map[string]interface{}{"trits": tritString(groupTrits(fw.GetU32(key), 8)), "notation": "one character per trit, '-' is -1, first trit first"}
	case clB6Trytes:
		return map[string]interface{}{"trytes": trytePair(fw.GetU32(key))}
	case clB6Seq:
		return map[string]interface{}{"trits": tritString(buildTrits(class, parseSeq(key), 6)), "spec": fmt.Sprintf("%+v", parseSeq(key))}
	case clB8Seq:
		return map[string]interface{}{"trits": tritString(buildTrits(class, parseSeq(key), 8)), "spec": fmt.Sprintf("%+v", parseSeq(key))}
	case clB6TSeq:
		return map[string]interface{}{"trytes": buildTrytes(parseSeq(key)), "spec": fmt.Sprintf("%+v", parseSeq(key))}
	default:
		return map[string]interface{}{"bytes": fw.Hex(buildBytes(class, key))}
	}
}

// ---------------------------------------------------------------------------
// the codecs under test

const canary = 16

type codec struct {
	name       string
	group      int
	encodedLen func(int) int
	decodedLen func(int) int
	encode     func(dst trinary.Trits, src []byte) int
	decode     func(dst []byte, src trinary.Trits) (int, error)
	errInvalid error
	errLength  error
	mEncode    func([]byte) []int8
	mDecode    func([]int8) tern.Verdict
}

var kept fw.Keeper

var c6 = &codec{name: "b1t6", group: 6, encodedLen: b1t6.EncodedLen, decodedLen: b1t6.DecodedLen, encode: b1t6.Encode, decode: b1t6.Decode,
	errInvalid: b1t6.ErrInvalidTrits, errLength: b1t6.ErrInvalidLength, mEncode: tern.B1T6Encode, mDecode: tern.B1T6Decode}
var c8 = &codec{name: "b1t8", group: 8, encodedLen: b1t8.EncodedLen, decodedLen: b1t8.DecodedLen, encode: b1t8.Encode, decode: b1t8.Decode,
	errInvalid: b1t8.ErrInvalidTrit, errLength: b1t8.ErrInvalidLength, mEncode: tern.B1T8Encode, mDecode: tern.B1T8Decode}

func eqTrits(a, b []int8) bool {
	if len(a) != len(b) {
		return false
	}
	for i := range a {
		if a[i] != b[i] {
			return false
		}
	}
	return true
}

func ar(b bool) string {
	if b {
		return "accept"
	}
	return "reject"
}

// doEncode calls Encode with a canary behind the destination and checks count,
// contents and the canary against the model. It returns the encoded trits.
func (c *codec) doEncode(o *fw.Obs, src []byte) (trinary.Trits, bool) {
	var dst trinary.Trits
	var n, el int
	if !o.Try(c.name+".Encode", func() {
		el = c.encodedLen(len(src))
		if el < 0 || el > 16*len(src)+16 {
			return
		}
		dst = make(trinary.Trits, el+canary)
		for i := range dst {
			dst[i] = 7
		}
		n = c.encode(dst, src)
	}) {
		return nil, false
	}
	want := c.mEncode(src)
	if el != len(want) {
		o.Fail("encode", "%s.EncodedLen(%d) = %d, expected %d", c.name, len(src), el, len(want))
		return nil, false
	}
	if n != len(want) {
		o.Fail("encode", "%s.Encode(%x) returned %d, expected %d", c.name, src, n, len(want))
		return nil, false
	}
	if !eqTrits(dst[:n], want) {
		o.Fail("encode", "%s.Encode(%x) = %v, model %v", c.name, src, dst[:n], want)
		return nil, false
	}
	for _, x := range dst[n:] {
		if x != 7 {
			o.Fail("overrun", "%s.Encode(%x) wrote behind EncodedLen", c.name, src)
			return nil, false
		}
	}
	return dst[:n:n], true
}

// doDecode calls Decode on src and compares verdict, sentinel, count and the
// bytes written before the fault with the model. It returns the decoded bytes
// when the input was accepted by both.
func (c *codec) doDecode(o *fw.Obs, class string, src []int8) (out []byte, accepted bool) {
	mv := c.mDecode(src)
	in := append(trinary.Trits(nil), src...)
	var dst []byte
	var n, dl int
	var err error
	if !o.Try(c.name+".Decode", func() {
		dl = c.decodedLen(len(in))
		if dl < 0 || dl > len(in)+16 {
			return
		}
		dst = make([]byte, dl+canary)
		for i := range dst {
			dst[i] = 0xa5
		}
		n, err = c.decode(dst, in)
	}) {
		return nil, false
	}
	o.Count(fmt.Sprintf("%s model=%s impl=%s", class, ar(mv.Accept()), ar(err == nil)))
	if dl != mv.Groups {
		o.Fail("decode", "%s.DecodedLen(%d) = %d, expected %d", c.name, len(src), dl, mv.Groups)
		return nil, false
	}
	if mv.Accept() != (err == nil) {
		o.Fail("verdict", "%s.Decode(%s): model says %s, implementation %s (n=%d err=%v)", c.name, tritString(src), ar(mv.Accept()), ar(err == nil), n, err)
		return nil, false
	}
	isInv, isLen := errors.Is(err, c.errInvalid), errors.Is(err, c.errLength)
	hasInvalid := mv.BadGroup || mv.BadRem
	switch {
	case mv.Accept():
	case hasInvalid && !mv.BadLen:
		if !isInv {
			o.Fail("sentinel", "%s.Decode(%s): invalid group %d, whole number of groups: expected the invalid-trits error, got %v", c.name, tritString(src), mv.N, err)
			return nil, false
		}
	case !hasInvalid && mv.BadLen:
		if !isLen {
			o.Fail("sentinel", "%s.Decode(%s): all complete groups valid, %d trits left over: expected the invalid-length error, got %v", c.name, tritString(src), len(src)%c.group, err)
			return nil, false
		}
	default:
		// an invalid group/trit and a bad length: the statement does not fix which is reported
		if !isInv && !isLen {
			o.Fail("sentinel", "%s.Decode(%s): expected the invalid-trits or the invalid-length error, got %v", c.name, tritString(src), err)
			return nil, false
		}
		which := "invalid"
		if !isInv {
			which = "length"
		}
		if mv.BadGroup {
			o.Count(fmt.Sprintf("%s: invalid group and bad length -> %s error", class, which))
		} else {
			o.Count(fmt.Sprintf("%s: invalid trit in the remainder -> %s error", class, which))
		}
	}
	if n != mv.N {
		o.Fail("count", "%s.Decode(%s) returned count %d with err=%v; %d bytes precede the fault (complete groups %d, first invalid group %v)", c.name, tritString(src), n, err, mv.N, mv.Groups, firstBad(mv))
		return nil, false
	}
	if !bytes.Equal(dst[:n], mv.Bytes) {
		o.Fail("bytes", "%s.Decode(%s) wrote %x before the fault, model %x", c.name, tritString(src), dst[:n], mv.Bytes)
		return nil, false
	}
	for _, x := range dst[dl:] {
		if x != 0xa5 {
			o.Fail("overrun", "%s.Decode(%s) wrote behind DecodedLen", c.name, tritString(src))
			return nil, false
		}
	}
	if !mv.Accept() {
		return nil, false
	}
	return dst[:n:n], true
}

func firstBad(mv tern.Verdict) interface{} {
	if mv.BadGroup {
		return mv.N
	}
	return "none"
}

// decodeTrytes calls b1t6.DecodeTrytes and compares with the model.
func decodeTrytes(o *fw.Obs, class, s string) (out []byte, accepted bool) {
	mv, ok := tern.B1T6DecodeTrytes(s)
	if !ok {
		panic("c14: generated a non-tryte string")
	}
	var got []byte
	var err error
	if !o.Try("b1t6.DecodeTrytes", func() { got, err = b1t6.DecodeTrytes(trinary.Trytes(s)) }) {
		return nil, false
	}
	kept.Keep("bytes returned by b1t6.DecodeTrytes", got)
	defer kept.Check(o)
	o.Count(fmt.Sprintf("%s model=%s impl=%s", class, ar(mv.Accept()), ar(err == nil)))
	if mv.Accept() != (err == nil) {
		o.Fail("verdict", "b1t6.DecodeTrytes(%q): model says %s, implementation %s (err=%v)", s, ar(mv.Accept()), ar(err == nil), err)
		return nil, false
	}
	if mv.Accept() {
		if !bytes.Equal(got, mv.Bytes) {
			o.Fail("bytes", "b1t6.DecodeTrytes(%q) = %x, model %x", s, got, mv.Bytes)
			return nil, false
		}
		return got, true
	}
	isInv, isLen := errors.Is(err, b1t6.ErrInvalidTrits), errors.Is(err, b1t6.ErrInvalidLength)
	switch {
	case mv.BadGroup && !mv.BadLen:
		if !isInv {
			o.Fail("sentinel", "b1t6.DecodeTrytes(%q): invalid pair %d, even length: expected the invalid-trits error, got %v", s, mv.N, err)
		}
	case !mv.BadGroup && mv.BadLen:
		if !isLen {
			o.Fail("sentinel", "b1t6.DecodeTrytes(%q): all pairs valid, odd length: expected the invalid-length error, got %v", s, err)
		}
	default:
		if !isInv && !isLen {
			o.Fail("sentinel", "b1t6.DecodeTrytes(%q): expected the invalid-trits or the invalid-length error, got %v", s, err)
			return nil, false
		}
		which := "invalid"
		if !isInv {
			which = "length"
		}
		o.Count(fmt.Sprintf("%s: invalid group and bad length -> %s error", class, which))
	}
	return nil, false
}

func encodeToTrytes(o *fw.Obs, src []byte) (string, bool) {
	var s trinary.Trytes
	if !o.Try("b1t6.EncodeToTrytes", func() { s = b1t6.EncodeToTrytes(src) }) {
		return "", false
	}
	if want := tern.B1T6EncodeTrytes(src); string(s) != want {
		o.Fail("encode", "b1t6.EncodeToTrytes(%x) = %q, model %q", src, s, want)
		return "", false
	}
	return string(s), true
}

// roundTrip: bytes -> trits (-> trytes) -> bytes for one codec.
func roundTrip(o *fw.Obs, c *codec, class string, src []byte) bool {
	t, ok := c.doEncode(o, src)
	if !ok {
		return false
	}
	back, acc := c.doDecode(o, class, t)
	if o.Failed() {
		return false
	}
	if !acc || !bytes.Equal(back, src) {
		o.Fail("roundtrip", "%s.Decode(Encode(%x)) = %x (accepted=%v)", c.name, src, back, acc)
		return false
	}
	if c.group != 6 {
		return true
	}
	s, ok := encodeToTrytes(o, src)
	if !ok {
		return false
	}
	if ts, ok := tern.TritsToTrytes(t); !ok || ts != s {
		o.Fail("trytes", "b1t6.EncodeToTrytes(%x) = %q but the trits of Encode read as trytes are %q", src, s, ts)
		return false
	}
	back, acc = decodeTrytes(o, class, s)
	if o.Failed() {
		return false
	}
	if !acc || !bytes.Equal(back, src) {
		o.Fail("roundtrip", "b1t6.DecodeTrytes(EncodeToTrytes(%x)) = %x (accepted=%v)", src, back, acc)
		return false
	}
	return true
}

// reencode: an accepted trit string must be reproduced by Encode.
func reencode(o *fw.Obs, c *codec, src []int8, decoded []byte) {
	t, ok := c.doEncode(o, decoded)
	if !ok {
		return
	}
	if !eqTrits(t, src) {
		o.Fail("reencode", "%s: accepted input %s decodes to %x which encodes to %s", c.name, tritString(src), decoded, tritString(t))
		return
	}
	o.Count("accepted input re-encodes to itself")
}

func classify(o *fw.Obs, class string, mv tern.Verdict) {
	switch {
	case mv.BadGroup && mv.BadLen:
		o.Count(class + ": invalid group and bad length")
	case mv.BadGroup:
		o.Count(class + ": invalid group only")
	case mv.BadRem:
		o.Count(class + ": invalid trit in the remainder only")
	case mv.BadLen:
		o.Count(class + ": bad length only")
	}
	if mv.BadGroup || mv.BadLen {
		o.Nontrivial()
	}
}

// judgeColdStart: the first decode and encode calls of a fresh process, issued by 8 goroutines at the same
// instant (tables built on first use are raced at their only vulnerable moment). Expectations are fixed
// literals computed from the model beforehand.
func judgeColdStart(o *fw.Obs) {
	o.Nontrivial()
	type probe struct {
		trits  []int8
		trytes string
		bytes  []byte
		ok     bool
	}
	var probes []probe
	for _, b := range [][]byte{{0x00}, {0x01, 0xff}, {0x7f, 0x80, 0x0d}, {0xd4, 0x3c, 0x21, 0x99}} {
		probes = append(probes, probe{tern.B1T6Encode(b), tern.B1T6EncodeTrytes(b), b, true})
	}
	probes = append(probes, probe{[]int8{1, 1, 1, 1, 1, 1}, "MM", nil, false}, probe{[]int8{-1, -1, -1, -1, -1, -1}, "NN", nil, false})
	var bad atomic.Value
	fail := func(format string, a ...interface{}) { bad.CompareAndSwap(nil, fmt.Sprintf(format, a...)) }
	panics := fw.Burst(8, func(i int) {
		for k := 0; k < len(probes); k++ {
			pr := probes[(i+k)%len(probes)]
			if i%2 == 0 {
				dst := make([]byte, len(pr.trits)/6+1)
				n, err := b1t6.Decode(dst, trinary.Trits(append([]int8(nil), pr.trits...)))
				if (err == nil) != pr.ok || (pr.ok && !bytes.Equal(dst[:n], pr.bytes)) {
					fail("b1t6.Decode(%v) = %x, err=%v; expected %x, valid=%v", pr.trits, dst[:n], err, pr.bytes, pr.ok)
				}
			} else {
				got, err := b1t6.DecodeTrytes(trinary.Trytes(pr.trytes))
				if (err == nil) != pr.ok || (pr.ok && !bytes.Equal(got, pr.bytes)) {
					fail("b1t6.DecodeTrytes(%q) = %x, err=%v; expected %x, valid=%v", pr.trytes, got, err, pr.bytes, pr.ok)
				}
			}
			if pr.ok {
				if s := b1t6.EncodeToTrytes(pr.bytes); s != pr.trytes {
					fail("b1t6.EncodeToTrytes(%x) = %q, expected %q", pr.bytes, s, pr.trytes)
				}
				t8 := make(trinary.Trits, b1t8.EncodedLen(len(pr.bytes)))
				b1t8.Encode(t8, pr.bytes)
				back := make([]byte, len(pr.bytes))
				if n, err := b1t8.Decode(back, t8); err != nil || n != len(pr.bytes) || !bytes.Equal(back, pr.bytes) {
					fail("b1t8 round trip of %x gave %x (n=%d, err=%v)", pr.bytes, back, n, err)
				}
			}
		}
	})
	for _, pv := range panics {
		if pv != nil {
			o.Fail("panic", "panic in one of 8 goroutines making the first codec calls of the process at the same instant: %v", pv)
			return
		}
	}
	if m := bad.Load(); m != nil {
		o.Fail("coldstart", "8 goroutines made the first codec calls of a fresh process at the same instant: %s", m)
		return
	}
	o.Count("cold start: first calls of a process made concurrently")
}

func judge(class string, key []byte, o *fw.Obs) {
	if class == "coldstart" {
		judgeColdStart(o)
		return
	}
	switch class {
	case clB6Byte, clB8Byte:
		if len(key) != 1 {
			panic("c14: bad byte key")
		}
		c := c6
		if class == clB8Byte {
			c = c8
		}
		if roundTrip(o, c, class, key) {
			o.Count(class + " ok")
		}
	case clB6Bytes, clB8Bytes:
		c := c6
		if class == clB8Bytes {
			c = c8
		}
		if roundTrip(o, c, class, buildBytes(class, key)) {
			o.Count(class + " ok")
		}
	case clB6Group, clB8Group, clB6Seq, clB8Seq:
		c := c6
		if class == clB8Group || class == clB8Seq {
			c = c8
		}
		var src []int8
		if class == clB6Group || class == clB8Group {
			src = groupTrits(fw.GetU32(key), c.group)
		} else {
			src = buildTrits(class, parseSeq(key), c.group)
		}
		classify(o, class, c.mDecode(src))
		if dec, acc := c.doDecode(o, class, src); acc {
			reencode(o, c, src, dec)
		}
	case clB6Trytes, clB6TSeq:
		var s string
		if class == clB6Trytes {
			s = trytePair(fw.GetU32(key))
		} else {
			s = buildTrytes(parseSeq(key))
		}
		mv, _ := tern.B1T6DecodeTrytes(s)
		classify(o, class, mv)
		dec, acc := decodeTrytes(o, class, s)
		if !acc {
			return
		}
		back, ok := encodeToTrytes(o, dec)
		if !ok {
			return
		}
		if back != s {
			o.Fail("reencode", "b1t6: accepted trytes %q decode to %x which encode to %q", s, dec, back)
			return
		}
		o.Count("accepted input re-encodes to itself")
	default:
		panic("c14: unknown class " + class)
	}
}

// ---------------------------------------------------------------------------

func gen(g *fw.Gen) {
	i := 0
	own := func() bool { i++; return g.Own(i - 1) }
	for b := 0; b < 256; b++ {
		if own() {
			g.Emit(clB6Byte, []byte{byte(b)})
		}
		if own() {
			g.Emit(clB8Byte, []byte{byte(b)})
		}
	}
	for idx := uint32(0); idx < 729; idx++ {
		if own() {
			g.Emit(clB6Group, fw.U32(idx))
		}
		if own() {
			g.Emit(clB6Trytes, fw.U32(idx))
		}
	}
	for idx := uint32(0); idx < 6561; idx++ {
		if own() {
			g.Emit(clB8Group, fw.U32(idx))
		}
	}
	// sequences: every group count x every position of the invalid group x every remainder
	reps := g.Pick(15, 1000)
	for rep := 0; rep < reps; rep++ {
		for ng := 0; ng <= 64; ng++ {
			for bad := 0; bad <= ng; bad++ {
				more := 0
				if bad > 0 && rep%3 == 2 {
					more = 1
				}
				for rem := 0; rem <= 7; rem++ {
					for flag := 0; flag <= 1; flag++ {
						if rem == 0 && flag == 1 {
							continue
						}
						if !own() {
							continue
						}
						// valid encodings not produced by the library itself: a few more of them
						k := 1
						if bad == 0 && rem == 0 {
							k = 8
						}
						for ; k > 0; k-- {
							if rem <= 5 {
								g.Emit(clB6Seq, seqKey(g.Rng.Int63(), ng, bad, more, rem, flag))
							}
							g.Emit(clB8Seq, seqKey(g.Rng.Int63(), ng, bad, more, rem, flag))
							if rem <= 1 && flag == 0 {
								g.Emit(clB6TSeq, seqKey(g.Rng.Int63(), ng, bad, more, rem, 0))
							}
						}
					}
				}
			}
		}
	}
	// long sequences (beyond any plausible internal block size) with the first invalid group late
	for rep := 0; rep < g.Pick(1, 30); rep++ {
		for _, ng := range []int{255, 256, 257, 511, 513, 1023, 1024, 1025, 1026, 1500, 2047, 2048, 2049, 3000, 4095, 4097, 5000} {
			for _, bad := range []int{0, 1, ng / 2, 256, 257, 1024, 1025, 1026, 2048, 2049, ng - 1, ng} {
				if bad > ng {
					continue
				}
				if !own() {
					continue
				}
				rem := g.Rng.Intn(8)
				g.Emit(clB8Seq, longSeqKey(g.Rng.Int63(), ng, bad, g.Rng.Intn(2), rem, g.Rng.Intn(2)))
				g.Emit(clB6Seq, longSeqKey(g.Rng.Int63(), ng, bad, g.Rng.Intn(2), rem%6, g.Rng.Intn(2)))
				g.Emit(clB6TSeq, longSeqKey(g.Rng.Int63(), ng, bad, g.Rng.Intn(2), rem%2, 0))
			}
		}
	}
	// byte strings through encode and decode
	for n := g.ShareOf(200000, 6000000); n > 0; n-- {
		l := g.Rng.Intn(65)
		if g.Rng.Intn(50) == 0 {
			l = g.Rng.Intn(2001)
		}
		if n%4000 == 0 { // large inputs (an implementation may split them into chunks or hand them to several goroutines)
			l = []int{16383, 16384, 16385, 20011, 65535, 65536, 65537, 100003, 262147}[g.Rng.Intn(9)]
			if g.Build == "386" && l > 70000 {
				l = 16385
			}
		}
		if n%2 == 0 {
			g.Emit(clB6Bytes, bytesKey(g.Rng.Int63(), l))
		} else {
			g.Emit(clB8Bytes, bytesKey(g.Rng.Int63(), l))
		}
	}
}
