// Package c05 monitors bech32.Encode against the BIP-173 model encoder
// (string equality, domain of success) and bech32.Decode as its inverse.
package c05

import (
	"bytes"
	"fmt"
	"math/rand"

	"github.com/wollac/iota-crypto-demo/pkg/bech32"

	"verif/harness/fw"
	"verif/harness/oracle/bech32m"
	"verif/harness/prop/bechscan"
)

func init() {
	req := []string{"model=accept impl=accept", "model=reject impl=reject", "round trip ok",
		"accepted at total length 90", "rejected at total length 91, valid hrp", "rejected: empty hrp", "rejected: mixed-case hrp",
		"rejected: hrp byte in 0..32", "rejected: hrp byte 127", "rejected: hrp byte >= 128", "accepted: upper-case hrp", "accepted: hrp without letters",
		"accepted: data length 51", "accepted: data length 0"}
	for r := 0; r < 5; r++ {
		req = append(req, fmt.Sprintf("accepted: data length mod 5 = %d", r))
	}
	fw.Register(&fw.Prop{
		ID:                  "C05",
		DeadlockIsViolation: true,                       // the calls of this property are synchronous functions of their inputs: a call blocked for good inside the library is a violation
		Builds:              []string{"default", "386"}, // the 386 build runs a quarter of the random classes on a 32-bit target
		Parallel:            4,                          // cases are judged on 4 goroutines per shard: the library functions are stateless, shared state inside them shows up as wrong verdicts
		Rule: "(hrp, data) pairs: every data length 0..55 x hrp length chosen so that the result has 86..93 characters (both sides of the limit; an empty hrp where that is what it takes) x hrp kind (lower-case letters, upper-case letters, digits only, any of 33..126 in one case, with '1' inside) x data pattern (zero, 0xff, random, single bit); random pairs with hrp length 1..83 and data length 0..51; far too long inputs whose would-be length lies in [256, 352), [512, 608) or [65536, 65632) (a length kept in 8 or 16 bits wraps to a value around the real limit), through long data, a long human-readable part, or both; " +
			"invalid hrps: empty, mixed case, every byte 0..32 and 127..255 at the first/middle/last position, multi-byte runes (incl. U+212A, U+0130, U+0131, U+017F), invalid UTF-8, each with short data so that only the hrp decides; over-long data 52..70 bytes. " +
			"Every Encode call: success iff the model's domain (1 <= len(hrp), chars 33..126, one case, len(hrp)+1+ceil(8n/5)+6 <= 90), string equal to the model's, empty string on error, Decode(result) == (lower(hrp), data). " +
			"Non-trivial: distinct pairs with len(data) mod 5 != 0, or a total length >= 88, or an invalid hrp.",
		Assumptions: []string{"the BIP-173 port in harness/oracle/bech32m (self-tested against the test vectors published in BIP-173)"},
		SelfTest:    bech32m.SelfTest,
		Gen:         gen,
		Judge:       judge,
		Render: func(class string, key []byte) interface{} {
			p := fw.Unpack(key)
			return map[string]interface{}{"hrp": fmt.Sprintf("%+q", string(p[0])), "hrp_hex": fw.Hex(p[0]), "data": fw.Hex(p[1]), "data_len": len(p[1])}
		},
		Required: req,
	})
}

func ar(b bool) string {
	if b {
		return "accept"
	}
	return "reject"
}

func nsyms(n int) int { return (8*n + 4) / 5 }

func judge(class string, key []byte, o *fw.Obs) {
	p := fw.Unpack(key)
	hrp, data := string(p[0]), p[1]
	want, mok := bech32m.Encode(hrp, data)
	total := len(hrp) + 1 + nsyms(len(data)) + bech32m.ChecksumLen
	// the hrp on its own (the length limit of 83 follows from the total)
	hrpOK := len(hrp) >= 1 && !(bech32m.HasLower(hrp) && bech32m.HasUpper(hrp))
	lowByte, delByte, highByte := false, false, false
	for i := 0; i < len(hrp); i++ {
		switch c := hrp[i]; {
		case c < 33:
			lowByte = true
		case c == 127:
			delByte = true
		case c >= 128:
			highByte = true
		}
	}
	hrpOK = hrpOK && !lowByte && !delByte && !highByte
	if mok != (hrpOK && total <= bech32m.MaxLen) {
		panic("c05: the model encoder and the stated domain disagree") // harness error
	}
	if len(data)%5 != 0 || total >= 88 || !hrpOK {
		o.Nontrivial()
	}

	var got string
	var err error
	var sp fw.SpareSet
	srcBuf := fw.NilIfEmpty(sp.Of("data", data, 64), byte(len(hrp))) // a window into a larger buffer: padding appended to it would write into the caller's memory
	if !o.Try("bech32.Encode", func() {
		got, err = bech32.Encode(hrp, srcBuf)
		if !sp.Check(o) {
			return
		}
		// the caller reuses its buffer and encodes something else before it looks at the first result
		for i := range srcBuf {
			srcBuf[i] ^= 0xa5
		}
		if len(srcBuf) <= 40 {
			_, _ = bech32.Encode("x", srcBuf)
		}
	}) {
		return
	}
	iok := err == nil
	o.Count(fmt.Sprintf("model=%s impl=%s", ar(mok), ar(iok)))
	if mok != iok {
		o.Fail("domain", "Encode(%+q, %d bytes): would be %d characters, hrp valid=%v: the model says %s, the implementation %s (err=%v, result %+q)",
			hrp, len(data), total, hrpOK, ar(mok), ar(iok), err, got)
		return
	}
	if !iok {
		if got != "" {
			o.Fail("errorvalue", "Encode(%+q, %x) failed with %v but returned the string %+q", hrp, data, err, got)
			return
		}
		switch {
		case len(hrp) == 0:
			o.Count("rejected: empty hrp")
		case lowByte:
			o.Count("rejected: hrp byte in 0..32")
		case delByte:
			o.Count("rejected: hrp byte 127")
		case highByte:
			o.Count("rejected: hrp byte >= 128")
		case !hrpOK:
			o.Count("rejected: mixed-case hrp")
		default:
			o.Count(fmt.Sprintf("rejected at total length %d, valid hrp", min(total, 94)))
		}
		return
	}
	if got != want {
		o.Fail("value", "Encode(%+q, %x) = %+q, BIP-173 gives %+q", hrp, data, got, want)
		return
	}
	if total >= 86 {
		o.Count(fmt.Sprintf("accepted at total length %d", total))
	}
	o.Count(fmt.Sprintf("accepted: data length mod 5 = %d", len(data)%5))
	if len(data) == 0 || len(data) == 51 {
		o.Count(fmt.Sprintf("accepted: data length %d", len(data)))
	}
	switch {
	case bech32m.HasUpper(hrp):
		o.Count("accepted: upper-case hrp")
	case !bech32m.HasLower(hrp):
		o.Count("accepted: hrp without letters")
	}
	var h2 string
	var d2 []byte
	if !o.Try("bech32.Decode", func() { h2, d2, err = bech32.Decode(got) }) {
		return
	}
	if err != nil || h2 != bech32m.Lower(hrp) || !bytes.Equal(d2, data) {
		o.Fail("inversion", "Decode(Encode(%+q, %x)) = (%+q, %x, err=%v) via %+q", hrp, data, h2, d2, err, got)
		return
	}
	o.Count("round trip ok")
}

func min(a, b int) int {
	if a < b {
		return a
	}
	return b
}

// ---------------------------------------------------------------------------

const lower = "abcdefghijklmnopqrstuvwxyz"

// hrpOf returns a valid hrp of n characters of the given kind.
func hrpOf(r *rand.Rand, n, kind int) string {
	b := make([]byte, n)
	for i := range b {
		switch kind {
		case 0:
			b[i] = lower[r.Intn(26)]
		case 1:
			b[i] = lower[r.Intn(26)] - 32
		case 2:
			b[i] = byte('0' + r.Intn(10))
		case 3: // anything printable, folded to lower case
			c := byte(33 + r.Intn(94))
			if c >= 'A' && c <= 'Z' {
				c += 32
			}
			b[i] = c
		case 4: // anything printable, folded to upper case
			c := byte(33 + r.Intn(94))
			if c >= 'a' && c <= 'z' {
				c -= 32
			}
			b[i] = c
		default: // punctuation only: no case
			b[i] = "!\"#$%&'()*+,-./:;<=>?@[\\]^_`{|}~"[r.Intn(32)]
		}
	}
	if n > 0 && r.Intn(3) == 0 {
		b[r.Intn(n)] = '1'
	}
	return string(b)
}

func dataOf(r *rand.Rand, n, pattern int) []byte {
	d := make([]byte, n)
	switch pattern {
	case 0:
	case 1:
		for i := range d {
			d[i] = 0xff
		}
	case 2:
		r.Read(d)
	default:
		if n > 0 {
			d[r.Intn(n)] = 1 << uint(r.Intn(8))
		}
	}
	return d
}

func gen(g *fw.Gen) {
	r := g.Rng
	idx := 0
	for rep := g.Pick(6, 600); rep > 0; rep-- {
		for dl := 0; dl <= 55; dl++ {
			for total := 86; total <= 93; total++ {
				hl := total - 1 - bech32m.ChecksumLen - nsyms(dl)
				if hl < 0 {
					continue
				}
				for kind := 0; kind < 6; kind++ {
					for pat := 0; pat < 4; pat++ {
						if g.Own(idx) {
							g.Emit("boundary", fw.Pack([]byte(hrpOf(r, hl, kind)), dataOf(r, dl, pat)))
						}
						idx++
					}
				}
			}
		}
	}
	for n := g.ShareOf(600000, 64000000); n > 0; n-- {
		dl := r.Intn(52)
		hl := 1 + r.Intn(83)
		if r.Intn(2) == 0 { // mostly inside the limit
			if m := bech32m.MaxLen - 7 - nsyms(dl); m >= 1 {
				hl = 1 + r.Intn(m)
			}
		}
		g.Emit("random", fw.Pack([]byte(hrpOf(r, hl, r.Intn(6))), dataOf(r, dl, r.Intn(4))))
	}
	// human-readable parts an implementation may treat specially (deployed prefixes, incl. this repository's own)
	idx = 0
	for rep := g.Pick(2, 40); rep > 0; rep-- {
		for _, h := range bechscan.WellKnownHRPs {
			for _, up := range []bool{false, true} {
				for _, dl := range []int{0, 1, 20, 32, 33, 1 + r.Intn(40)} {
					hh := h
					if up {
						hh = bech32m.Upper(h)
					}
					for len(hh)+1+nsyms(dl)+bech32m.ChecksumLen > bech32m.MaxLen && dl > 0 {
						dl--
					}
					if g.Own(idx) {
						g.Emit("random", fw.Pack([]byte(hh), dataOf(r, dl, 2)))
					}
					idx++
				}
			}
		}
	}
	// invalid human-readable parts with data short enough that only the hrp decides
	short := func() []byte { return dataOf(r, r.Intn(12), 2) }
	place := func(h string, pos int, what string) string {
		switch pos {
		case 0:
			return what + h
		case 1:
			return h[:len(h)/2] + what + h[len(h)/2:]
		default:
			return h + what
		}
	}
	idx = 0
	for rep := g.Pick(4, 400); rep > 0; rep-- {
		for c := 0; c < 256; c++ {
			if c >= 33 && c <= 126 {
				continue
			}
			for pos := 0; pos < 3; pos++ {
				if g.Own(idx) {
					h := hrpOf(r, r.Intn(20), r.Intn(6))
					g.Emit("badhrp", fw.Pack([]byte(place(h, pos, string([]byte{byte(c)}))), short()))
				}
				idx++
			}
		}
		for _, ru := range []string{"\u212a", "\u0130", "\u0131", "\u017f", "\u00e9", "\u00df", "\u212b", "\U0001f600", "\u0080", "\u00a0", "\xc0\xaa", "\xe2\x84", "\xed\xa0\x80", "\xef\xbf\xbd"} {
			for pos := 0; pos < 3; pos++ {
				for kind := 0; kind < 2; kind++ {
					if g.Own(idx) {
						g.Emit("badhrp", fw.Pack([]byte(place(hrpOf(r, r.Intn(20), kind), pos, ru)), short()))
					}
					idx++
				}
			}
		}
		if g.Own(idx) {
			g.Emit("badhrp", fw.Pack(nil, short()))
			g.Emit("badhrp", fw.Pack(nil, nil))
			g.Emit("badhrp", fw.Pack(nil, dataOf(r, 52, 2)))
		}
		idx++
	}
	for n := g.ShareOf(60000, 6000000); n > 0; n-- {
		// mixed case: a valid hrp with one lower-case and one upper-case letter put in
		hl := 2 + r.Intn(30)
		b := []byte(hrpOf(r, hl, r.Intn(6)))
		i := r.Intn(hl)
		j := (i + 1 + r.Intn(hl-1)) % hl
		b[i] = lower[r.Intn(26)]
		b[j] = lower[r.Intn(26)] - 32
		g.Emit("badhrp", fw.Pack(b, short()))
	}
	for n := g.ShareOf(20000, 2000000); n > 0; n-- {
		g.Emit("toolong", fw.Pack([]byte(hrpOf(r, 1+r.Intn(4), r.Intn(6))), dataOf(r, 52+r.Intn(19), 2)))
	}
	// far too long: would-be lengths around 256 and 65536 (a length kept in 8 or 16 bits wraps to a small value)
	// with long data, with a long human-readable part, and with both
	totalOf := func(hl, dl int) int { return hl + 1 + (8*dl+4)/5 + 6 }
	for n := g.ShareOf(4000, 200000); n > 0; n-- {
		var hl, dl int
		base := []int{256, 512, 65536}[r.Intn(3)]
		want := base + r.Intn(96) // the wrapped value 0..95 straddles the real limit of 90
		switch r.Intn(3) {
		case 0: // short hrp, long data
			hl = 1 + r.Intn(5)
			dl = (want - hl - 7) * 5 / 8
		case 1: // long hrp, little data
			dl = r.Intn(6)
			hl = want - 7 - (8*dl+4)/5
		default:
			hl = 84 + r.Intn(80)
			dl = (want - hl - 7) * 5 / 8
		}
		if hl < 1 || dl < 0 || totalOf(hl, dl) <= 90 {
			continue
		}
		if base == 65536 && n%8 != 0 {
			continue // the 64 KiB cases are big: an eighth of them
		}
		g.Emit("toolong", fw.Pack([]byte(hrpOf(r, hl, r.Intn(6))), dataOf(r, dl, r.Intn(4))))
	}
}
