// Package c02 monitors SLIP-0010 derivation on all three curves, and the retry /
// permanent-error branches through pluggable curves defined here.
package c02

import (
	"bytes"
	"encoding/binary"
	"errors"
	"fmt"
	"math/big"
	"sync"

	"github.com/wollac/iota-crypto-demo/pkg/slip10"
	"github.com/wollac/iota-crypto-demo/pkg/slip10/eddsa"
	"github.com/wollac/iota-crypto-demo/pkg/slip10/elliptic"

	"verif/harness/fw"
	"verif/harness/oracle/slip10m"
)

func init() {
	fw.Register(&fw.Prop{
		ID:                  "C02",
		DeadlockIsViolation: true,                       // the calls of this property are synchronous functions of their inputs: a call blocked for good inside the library is a violation
		Builds:              []string{"default", "386"}, // the 386 build runs 1/12 of the random classes on a 32-bit target
		Scale386:            12,
		Parallel:            4, // cases are judged on 4 goroutines per shard: the library functions are stateless, shared state inside them shows up as wrong verdicts
		Rule: "(curve, seed, path): curves secp256k1, NIST P-256, ed25519 and four pluggable curves (secp256k1/P-256 wrapped so that a quarter of all candidate I_L values are declared invalid (half of them with the sentinel wrapped by %w), on NewPrivateKey and Shift, private and public side; in a second mode a sixteenth return a permanent error; in a third mode fifteen candidates in sixteen are invalid, so that runs of 8, 16, 32 and more consecutive retries occur in master-key generation and in child steps); seeds of length 0..128; paths of length 0..8 over {0, 1, 2^31-1, 2^31, 2^31+1, 2^32-1, random hardened / non-hardened}. Each node (stepwise NewMasterKey/DeriveChild, DeriveKeyFromPath of every prefix, Public(), public-side child) is compared with the SLIP-0010 model: private key, chain code, serialized public key, parent fingerprint; undefined derivations must fail, permanent errors must be returned. validity: Curve.NewPrivateKey of the three built-in curves on 0, 1, 2, n-2..n+2, 2^256-1 and random candidates (refused with ErrInvalidKey exactly outside [1, n-1]; on ed25519 every 32-byte string is a key). deep: paths of 255, 256, 257, 300, 512 and 513 elements on the three built-in curves, derived node by node and through DeriveKeyFromPath, every node and (around depth 256 and 512) its public side compared with the model. " +
			"Non-trivial: distinct cases with path length >= 1.",
		Assumptions: []string{"HMAC-SHA512, SHA-256 (standard library), RIPEMD-160 (x/crypto)", "the SLIP-0010 model in harness/oracle/slip10m over oracle/weier and oracle/ed (self-tested against the published SLIP-0010 vectors of all three curves incl. the P-256 retry vectors)"},
		SelfTest:    slip10m.SelfTest,
		Gen:         gen,
		Judge:       judge,
		Render: func(class string, key []byte) interface{} {
			p := fw.Unpack(key)
			return map[string]interface{}{"curve": curveName(p[0][0]), "seed": fw.Hex(p[1]), "path": decPath(p[2])}
		},
		Required: []string{"validity: candidate outside [1, n-1] refused", "validity: candidate inside [1, n-1] accepted", "deep paths (255..513 elements) derived node by node", "shared parent object used concurrently", "appended into spare capacity of returned slices, key unchanged", "wrap-around shifts checked", "node ok", "master retry taken", "child retry taken", "permanent error returned", "undefined derivation refused", "public child ok"},
	})
}

// ---------------------------------------------------------------------------
// pluggable curve

var errPermanent = errors.New("harness: permanent curve error")

func verdict(mode int, il []byte) slip10m.Verdict {
	if len(il) != 32 {
		return slip10m.Valid
	}
	if mode == 3 { // long retry runs: fifteen candidates in sixteen are invalid
		if il[31]&15 != 7 {
			return slip10m.Invalid
		}
		return slip10m.Valid
	}
	if il[31]&3 == 2 {
		return slip10m.Invalid
	}
	if mode == 2 && il[31]&15 == 5 {
		return slip10m.Permanent
	}
	return slip10m.Valid
}

type plugCurve struct {
	base slip10.Curve
	mode int
}

func (c *plugCurve) Name() string    { return fmt.Sprintf("plug(%s,mode=%d)", c.base.Name(), c.mode) }
func (c *plugCurve) HmacKey() []byte { return c.base.HmacKey() }
func (c *plugCurve) check(buf []byte) error {
	switch verdict(c.mode, buf) {
	case slip10m.Invalid:
		if len(buf) > 30 && buf[30]&1 == 1 {
			// the sentinel wrapped with context, as an implementation of the Curve interface may do
			return fmt.Errorf("harness curve: candidate %x… refused: %w", buf[:2], slip10.ErrInvalidKey)
		}
		return slip10.ErrInvalidKey
	case slip10m.Permanent:
		return errPermanent
	}
	return nil
}
func (c *plugCurve) NewPrivateKey(buf []byte) (slip10.Key, error) {
	if err := c.check(buf); err != nil {
		return nil, err
	}
	k, err := c.base.NewPrivateKey(buf)
	if err != nil {
		return nil, err
	}
	return &plugKey{k, c}, nil
}

type plugKey struct {
	inner slip10.Key
	c     *plugCurve
}

func (k *plugKey) Bytes() []byte      { return k.inner.Bytes() }
func (k *plugKey) IsPrivate() bool    { return k.inner.IsPrivate() }
func (k *plugKey) Public() slip10.Key { return &plugKey{k.inner.Public(), k.c} }
func (k *plugKey) Shift(buf []byte) (slip10.Key, error) {
	if err := k.c.check(buf); err != nil {
		return nil, err
	}
	n, err := k.inner.Shift(buf)
	if err != nil {
		return nil, err
	}
	return &plugKey{n, k.c}, nil
}

const nCurves = 9

func curveName(id byte) string {
	return []string{"secp256k1", "nist256p1", "ed25519", "plug(secp256k1,retry)", "plug(nist256p1,retry)", "plug(secp256k1,retry+permanent)", "plug(nist256p1,retry+permanent)", "plug(secp256k1,15 of 16 candidates invalid)", "plug(nist256p1,15 of 16 candidates invalid)"}[id]
}

func curves(id byte) (slip10.Curve, *slip10m.Params) {
	switch id {
	case 0:
		return elliptic.Secp256k1(), slip10m.Secp256k1
	case 1:
		return elliptic.Nist256p1(), slip10m.Nist256p1
	case 2:
		return eddsa.Ed25519(), slip10m.Ed25519
	}
	mode := 1
	if id >= 5 {
		mode = 2
	}
	if id >= 7 {
		mode = 3
	}
	base, mp := elliptic.Secp256k1(), slip10m.Secp256k1
	if id == 4 || id == 6 || id == 8 {
		base, mp = elliptic.Nist256p1(), slip10m.Nist256p1
	}
	m := *mp
	m.Extra = func(il []byte) slip10m.Verdict { return verdict(mode, il) }
	return &plugCurve{base, mode}, &m
}

func encPath(p []uint32) []byte {
	b := make([]byte, 4*len(p))
	for i, v := range p {
		binary.LittleEndian.PutUint32(b[4*i:], v)
	}
	return b
}

func decPath(b []byte) []uint32 {
	p := make([]uint32, len(b)/4)
	for i := range p {
		p[i] = binary.LittleEndian.Uint32(b[4*i:])
	}
	return p
}

// ---------------------------------------------------------------------------

// cmpNode compares an implementation key with a model node.
func cmpNode(o *fw.Obs, what string, e *slip10.ExtendedKey, m *slip10m.Node) bool {
	if e == nil || e.Key == nil {
		o.Fail("nil", "%s: nil key returned without error", what)
		return false
	}
	var kb, pb, fp []byte
	var priv bool
	if !o.Try("Key.Bytes/Public/Fingerprint", func() {
		kb = e.Key.Bytes()
		pb = e.Key.Public().Bytes()
		fp = e.Fingerprint()
		priv = e.IsPrivate()
	}) {
		return false
	}
	if priv != (m.Priv != nil) {
		o.Fail("kind", "%s: IsPrivate=%v, expected %v", what, priv, m.Priv != nil)
		return false
	}
	wantKey := m.Priv
	if m.Priv == nil {
		wantKey = m.Pub
	}
	if !bytes.Equal(kb, wantKey) {
		o.Fail("key", "%s: key bytes %x, SLIP-0010 prescribes %x (model retries=%d)", what, kb, wantKey, m.Retries)
		return false
	}
	if !bytes.Equal(e.ChainCode, m.Chain) {
		o.Fail("chaincode", "%s: chain code %x, SLIP-0010 prescribes %x (model retries=%d)", what, e.ChainCode, m.Chain, m.Retries)
		return false
	}
	if !bytes.Equal(pb, m.Pub) {
		o.Fail("pubkey", "%s: serialized public key %x, SLIP-0010 prescribes %x", what, pb, m.Pub)
		return false
	}
	if !bytes.Equal(fp, m.ParentFP) {
		o.Fail("fingerprint", "%s: fingerprint %x, SLIP-0010 prescribes %x", what, fp, m.ParentFP)
		return false
	}
	// A caller may append to a returned slice (e.g. seed || public key). If the slice has spare capacity
	// the append writes behind its length; that must not reach into other fields of the key.
	scribbled := false
	for _, b := range [][]byte{kb, pb, fp, e.ChainCode} {
		if cap(b) > len(b) {
			full := b[:cap(b)]
			for i := len(b); i < len(full); i++ {
				full[i] ^= 0xa5
			}
			scribbled = true
		}
	}
	if scribbled {
		var kb2, pb2, fp2 []byte
		if !o.Try("Key.Bytes/Public/Fingerprint", func() {
			kb2 = e.Key.Bytes()
			pb2 = e.Key.Public().Bytes()
			fp2 = e.Fingerprint()
		}) {
			return false
		}
		if !bytes.Equal(kb2, wantKey) || !bytes.Equal(pb2, m.Pub) || !bytes.Equal(fp2, m.ParentFP) || !bytes.Equal(e.ChainCode, m.Chain) {
			o.Fail("aliasing", "%s: after appending to the slices returned by Bytes()/Fingerprint()/ChainCode (they have spare capacity) the key changed: key %x chain code %x public %x fingerprint %x; SLIP-0010 prescribes %x / %x / %x / %x", what, kb2, e.ChainCode, pb2, fp2, wantKey, m.Chain, m.Pub, m.ParentFP)
			return false
		}
		o.Count("appended into spare capacity of returned slices, key unchanged")
	}
	o.Count("node ok")
	return true
}

// cmpErr checks the error of a derivation the model refuses.
func cmpErr(o *fw.Obs, what string, e *slip10.ExtendedKey, err, merr error, pubParent bool, index uint32) bool {
	if err == nil {
		if merr == slip10m.ErrPermanent {
			o.Fail("permanent", "%s: the curve returned a permanent error for the prescribed candidate but a key was returned (the error was retried or dropped)", what)
		} else {
			o.Fail("undefined", "%s: SLIP-0010 does not define this derivation but a key was returned", what)
		}
		return false
	}
	if e != nil {
		o.Fail("errorvalue", "%s: error %v returned together with a key", what, err)
		return false
	}
	if merr == slip10m.ErrPermanent {
		if !errors.Is(err, errPermanent) {
			o.Fail("permanent", "%s: expected the curve's permanent error, got %v", what, err)
			return false
		}
		o.Count("permanent error returned")
		return true
	}
	if pubParent && index >= slip10.Hardened && !errors.Is(err, slip10.ErrHardenedChildPublicKey) {
		o.Fail("undefined", "%s: hardened child of a public key: expected ErrHardenedChildPublicKey, got %v", what, err)
		return false
	}
	o.Count("undefined derivation refused")
	return true
}

// judgeValidity: the validity predicate of the built-in curves, which decides the prescribed retry: a 32-byte
// candidate is a private key exactly when 0 < parse256(b) < n (secp256k1, P-256; every 32-byte string on
// ed25519). An HMAC output hits the boundary with probability 2^-128 / 2^-32, so it is driven directly.
func judgeValidity(cid byte, b []byte, o *fw.Obs) {
	o.Nontrivial()
	curve, mp := curves(cid)
	want := true
	if mp.W != nil {
		v := new(big.Int).SetBytes(b)
		want = v.Sign() > 0 && v.Cmp(mp.W.N) < 0
	}
	var k slip10.Key
	var err error
	in := append([]byte(nil), b...)
	if !o.Try("Curve.NewPrivateKey", func() { k, err = curve.NewPrivateKey(in) }) {
		return
	}
	what := fmt.Sprintf("%s NewPrivateKey(%x)", curveName(cid), b)
	if !want {
		if err == nil || !errors.Is(err, slip10.ErrInvalidKey) || k != nil {
			o.Fail("validity", "%s: the candidate is 0 or not below the group order, SLIP-0010 prescribes a retry (ErrInvalidKey); got key=%v err=%v", what, k != nil, err)
			return
		}
		o.Count("validity: candidate outside [1, n-1] refused")
		return
	}
	if err != nil || k == nil {
		o.Fail("validity", "%s: a valid candidate was refused: %v", what, err)
		return
	}
	var kb, pb []byte
	var priv bool
	if !o.Try("Key.Bytes/Public", func() { kb, priv, pb = k.Bytes(), k.IsPrivate(), k.Public().Bytes() }) {
		return
	}
	m, merr := mp.KeyOf(b)
	if merr != nil {
		panic("c02: model refuses a valid candidate")
	}
	if !priv || !bytes.Equal(kb, b) || !bytes.Equal(pb, m) {
		o.Fail("validity", "%s: key bytes %x, public key %x; SLIP-0010 prescribes %x / %x", what, kb, pb, b, m)
		return
	}
	o.Count("validity: candidate inside [1, n-1] accepted")
}

// judgeDeep: derivation paths of 255..513 elements (depth counters narrower than int), stepwise and through
// DeriveKeyFromPath, every node compared with the model.
func judgeDeep(cid byte, seed []byte, path []uint32, o *fw.Obs) {
	o.Nontrivial()
	curve, mp := curves(cid)
	mnode, merr := mp.Master(seed)
	if merr != nil {
		return // judged by the derive class
	}
	var node *slip10.ExtendedKey
	var err error
	if !o.Try("NewMasterKey", func() { node, err = slip10.NewMasterKey(seed, curve) }) {
		return
	}
	if err != nil {
		o.Fail("error", "%s master: unexpected error %v", curveName(cid), err)
		return
	}
	for step, idx := range path {
		mchild, merr := mp.Child(mnode, idx)
		if merr != nil {
			return // the model defines nothing beyond this point; judged by the derive class
		}
		var child *slip10.ExtendedKey
		if !o.Try("DeriveChild", func() { child, err = node.DeriveChild(idx) }) {
			return
		}
		what := fmt.Sprintf("%s deep path (%d elements, seed %x) depth %d (index %d)", curveName(cid), len(path), seed, step+1, idx)
		if err != nil {
			o.Fail("error", "%s: unexpected error %v", what, err)
			return
		}
		if !cmpNode(o, what, child, mchild) {
			return
		}
		node, mnode = child, mchild
		if d := step + 1; d >= 254 && d <= 258 || d >= 510 {
			if !judgePublic(o, cid, mp, node, mnode, path[:d], d) {
				return
			}
		}
	}
	var viaPath *slip10.ExtendedKey
	if !o.Try("DeriveKeyFromPath", func() { viaPath, err = slip10.DeriveKeyFromPath(seed, curve, path) }) {
		return
	}
	if err != nil {
		o.Fail("error", "%s deep path (%d elements): DeriveKeyFromPath failed: %v", curveName(cid), len(path), err)
		return
	}
	if !cmpNode(o, fmt.Sprintf("%s deep path (%d elements, seed %x) via DeriveKeyFromPath", curveName(cid), len(path), seed), viaPath, mnode) {
		return
	}
	o.Count("deep paths (255..513 elements) derived node by node")
}

func judge(class string, key []byte, o *fw.Obs) {
	p := fw.Unpack(key)
	cid, seed, path := p[0][0], p[1], decPath(p[2])
	if class == "deep" {
		judgeDeep(cid, seed, path, o)
		return
	}
	if class == "validity" {
		judgeValidity(cid, seed, o)
		return
	}
	curve, mp := curves(cid)
	if len(path) >= 1 {
		o.Nontrivial()
	}
	seedCopy := append([]byte(nil), seed...)

	// master
	mnode, merr := mp.Master(seed)
	var node *slip10.ExtendedKey
	var err error
	var sp fw.SpareSet
	seedBuf := sp.Of("seed", seed, 64)
	if !o.Try("NewMasterKey", func() { node, err = slip10.NewMasterKey(seedBuf, curve) }) {
		return
	}
	if !sp.Check(o) {
		return
	}
	if !bytes.Equal(seedBuf, seedCopy) {
		o.Fail("mutation", "NewMasterKey modified the seed")
		return
	}
	for i := range seedBuf { // the caller wipes its seed buffer: the key must not depend on it any more
		seedBuf[i] = 0xee
	}
	what := fmt.Sprintf("%s master", curveName(cid))
	if merr != nil {
		if !cmpErr(o, what, node, err, merr, false, 0) {
			return
		}
		// DeriveKeyFromPath must fail the same way
		var k2 *slip10.ExtendedKey
		var err2 error
		if !o.Try("DeriveKeyFromPath", func() { k2, err2 = slip10.DeriveKeyFromPath(seed, curve, path) }) {
			return
		}
		cmpErr(o, what+" via DeriveKeyFromPath", k2, err2, merr, false, 0)
		return
	}
	if err != nil {
		o.Fail("error", "%s: unexpected error %v", what, err)
		return
	}
	if mnode.Retries > 0 {
		o.Count("master retry taken")
	}
	if !cmpNode(o, what, node, mnode) {
		return
	}

	for step := 0; ; step++ {
		// public side of the current node
		if !judgePublic(o, cid, mp, node, mnode, path, step) {
			return
		}
		// candidates I_L for which parse256(I_L) + k_par wraps around the group order: the HMAC
		// produces them with probability 2^-32 (P-256) / 2^-128 (secp256k1), so they are driven directly
		if cid <= 1 && !judgeWrap(o, cid, mp, node, mnode, uint64(len(seed))+uint64(step)) {
			return
		}
		if step == len(path) {
			if len(seed)%3 == 0 && !judgeSharedParent(o, cid, mp, curve, seed, path, mnode) {
				return
			}
			break
		}
		idx := path[step]
		what = fmt.Sprintf("%s path %v step %d (index %d)", curveName(cid), path, step, idx)
		mchild, merr := mp.Child(mnode, idx)
		var child *slip10.ExtendedKey
		if !o.Try("DeriveChild", func() { child, err = node.DeriveChild(idx) }) {
			return
		}
		// DeriveKeyFromPath over the prefix must agree with the stepwise derivation
		var viaPath *slip10.ExtendedKey
		var perr error
		sb2 := append([]byte(nil), seed...)
		pb2 := append([]uint32(nil), path[:step+1]...)
		if !o.Try("DeriveKeyFromPath", func() { viaPath, perr = slip10.DeriveKeyFromPath(sb2, curve, pb2) }) {
			return
		}
		for i := range sb2 {
			sb2[i] = 0x11
		}
		for i := range pb2 {
			pb2[i] = 0xffffffff
		}
		if merr != nil {
			if !cmpErr(o, what, child, err, merr, false, idx) || !cmpErr(o, what+" via DeriveKeyFromPath", viaPath, perr, merr, false, idx) {
				return
			}
			return // the model defines nothing beyond this point
		}
		if err != nil || perr != nil {
			o.Fail("error", "%s: unexpected error (DeriveChild: %v, DeriveKeyFromPath: %v)", what, err, perr)
			return
		}
		if mchild.Retries > 0 {
			o.Count("child retry taken")
			if mchild.Retries >= 3 {
				o.Count("child retry taken 3+ rounds")
			}
		}
		if !cmpNode(o, what, child, mchild) || !cmpNode(o, what+" via DeriveKeyFromPath", viaPath, mchild) {
			return
		}
		// history: deriving further children from the same parent object (a sibling, and the same
		// child again) must not change a result handed out earlier
		var again *slip10.ExtendedKey
		if !o.Try("DeriveChild (sibling)", func() {
			_, _ = node.DeriveChild(idx ^ 1)
			again, err = node.DeriveChild(idx)
		}) {
			return
		}
		if err != nil {
			o.Fail("error", "%s: deriving the same child a second time failed: %v", what, err)
			return
		}
		if !cmpNode(o, what+" (re-inspected after a sibling was derived from the same parent)", child, mchild) ||
			!cmpNode(o, what+" (derived a second time)", again, mchild) {
			return
		}
		o.Count("earlier result re-inspected after sibling derivation")
		node, mnode = child, mchild
	}
}

// judgeSharedParent: one freshly derived parent object is used by several goroutines at once
// (DeriveChild with different indices, Public, Fingerprint); every result must equal the model's.
func judgeSharedParent(o *fw.Obs, cid byte, mp *slip10m.Params, curve slip10.Curve, seed []byte, path []uint32, mparent *slip10m.Node) bool {
	var parent *slip10.ExtendedKey
	var err error
	if !o.Try("DeriveKeyFromPath", func() { parent, err = slip10.DeriveKeyFromPath(seed, curve, path) }) {
		return false
	}
	if err != nil {
		return true // judged by the stepwise part
	}
	const G = 4
	type res struct {
		idx   uint32
		child *slip10.ExtendedKey
		err   error
		pub   []byte
		fp    []byte
		pan   interface{}
	}
	out := make([]res, G)
	var wg sync.WaitGroup
	start := make(chan struct{})
	for g := 0; g < G; g++ {
		out[g].idx = uint32(g)
		if cid == 2 || g%2 == 1 {
			out[g].idx |= 1 << 31
		}
		wg.Add(1)
		go func(r *res) {
			defer wg.Done()
			defer func() { r.pan = recover() }()
			<-start
			r.child, r.err = parent.DeriveChild(r.idx)
			r.pub = parent.Key.Public().Bytes()
			r.fp = parent.Fingerprint()
		}(&out[g])
	}
	close(start)
	wg.Wait()
	for _, r := range out {
		what := fmt.Sprintf("%s path %v: child %d derived while %d goroutines use the same parent object", curveName(cid), path, r.idx, G)
		if r.pan != nil {
			o.Fail("panic", "%s: panic: %v", what, r.pan)
			return false
		}
		mchild, merr := mp.Child(mparent, r.idx)
		if merr != nil {
			if !cmpErr(o, what, r.child, r.err, merr, false, r.idx) {
				return false
			}
			continue
		}
		if r.err != nil {
			o.Fail("error", "%s: unexpected error %v", what, r.err)
			return false
		}
		if !bytes.Equal(r.pub, mparent.Pub) || !bytes.Equal(r.fp, mparent.ParentFP) {
			o.Fail("pubkey", "%s: parent public key %x / fingerprint %x, SLIP-0010 prescribes %x / %x", what, r.pub, r.fp, mparent.Pub, mparent.ParentFP)
			return false
		}
		if !cmpNode(o, what, r.child, mchild) {
			return false
		}
	}
	o.Count("shared parent object used concurrently")
	return true
}

// judgeWrap calls Shift on the node's private key with I_L = n - k + d (sum = n + d) and on its public key.
func judgeWrap(o *fw.Obs, cid byte, mp *slip10m.Params, node *slip10.ExtendedKey, mnode *slip10m.Node, salt uint64) bool {
	n := mp.W.N
	k := new(big.Int).SetBytes(mnode.Priv)
	r := fw.SubRng(int64(salt), "c02-wrap", string(mnode.Priv))
	var d *big.Int
	switch r.Intn(4) {
	case 0:
		d = big.NewInt(0) // the sum is exactly n: the child key would be zero -> invalid key
	case 1:
		d = big.NewInt(int64(1 + r.Intn(3)))
	default:
		d = new(big.Int).Rand(r, k) // 0 <= d < k keeps I_L below n
	}
	if d.Cmp(k) >= 0 {
		return true
	}
	il := new(big.Int).Sub(n, k)
	il.Add(il, d)
	ilb := il.FillBytes(make([]byte, 32))
	var ck, cp slip10.Key
	var ek, ep error
	if !o.Try("Key.Shift (wrap-around candidate)", func() {
		ck, ek = node.Key.Shift(ilb)
		cp, ep = node.Key.Public().Shift(ilb)
	}) {
		return false
	}
	what := fmt.Sprintf("%s Shift with I_L = n - k + %v (k = %x)", curveName(cid), d, mnode.Priv)
	if d.Sign() == 0 {
		if !errors.Is(ek, slip10.ErrInvalidKey) || !errors.Is(ep, slip10.ErrInvalidKey) {
			o.Fail("wrap", "%s: the child key is zero, both sides must report ErrInvalidKey; got private err=%v public err=%v", what, ek, ep)
			return false
		}
		o.Count("wrap-around shifts checked")
		return true
	}
	if ek != nil || ep != nil {
		o.Fail("wrap", "%s: unexpected errors private=%v public=%v", what, ek, ep)
		return false
	}
	wantPriv := d.FillBytes(make([]byte, 32)) // (k + n - k + d) mod n = d
	wantPub := mp.W.Compress(mp.W.BaseMul(d))
	var b1, b2, b3 []byte
	if !o.Try("Bytes", func() { b1, b2, b3 = ck.Bytes(), ck.Public().Bytes(), cp.Bytes() }) {
		return false
	}
	if !bytes.Equal(b1, wantPriv) || !bytes.Equal(b2, wantPub) || !bytes.Equal(b3, wantPub) {
		o.Fail("wrap", "%s: private child %x (public %x), public child %x; SLIP-0010 prescribes %x / %x", what, b1, b2, b3, wantPriv, wantPub)
		return false
	}
	o.Count("wrap-around shifts checked")
	return true
}

// judgePublic checks Public() of a node and one child derivation from it.
func judgePublic(o *fw.Obs, cid byte, mp *slip10m.Params, node *slip10.ExtendedKey, mnode *slip10m.Node, path []uint32, step int) bool {
	var pub *slip10.ExtendedKey
	if !o.Try("ExtendedKey.Public", func() { pub = node.Public() }) {
		return false
	}
	mpub := mnode.Public()
	what := fmt.Sprintf("%s path %v prefix %d public", curveName(cid), path, step)
	if !cmpNode(o, what, pub, mpub) {
		return false
	}
	// Public() of a key that is already public: the same public node (key, chain code, parent fingerprint)
	var pub2 *slip10.ExtendedKey
	if !o.Try("ExtendedKey.Public (of a public key)", func() { pub2 = pub.Public() }) {
		return false
	}
	if !cmpNode(o, what+", Public() called on the public key again", pub2, mpub) {
		return false
	}
	// index: the next path element made non-hardened, and (alternating) a hardened one
	var idx uint32
	if step < len(path) {
		idx = path[step] &^ (1 << 31)
	} else {
		idx = uint32(step)
	}
	if (step+len(path))%3 == 0 {
		idx |= 1 << 31
	}
	mchild, merr := mp.Child(mpub, idx)
	var child *slip10.ExtendedKey
	var err error
	if !o.Try("public DeriveChild", func() { child, err = pub.DeriveChild(idx) }) {
		return false
	}
	what = fmt.Sprintf("%s child %d", what, idx)
	if merr != nil {
		return cmpErr(o, what, child, err, merr, true, idx)
	}
	if err != nil {
		o.Fail("error", "%s: unexpected error %v", what, err)
		return false
	}
	if mchild.Retries > 0 {
		o.Count("public child retry taken")
	}
	if !cmpNode(o, what, child, mchild) {
		return false
	}
	if !o.Try("public DeriveChild (sibling)", func() { _, _ = pub.DeriveChild((idx ^ 1) &^ (1 << 31)) }) {
		return false
	}
	if !cmpNode(o, what+" (re-inspected after a sibling was derived from the same public parent)", child, mchild) {
		return false
	}
	o.Count("public child ok")
	return true
}

// ---------------------------------------------------------------------------

var idxPool = []uint32{0, 1, 2, 1<<31 - 1, 1 << 31, 1<<31 + 1, 1<<32 - 1, 44 + 1<<31, 1000000000}

func gen(g *fw.Gen) {
	for n := g.ShareOf(2400, 60000); n > 0; n-- {
		cid := byte(g.Rng.Intn(nCurves))
		var seed []byte
		switch g.Rng.Intn(6) {
		case 0:
			seed = g.Bytes(g.Rng.Intn(16))
		case 1:
			seed = g.Bytes(65 + g.Rng.Intn(64))
		case 2:
			seed = make([]byte, 16+g.Rng.Intn(49))
		default:
			seed = g.Bytes(16 + g.Rng.Intn(49))
		}
		l := g.Rng.Intn(9)
		if g.Rng.Intn(3) > 0 && l > 4 {
			l = g.Rng.Intn(4)
		}
		path := make([]uint32, l)
		for i := range path {
			switch g.Rng.Intn(3) {
			case 0:
				path[i] = idxPool[g.Rng.Intn(len(idxPool))]
			case 1:
				path[i] = g.Rng.Uint32() | 1<<31
			default:
				path[i] = g.Rng.Uint32() &^ (1 << 31)
			}
			if cid == 2 && g.Rng.Intn(6) > 0 {
				path[i] |= 1 << 31
			}
		}
		g.Emit("derive", fw.Pack([]byte{cid}, seed, encPath(path)))
	}
	// validity predicate of the built-in curves at its boundaries
	{
		k := 0
		for cid := byte(0); cid < 3; cid++ {
			_, mp := curves(cid)
			var cands [][]byte
			fillb := func(v *big.Int) []byte { return v.FillBytes(make([]byte, 32)) }
			max := new(big.Int).Sub(new(big.Int).Lsh(big.NewInt(1), 256), big.NewInt(1))
			cands = append(cands, make([]byte, 32), fillb(big.NewInt(1)), fillb(big.NewInt(2)), fillb(max))
			if mp.W != nil {
				for d := int64(-2); d <= 2; d++ {
					cands = append(cands, fillb(new(big.Int).Add(mp.W.N, big.NewInt(d))))
				}
			}
			for n := 0; n < 4; n++ {
				cands = append(cands, g.Bytes(32))
			}
			for _, c := range cands {
				k++
				if g.Own(k) {
					g.Emit("validity", fw.Pack([]byte{cid}, c, nil))
				}
			}
		}
	}
	// deep paths: one per (built-in curve, length), spread over the shards; thorough: several seeds
	i := 0
	for rep := 0; rep < g.Pick(1, 6); rep++ {
		for cid := byte(0); cid < 3; cid++ {
			for _, l := range []int{255, 256, 257, 300, 512, 513} {
				i++
				if !g.Own(i) || (g.Build == "386" && l > 300) || (g.Quick() && l > 300 && cid != byte(g.Seed%3)) {
					continue // quick tier: depth 512/513 on one curve (chosen by the seed)
				}
				path := make([]uint32, l)
				for k := range path {
					path[k] = g.Rng.Uint32()
					if cid == 2 || g.Rng.Intn(3) == 0 {
						path[k] |= 1 << 31
					} else if g.Rng.Intn(2) == 0 {
						path[k] &^= 1 << 31
					}
				}
				g.Emit("deep", fw.Pack([]byte{cid}, g.Bytes(16+g.Rng.Intn(49)), encPath(path)))
			}
		}
	}
}
