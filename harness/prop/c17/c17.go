// Package c17 monitors both copies of the secp256k1 implementation against the
// affine chord-and-tangent model.
package c17

import (
	"bytes"
	stdelliptic "crypto/elliptic"
	"fmt"
	"math/big"
	"sync"

	"github.com/wollac/iota-crypto-demo/pkg/slip10/btccurve"
	"github.com/wollac/iota-crypto-demo/pkg/slip10/elliptic"

	"verif/harness/fw"
	"verif/harness/oracle/weier"
)

func init() {
	fw.Register(&fw.Prop{
		ID:                  "C17",
		DeadlockIsViolation: true,                       // the calls of this property are synchronous functions of their inputs: a call blocked for good inside the library is a violation
		Builds:              []string{"default", "386"}, // the 386 build runs 1/6 of the random classes on a 32-bit target
		Scale386:            6,
		Parallel:            4, // cases are judged on 4 goroutines per shard: the library functions are stateless, shared state inside them shows up as wrong verdicts
		Rule: "calls Add, Double, ScalarMult, ScalarBaseMult, IsOnCurve on both copies of the curve (pkg/slip10/btccurve and the internal one behind elliptic.Secp256k1()) with points {G, [k]G small/random k, lifted random x, constructed boundary points with x or y in [n, p) or y close to 0, -P, (0,0)} in pairs {random, P=Q, P=-Q, identity operand(s)} and scalars {empty, 0, 1, 2, n-1, n, n+1, n+2, 2n, 2^256-1, k with [k] hitting +-P midway, random 1..40 bytes, sparse scalars of up to 100 bytes (2^a, 2^a+2^b, 2^a+small, a<800: zero runs of several hundred bits), 0..8 leading zero bytes}; each result compared with the affine model (identity as (0,0)); algebraic identities [a]P+[b]P=[a+b]P, [n]P=O, commutativity on the library alone. " +
			"Non-trivial: distinct calls in a corner class (equal, opposite, identity operand, scalar = 0 mod n, scalar >= n, leading zeros, off-curve neighbours for IsOnCurve).",
		Assumptions: []string{"math/big", "the affine model in harness/oracle/weier (self-tested: published 2G/3G, [n]G=O, agreement with crypto/elliptic on P-256)"},
		SelfTest:    weier.SelfTest,
		Gen:         gen,
		Judge:       judge,
		Render: func(class string, key []byte) interface{} {
			p := fw.Unpack(key)
			m := map[string]interface{}{"curve_copy": copyName(p[0][0])}
			for i, part := range p[1:] {
				m[fmt.Sprintf("arg%d", i)] = fw.Hex(part)
			}
			return m
		},
		Required: []string{"add ok", "double ok", "scalarmult ok", "basemult ok", "isoncurve true", "isoncurve false", "isoncurve: curve point with a coordinate in [n, p)", "add: operands with the same y and different x", "identities ok", "result=identity"},
	})
}

var mc = weier.Secp256k1()

func copyName(b byte) string {
	if b == 0 {
		return "pkg/slip10/btccurve"
	}
	return "pkg/slip10/elliptic/internal/btccurve"
}

var (
	internalCurve stdelliptic.Curve
	internalOnce  sync.Once
)

func curveOf(b byte) stdelliptic.Curve {
	if b == 0 {
		return btccurve.Secp256k1()
	}
	internalOnce.Do(func() {
		one := make([]byte, 32)
		one[31] = 1
		k, err := elliptic.Secp256k1().NewPrivateKey(one)
		if err != nil {
			panic(err)
		}
		internalCurve = k.(*elliptic.PrivateKey).Curve
	})
	return internalCurve
}

func encPt(p weier.Pt) []byte {
	out := make([]byte, 64)
	if p.Inf {
		return out
	}
	p.X.FillBytes(out[:32])
	p.Y.FillBytes(out[32:])
	return out
}

func decPt(b []byte) (x, y *big.Int, m weier.Pt) {
	x, y = new(big.Int).SetBytes(b[:32]), new(big.Int).SetBytes(b[32:])
	if x.Sign() == 0 && y.Sign() == 0 {
		return x, y, weier.Inf()
	}
	return x, y, weier.Pt{X: new(big.Int).Set(x), Y: new(big.Int).Set(y)}
}

// cmp compares a library result with the model point.
func cmp(o *fw.Obs, what string, x, y *big.Int, want weier.Pt) bool {
	if x == nil || y == nil {
		o.Fail("nil", "%s returned nil coordinates (x=%v y=%v), expected %v", what, x, y, want)
		return false
	}
	if want.Inf {
		o.Count("result=identity")
		if x.Sign() != 0 || y.Sign() != 0 {
			o.Fail("value", "%s = (%x, %x), expected the identity (0,0)", what, x, y)
			return false
		}
		return true
	}
	if x.Cmp(want.X) != 0 || y.Cmp(want.Y) != 0 {
		o.Fail("value", "%s = (%x, %x), expected %v", what, x, y, want)
		return false
	}
	return true
}

func judge(class string, key []byte, o *fw.Obs) {
	p := fw.Unpack(key)
	c := curveOf(p[0][0])
	n := mc.N
	switch class {
	case "add":
		x1, y1, m1 := decPt(p[1])
		x2, y2, m2 := decPt(p[2])
		if m1.Inf || m2.Inf || weier.Equal(m1, m2) || weier.Equal(m1, mc.Neg(m2)) {
			o.Nontrivial()
		}
		if !m1.Inf && !m2.Inf && m1.Y.Cmp(m2.Y) == 0 && m1.X.Cmp(m2.X) != 0 {
			o.Nontrivial()
			o.Count("add: operands with the same y and different x")
		}
		want := mc.Add(m1, m2)
		var x, y, xr, yr *big.Int
		cx1, cy1, cx2, cy2 := new(big.Int).Set(x1), new(big.Int).Set(y1), new(big.Int).Set(x2), new(big.Int).Set(y2)
		if !o.Try("Add", func() {
			x, y = c.Add(x1, y1, x2, y2)
			xr, yr = c.Add(x2, y2, x1, y1)
		}) {
			return
		}
		if x1.Cmp(cx1) != 0 || y1.Cmp(cy1) != 0 || x2.Cmp(cx2) != 0 || y2.Cmp(cy2) != 0 {
			o.Fail("mutation", "Add modified its arguments: P=%v Q=%v became (%x,%x) (%x,%x)", m1, m2, x1, y1, x2, y2)
			return
		}
		if weier.Equal(m1, m2) {
			// the very same *big.Int objects for both operands
			var xs, ys *big.Int
			if !o.Try("Add(P, P) with shared arguments", func() { xs, ys = c.Add(x1, y1, x1, y1) }) {
				return
			}
			if !cmp(o, fmt.Sprintf("Add(%v, same objects)", m1), xs, ys, want) {
				return
			}
		}
		if cmp(o, fmt.Sprintf("Add(%v, %v)", m1, m2), x, y, want) && cmp(o, fmt.Sprintf("Add(%v, %v)", m2, m1), xr, yr, want) {
			// the results belong to the caller: it overwrites them, then asks again
			x.SetInt64(12345)
			y.SetInt64(-1)
			xr.Lsh(xr, 7)
			var x3, y3 *big.Int
			if !o.Try("Add (again)", func() { x3, y3 = c.Add(x1, y1, x2, y2) }) {
				return
			}
			if cmp(o, fmt.Sprintf("Add(%v, %v) again, after the caller overwrote the first results", m1, m2), x3, y3, want) {
				o.Count("add ok")
			}
		}
	case "double":
		x1, y1, m1 := decPt(p[1])
		if m1.Inf {
			o.Nontrivial()
		}
		want := mc.Add(m1, m1)
		var x, y *big.Int
		if !o.Try("Double", func() { x, y = c.Double(x1, y1) }) {
			return
		}
		if cmp(o, fmt.Sprintf("Double(%v)", m1), x, y, want) {
			o.Count("double ok")
		}
	case "scalarmult", "basemult":
		var x1, y1 *big.Int
		var m1 weier.Pt
		var kb []byte
		if class == "basemult" {
			m1, kb = mc.G(), p[1]
		} else {
			x1, y1, m1 = decPt(p[1])
			kb = p[2]
		}
		k := new(big.Int).SetBytes(kb)
		if m1.Inf || k.Cmp(n) >= 0 || k.Sign() == 0 || (len(kb) > 0 && kb[0] == 0) {
			o.Nontrivial()
		}
		want := mc.Mul(k, m1)
		var x, y *big.Int
		kcopy := append([]byte(nil), kb...)
		defer func() {
			if !bytes.Equal(kb, kcopy) {
				o.Fail("mutation", "%s modified the scalar bytes: %x became %x", class, kcopy, kb)
			}
		}()
		if class == "basemult" {
			if !o.Try("ScalarBaseMult", func() { x, y = c.ScalarBaseMult(kb) }) {
				return
			}
		} else {
			if !o.Try("ScalarMult", func() { x, y = c.ScalarMult(x1, y1, kb) }) {
				return
			}
		}
		if !cmp(o, fmt.Sprintf("%s(%v, k=%x)", class, m1, kb), x, y, want) {
			return
		}
		// the results belong to the caller: it overwrites them, then asks again (a result that is an
		// internal object of the curve, e.g. the base point itself, would be corrupted)
		x.SetInt64(7)
		y.Neg(y)
		var xa, ya *big.Int
		if class == "basemult" {
			if !o.Try("ScalarBaseMult (again)", func() { xa, ya = c.ScalarBaseMult(kb) }) {
				return
			}
		} else {
			if !o.Try("ScalarMult (again)", func() { xa, ya = c.ScalarMult(x1, y1, kb) }) {
				return
			}
		}
		if !cmp(o, fmt.Sprintf("%s(%v, k=%x) again, after the caller overwrote the first results", class, m1, kb), xa, ya, want) {
			return
		}
		var g *stdelliptic.CurveParams
		if !o.Try("Params", func() { g = c.Params() }) {
			return
		}
		if g == nil || g.Gx.Cmp(mc.Gx) != 0 || g.Gy.Cmp(mc.Gy) != 0 || g.N.Cmp(mc.N) != 0 || g.P.Cmp(mc.P) != 0 {
			o.Fail("params", "the curve parameters changed: %+v", g)
			return
		}
		o.Count(class + " ok")
		if class == "basemult" && len(kb) > 0 {
			// the caller reuses its scalar buffer for another scalar
			buf := append([]byte(nil), kb...)
			var x0, y0, x2, y2 *big.Int
			if !o.Try("ScalarBaseMult (reused scalar buffer)", func() {
				x0, y0 = c.ScalarBaseMult(buf)
				buf[len(buf)-1] ^= 0x5a
				buf[0] ^= 0x01
				x2, y2 = c.ScalarBaseMult(buf)
			}) {
				return
			}
			if cmp(o, fmt.Sprintf("basemult(k=%x)", kb), x0, y0, want) {
				cmp(o, fmt.Sprintf("basemult(k=%x) called with the buffer of the previous call overwritten in place", buf), x2, y2, mc.Mul(new(big.Int).SetBytes(buf), mc.G()))
			}
		}
	case "isoncurve":
		x, y := new(big.Int).SetBytes(p[1]), new(big.Int).SetBytes(p[2])
		want := mc.OnCurve(x, y)
		var got bool
		if !o.Try("IsOnCurve", func() { got = c.IsOnCurve(x, y) }) {
			return
		}
		o.Nontrivial()
		o.Count(fmt.Sprintf("isoncurve %v", want))
		if want && (x.Cmp(n) >= 0 || y.Cmp(n) >= 0) {
			o.Count("isoncurve: curve point with a coordinate in [n, p)")
		}
		if got != want {
			o.Fail("isoncurve", "IsOnCurve(%x, %x) = %v, curve equation says %v", x, y, got, want)
		}
	case "identities":
		x1, y1, m1 := decPt(p[3])
		a, b := new(big.Int).SetBytes(p[1]), new(big.Int).SetBytes(p[2])
		ab := new(big.Int).Add(a, b)
		o.Nontrivial()
		var xa, ya, xb, yb, xs, ys, xab, yab, xn, yn *big.Int
		if !o.Try("ScalarMult/Add", func() {
			xa, ya = c.ScalarMult(x1, y1, p[1])
			xb, yb = c.ScalarMult(x1, y1, p[2])
			xab, yab = c.ScalarMult(x1, y1, ab.Bytes())
			xn, yn = c.ScalarMult(x1, y1, n.Bytes())
			if xa != nil && xb != nil && ya != nil && yb != nil {
				xs, ys = c.Add(xa, ya, xb, yb)
			}
		}) {
			return
		}
		if xa == nil || xb == nil || xs == nil || xab == nil || xn == nil || ya == nil || yb == nil || ys == nil || yab == nil || yn == nil {
			o.Fail("nil", "nil coordinates in [a]P+[b]P=[a+b]P with a=%x b=%x P=%v", a, b, m1)
			return
		}
		if xs.Cmp(xab) != 0 || ys.Cmp(yab) != 0 {
			o.Fail("identity", "[a]P+[b]P = (%x,%x) but [a+b]P = (%x,%x), a=%x b=%x P=%v", xs, ys, xab, yab, a, b, m1)
			return
		}
		if xn.Sign() != 0 || yn.Sign() != 0 {
			o.Fail("identity", "[n]P = (%x,%x), expected (0,0), P=%v", xn, yn, m1)
			return
		}
		onCurve := true
		if xs.Sign() != 0 || ys.Sign() != 0 {
			if !o.Try("IsOnCurve", func() { onCurve = c.IsOnCurve(xs, ys) }) {
				return
			}
		}
		if !onCurve {
			o.Fail("identity", "result (%x,%x) is neither on the curve nor (0,0)", xs, ys)
			return
		}
		o.Count("identities ok")
	}
}

// ---------------------------------------------------------------------------

// boundaryPoints are curve points with a coordinate in [n, p) or close to 0: x = p-j for small j
// (lifted), and y = p-j / y = j for small j (x from a cube root of j^2-7). A random point has such a
// coordinate with probability 2^-127, so they are constructed.
var (
	boundary     []weier.Pt
	boundaryOnce sync.Once
)

func boundaryPoints() []weier.Pt {
	boundaryOnce.Do(buildBoundary)
	return boundary
}

func buildBoundary() {
	p := mc.P
	for j := int64(1); j < 400 && len(boundary) < 24; j++ {
		x := new(big.Int).Sub(p, big.NewInt(j))
		if pt, ok := mc.LiftX(x); ok {
			boundary = append(boundary, pt, mc.Neg(pt))
		}
	}
	// cube roots: p = 1 mod 3; for p = 7 mod 9 a cubic residue a has the root a^((p+2)/9), for p = 4 mod 9 a^((2p+1)/9)
	var e *big.Int
	switch new(big.Int).Mod(p, big.NewInt(9)).Int64() {
	case 7:
		e = new(big.Int).Div(new(big.Int).Add(p, big.NewInt(2)), big.NewInt(9))
	case 4:
		e = new(big.Int).Div(new(big.Int).Add(new(big.Int).Lsh(p, 1), big.NewInt(1)), big.NewInt(9))
	}
	if e != nil {
		found := 0
		for j := int64(1); j < 4000 && found < 12; j++ {
			a := new(big.Int).Mod(big.NewInt(j*j-7), p)
			x := new(big.Int).Exp(a, e, p)
			x3 := new(big.Int).Exp(x, big.NewInt(3), p)
			if x3.Cmp(a) != 0 {
				continue
			}
			y := big.NewInt(j)
			if mc.OnCurve(x, y) {
				pt := weier.Pt{X: x, Y: y}
				boundary = append(boundary, pt, mc.Neg(pt)) // y = j and y = p-j
				found++
			}
		}
	}
}

// betaPoint returns (beta*x, y) for a non-trivial cube root of unity beta mod p: a different curve point
// with the SAME y coordinate (secp256k1 has this endomorphism because a = 0).
var (
	beta     *big.Int
	betaOnce sync.Once
)

func betaPoint(pt weier.Pt, twice bool) weier.Pt {
	betaOnce.Do(func() {
		e := new(big.Int).Div(new(big.Int).Sub(mc.P, big.NewInt(1)), big.NewInt(3))
		for z := int64(2); ; z++ {
			b := new(big.Int).Exp(big.NewInt(z), e, mc.P)
			if b.Cmp(big.NewInt(1)) != 0 {
				beta = b
				return
			}
		}
	})
	if pt.Inf {
		return pt
	}
	x := new(big.Int).Mul(pt.X, beta)
	if twice {
		x.Mul(x, beta)
	}
	x.Mod(x, mc.P)
	q := weier.Pt{X: x, Y: new(big.Int).Set(pt.Y)}
	if !mc.OnCurve(q.X, q.Y) {
		panic("c17: endomorphism image is not on the curve")
	}
	return q
}

func randPoint(g *fw.Gen) weier.Pt {
	if g.Rng.Intn(12) == 0 {
		if b := boundaryPoints(); len(b) > 0 {
			return b[g.Rng.Intn(len(b))]
		}
	}
	switch g.Rng.Intn(6) {
	case 0: // the generator and the points that share a coordinate with it: -G (same x), (beta*Gx, +-Gy) (same y)
		switch g.Rng.Intn(5) {
		case 0:
			return mc.Neg(mc.G())
		case 1:
			return betaPoint(mc.G(), g.Rng.Intn(2) == 0)
		case 2:
			return mc.Neg(betaPoint(mc.G(), g.Rng.Intn(2) == 0))
		}
		return mc.G()
	case 1:
		pt := mc.BaseMul(big.NewInt(int64(1 + g.Rng.Intn(20))))
		if g.Rng.Intn(2) == 0 {
			pt = mc.Neg(pt)
		}
		return pt
	case 2:
		return mc.BaseMul(new(big.Int).SetBytes(g.Bytes(32)))
	default:
		for {
			x := new(big.Int).SetBytes(g.Bytes(32))
			x.Mod(x, mc.P)
			if pt, ok := mc.LiftX(x); ok {
				if g.Rng.Intn(2) == 0 {
					pt = mc.Neg(pt)
				}
				return pt
			}
		}
	}
}

func cornerScalars() [][]byte {
	n := mc.N
	add := func(d int64) []byte { return new(big.Int).Add(n, big.NewInt(d)).Bytes() }
	half := new(big.Int).Rsh(n, 1)
	all := [][]byte{
		{}, {0}, {1}, {2}, {3}, {0, 0, 0, 0}, {0, 1}, {0, 0, 2},
		add(-2), add(-1), add(0), add(1), add(2), add(3),
		new(big.Int).Lsh(n, 1).Bytes(), new(big.Int).Add(new(big.Int).Lsh(n, 1), big.NewInt(1)).Bytes(),
		new(big.Int).Sub(new(big.Int).Lsh(n, 1), big.NewInt(1)).Bytes(),
		half.Bytes(), new(big.Int).Add(half, big.NewInt(1)).Bytes(),
		new(big.Int).Sub(new(big.Int).Lsh(big.NewInt(1), 256), big.NewInt(1)).Bytes(),
		new(big.Int).Lsh(n, 8).Bytes(), new(big.Int).Mul(n, big.NewInt(3)).Bytes(),
	}
	// t*n + d for every small d: accumulators of windowed or double-and-add ladders meet +-P or the
	// identity for particular small offsets
	for t := int64(1); t <= 3; t++ {
		for d := int64(-3); d <= 70; d++ {
			v := new(big.Int).Mul(n, big.NewInt(t))
			all = append(all, v.Add(v, big.NewInt(d)).Bytes())
		}
	}
	return all
}

func randScalar(g *fw.Gen, corners [][]byte) []byte {
	var k []byte
	switch g.Rng.Intn(5) {
	case 4:
		// sparse scalars of 1..100 bytes: 2^a, 2^a + 2^b, 2^a + small, with runs of several hundred zero
		// bits between the set bits (window and digit recodings count such runs)
		a := g.Rng.Intn(800)
		v := new(big.Int).Lsh(big.NewInt(1), uint(a))
		switch g.Rng.Intn(4) {
		case 0:
		case 1:
			v.Add(v, new(big.Int).Lsh(big.NewInt(1), uint(g.Rng.Intn(a+1))))
		case 2:
			v.Add(v, big.NewInt(int64(g.Rng.Intn(256))))
		default: // a few random low bytes, a long gap, a few random high bits
			v.Mul(v, big.NewInt(int64(1+g.Rng.Intn(255))))
			v.Add(v, new(big.Int).SetBytes(g.Bytes(1+g.Rng.Intn(3))))
		}
		k = v.Bytes()
	case 0:
		k = append([]byte(nil), corners[g.Rng.Intn(len(corners))]...)
	case 1:
		k = g.Bytes(1 + g.Rng.Intn(40))
	case 2:
		// n*j + small
		v := new(big.Int).Mul(mc.N, big.NewInt(int64(g.Rng.Intn(4))))
		v.Add(v, big.NewInt(int64(g.Rng.Intn(5))))
		k = v.Bytes()
	default:
		k = g.Bytes(32)
	}
	if g.Rng.Intn(4) == 0 {
		k = append(make([]byte, g.Rng.Intn(9)), k...)
	}
	return k
}

func gen(g *fw.Gen) {
	corners := cornerScalars()
	cp := func() []byte { return []byte{byte(g.Rng.Intn(2))} }
	for n := g.ShareOf(3000, 100000); n > 0; n-- {
		p := randPoint(g)
		var q weier.Pt
		switch g.Rng.Intn(10) {
		case 0:
			q = p
		case 1:
			q = mc.Neg(p)
		case 2:
			q = weier.Inf()
		case 3:
			p = weier.Inf()
			q = randPoint(g)
		case 4:
			p, q = weier.Inf(), weier.Inf()
		case 5: // same y, different x
			q = betaPoint(p, g.Rng.Intn(2) == 0)
		case 6: // same x up to the endomorphism and opposite y
			q = mc.Neg(betaPoint(p, g.Rng.Intn(2) == 0))
		default:
			q = randPoint(g)
		}
		g.Emit("add", fw.Pack(cp(), encPt(p), encPt(q)))
	}
	for n := g.ShareOf(1500, 50000); n > 0; n-- {
		p := randPoint(g)
		if g.Rng.Intn(8) == 0 {
			p = weier.Inf()
		}
		g.Emit("double", fw.Pack(cp(), encPt(p)))
	}
	// every corner scalar on both copies, base and variable point
	i := 0
	for _, k := range corners {
		for c := byte(0); c < 2; c++ {
			i++
			if g.Own(i) {
				g.Emit("basemult", fw.Pack([]byte{c}, k))
				g.Emit("scalarmult", fw.Pack([]byte{c}, encPt(randPoint(g)), k))
				g.Emit("scalarmult", fw.Pack([]byte{c}, encPt(weier.Inf()), k))
			}
		}
	}
	for n := g.ShareOf(2500, 100000); n > 0; n-- {
		k := randScalar(g, corners)
		if g.Rng.Intn(2) == 0 {
			g.Emit("basemult", fw.Pack(cp(), k))
		} else {
			p := randPoint(g)
			if g.Rng.Intn(16) == 0 {
				p = weier.Inf()
			}
			g.Emit("scalarmult", fw.Pack(cp(), encPt(p), k))
		}
	}
	// every boundary point on both copies, as is
	for i, bp := range boundaryPoints() {
		for c := byte(0); c < 2; c++ {
			if g.Own(i) {
				g.Emit("isoncurve", fw.Pack([]byte{c}, bp.X.Bytes(), bp.Y.Bytes()))
			}
		}
	}
	for n := g.ShareOf(4000, 200000); n > 0; n-- {
		p := randPoint(g)
		x, y := new(big.Int).Set(p.X), new(big.Int).Set(p.Y)
		switch g.Rng.Intn(8) {
		case 0:
			y.Add(y, big.NewInt(1)).Mod(y, mc.P)
		case 1:
			y.Sub(y, big.NewInt(1)).Mod(y, mc.P)
		case 2:
			x.Add(x, big.NewInt(1)).Mod(x, mc.P)
		case 3:
			x.SetInt64(0)
			y.SetInt64(0)
		case 4:
			x.SetBytes(g.Bytes(32)).Mod(x, mc.P)
			y.SetBytes(g.Bytes(32)).Mod(y, mc.P)
		case 5:
			y.Sub(mc.P, y).Mod(y, mc.P) // (x, p-y) is on the curve too
		}
		g.Emit("isoncurve", fw.Pack(cp(), x.Bytes(), y.Bytes()))
	}
	for n := g.ShareOf(1200, 40000); n > 0; n-- {
		a, b := randScalar(g, corners), randScalar(g, corners)
		if g.Rng.Intn(4) == 0 {
			// b = n - a (mod n): the sum is the identity
			av := new(big.Int).SetBytes(a)
			av.Mod(av, mc.N)
			b = new(big.Int).Sub(mc.N, av).Bytes()
		}
		g.Emit("identities", fw.Pack(cp(), a, b, encPt(randPoint(g))))
	}
}
