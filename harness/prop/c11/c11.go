// Package c11 monitors PoW v1: nonces returned by Mine meet the requested
// score, Score equals its definition, the bit-plane lane test is exact, and
// trivially low targets do not kill the process.
package c11

import (
	"bytes"
	"context"
	"crypto"
	_ "crypto/sha1"
	_ "crypto/sha256"
	_ "crypto/sha512"
	"encoding/binary"
	"fmt"
	"math"
	"math/bits"
	"sync"
	"sync/atomic"
	"time"

	"github.com/wollac/iota-crypto-demo/pkg/pow"
	"golang.org/x/crypto/blake2b"

	"verif/harness/fw"
	"verif/harness/oracle/curlp"
)

func init() {
	fw.Register(&fw.Prop{
		ID:     "C11",
		Builds: []string{"default", "386"}, // the 386 build runs a quarter of the random classes on a 32-bit target
		Rule: "mine: (data of length 0..300 — and, with targets at the 3^k/len boundaries for k = 1..6, data of 8 KiB..400 KiB with a length within 72 of m*2^j, j = 13..17, m = 1..3 —, target, workers 1..16 or the constructor's default) with targets 3^k/len for k=0..8 exactly and +-1, +-2 ulp, 3^k/len*(1+-1e-9), targets at or below 1/len (1/len, 0.9/len, 1/(3 len), 1e-9, smallest subnormal, 0, -0, -1) and random targets up to 3^9/len; every nonce returned without error must satisfy Score(data||LE64(nonce)) >= target under the package's Score and under the model score; the process must survive (a worker-goroutine panic kills the child process and the case in flight is the witness). althash: the exported variable pow.Hash is set to SHA-1, SHA-224, SHA-256, SHA-512/224, SHA-512/256 or BLAKE2b-256 after start-up, then a nonce is mined for 1..5 zeros and scored with the package's own Score; a disagreement is a violation only for BLAKE2b-256 (the digest the statement fixes), for the other digests it is counted, not judged. shared: several Mine calls with different targets run concurrently on ONE *Worker; every returned nonce must meet its own target. reuse: six consecutive calls on one long-lived Worker with the message kept in one buffer that is edited in place between the calls. score: Score(msg) for messages of length 8..400 equals 3^z/len with z from the model (BLAKE2b-256, own b1t6, own Curl-P-81). check: the bit-plane lane test (hook) on crafted 64-lane states with exactly n-1, n, n+1 trailing zero trits at lane 0, 63 and random lanes for n in 0..243 returns the first qualifying lane or 64. " +
			"Non-trivial: mine cases with a target within 2 ulp of a 3^k/len boundary or with len*target < 1; all check cases; score cases.",
		Assumptions: []string{"BLAKE2b-256 (x/crypto)", "float64 arithmetic of the Go runtime (3^z exact for z <= 33)", "the Curl-P-81 / b1t6 model in harness/oracle/curlp (self-tested)"},
		SelfTest:    curlp.SelfTest,
		Gen:         gen,
		Judge:       judge,
		Render: func(class string, key []byte) interface{} {
			p := fw.Unpack(key)
			switch class {
			case "bigmine":
				t := math.Float64frombits(fw.GetU64(p[2]))
				return map[string]interface{}{"data": fmt.Sprintf("%d bytes derived from seed %d", fw.GetU32(p[1]), fw.GetU64(p[0])), "target": fmt.Sprintf("%g (bits %016x)", t, fw.GetU64(p[2])), "workers": p[3][0]}
			case "mine":
				t := math.Float64frombits(fw.GetU64(p[1]))
				return map[string]interface{}{"data": fw.Hex(p[0]), "target": fmt.Sprintf("%g (bits %016x)", t, fw.GetU64(p[1])), "target_times_len": t * float64(len(p[0])+8), "workers": p[2][0]}
			case "althash":
				return map[string]interface{}{"pow.Hash": fmt.Sprint(altHashes[int(p[0][0])%len(altHashes)]), "data": fw.Hex(p[1]), "required_zeros": p[2][0], "workers": p[3][0]}
			case "score":
				return map[string]interface{}{"msg": fw.Hex(p[0])}
			case "reuse":
				return map[string]interface{}{"seed": fw.GetU64(p[0]), "scenario": "six consecutive Mine calls on one Worker, message kept in one buffer edited in place between the calls"}
			case "shared":
				return map[string]interface{}{"seed": fw.GetU64(p[0]), "scenario": "two demanding and one looping easy Mine call run concurrently on one *Worker"}
			}
			return map[string]interface{}{"seed": fw.GetU64(p[0]), "n": fw.GetU32(p[1])}
		},
		Required:      []string{"mine/score agree under a pow.Hash set after start-up", "mine returned", "mine with data of 8 KiB .. 400 KiB", "mine boundary target", "mine target below 1/len", "score ok", "reuse executions", "shared-worker executions", "check ok", "nonce zeros == required", "nonce zeros > required"},
		WatchdogQuick: 900,
	})
}

// modelZeros is the number of trailing zero trits of the PoW hash of msg.
func modelZeros(msg []byte) int {
	d := blake2b.Sum256(msg[:len(msg)-8])
	buf := append(curlp.B1T6(d[:]), curlp.B1T6(msg[len(msg)-8:])...)
	buf = append(buf, 0, 0, 0)
	return curlp.TrailingZeros(curlp.Hash(buf))
}

// modelScore is 3^z/len in float64 (3^z is exact for z <= 33, the division is correctly rounded).
func modelScore(z, n int) (float64, bool) {
	p := 1.0
	for i := 0; i < z; i++ {
		p *= 3
	}
	return p / float64(n), z <= 33
}

// bigData derives the data of a bigmine case (tens or hundreds of KiB are not carried in the case key).
func bigData(seed uint64, n int) []byte {
	d := make([]byte, n)
	fw.SubRng(int64(seed), "c11-bigmine").Read(d)
	return d
}

func judge(class string, key []byte, o *fw.Obs) {
	p := fw.Unpack(key)
	if class == "bigmine" { // a mine case whose data is derived from a seed
		p = [][]byte{bigData(fw.GetU64(p[0]), int(fw.GetU32(p[1]))), p[2], p[3]}
		class = "mine"
		o.Count("mine with data of 8 KiB .. 400 KiB")
	}
	switch class {
	case "althash":
		judgeAltHash(p[0][0], p[1], int(p[2][0]), int(p[3][0]), o)
	case "shared":
		judgeShared(fw.GetU64(p[0]), o)
	case "reuse":
		judgeReuse(fw.GetU64(p[0]), o)
	case "score":
		msg := p[0]
		o.Nontrivial()
		z := modelZeros(msg)
		want, exact := modelScore(z, len(msg))
		var got float64
		var hz int
		if !o.Try("Score", func() {
			got = pow.Score(msg)
			d := blake2b.Sum256(msg[:len(msg)-8])
			hz = pow.VerifTrailingZeros(d[:], binary.LittleEndian.Uint64(msg[len(msg)-8:]))
		}) {
			return
		}
		if hz != z {
			o.Fail("zeros", "trailing zeros of the PoW hash: implementation %d, model %d", hz, z)
			return
		}
		if exact && got != want || !exact && math.Abs(got-want) > 4*math.Abs(want)*0x1p-52 {
			o.Fail("score", "Score = %g (bits %016x), definition 3^%d/%d = %g (bits %016x)", got, math.Float64bits(got), z, len(msg), want, math.Float64bits(want))
			return
		}
		o.Count("score ok")
		o.Count(fmt.Sprintf("score zeros=%d", min(z, 6)))
	case "check":
		seed, n := fw.GetU64(p[0]), uint(fw.GetU32(p[1]))
		o.Nontrivial()
		r := fw.SubRng(int64(seed), "c11-check")
		const lanes = bits.UintSize // 64 lanes on 64-bit targets, 32 in the 386 build
		var l, h [243]uint
		want := lanes
		// choose the trailing-zero count of every lane
		special := map[int]int{}
		switch r.Intn(4) {
		case 0: // nobody qualifies
		case 1:
			special[0] = 1
		case 2:
			special[lanes-1] = 1
		default:
			special[r.Intn(lanes)] = 1
			special[r.Intn(lanes)] = 2
		}
		for j := 0; j < lanes; j++ {
			var zeros int
			switch {
			case special[j] == 1:
				zeros = int(n)
			case special[j] == 2:
				zeros = int(n) + 1 + r.Intn(3)
			case r.Intn(2) == 0:
				zeros = int(n) - 1
			default:
				zeros = r.Intn(int(n) + 1)
				if zeros == int(n) {
					zeros = int(n) - 1
				}
			}
			if zeros > 243 {
				zeros = 243
			}
			if zeros < 0 {
				zeros = 0
			}
			if n == 0 {
				zeros = r.Intn(3)
			}
			if zeros >= int(n) && j < want {
				want = j
			}
			for i := 0; i < 243; i++ {
				var t int
				if i >= 243-zeros {
					t = 0
				} else if i == 243-zeros-1 {
					t = 1 - 2*r.Intn(2) // the trit just before the zero run is non-zero
				} else {
					t = r.Intn(3) - 1
				}
				switch t {
				case 0:
					l[i] |= 1 << uint(j)
					h[i] |= 1 << uint(j)
				case 1:
					h[i] |= 1 << uint(j)
				default:
					l[i] |= 1 << uint(j)
				}
			}
		}
		var got int
		if !o.Try("checkStateTrits", func() { got = pow.VerifCheckStateTrits(&l, &h, n) }) {
			return
		}
		if got != want {
			o.Fail("lane", "checkStateTrits(n=%d) = %d, the first lane with at least n trailing zero trits is %d (%d = none)", n, got, want, lanes)
			return
		}
		o.Count("check ok")
	default: // mine
		data, target, workers := p[0], math.Float64frombits(fw.GetU64(p[1])), int(p[2][0])
		n := len(data) + 8
		lx := target * float64(n)
		// required zeros by the definition: smallest z with 3^z/n >= target
		req := 0
		for {
			if s, _ := modelScore(req, n); s >= target {
				break
			}
			req++
		}
		boundary := false
		for k := 0; k <= 9; k++ {
			b, _ := modelScore(k, n)
			if d := math.Abs(float64(int64(math.Float64bits(target)) - int64(math.Float64bits(b)))); target > 0 && d <= 2 {
				boundary = true
			}
		}
		if boundary {
			o.Nontrivial()
			o.Count("mine boundary target")
		}
		if lx < 1 {
			o.Nontrivial()
			o.Count("mine target below 1/len")
		}
		ctx, cancel := context.WithTimeout(context.Background(), 300*time.Second)
		defer cancel()
		var nonce uint64
		var err error
		var sp fw.SpareSet
		dataIn := fw.NilIfEmpty(sp.Of("data", data, 64), byte(workers)) // a window into a larger buffer: a nonce appended to it would write into the caller's memory
		if !o.Try("Mine", func() {
			if workers == 0 {
				nonce, err = pow.New().Mine(ctx, dataIn, target) // the constructor's default worker count
			} else {
				nonce, err = pow.New(workers).Mine(ctx, dataIn, target)
			}
		}) {
			return
		}
		if !sp.Check(o) {
			return
		}
		if err != nil {
			if ctx.Err() != nil {
				o.Inconclusive("Mine(len=%d, target=%g, workers=%d) did not return within 300 s", len(data), target, workers)
				return
			}
			o.Fail("error", "Mine(len=%d, target=%g, workers=%d) returned error %v without cancellation", len(data), target, workers, err)
			return
		}
		o.Count("mine returned")
		msg := append(append([]byte(nil), data...), make([]byte, 8)...)
		binary.LittleEndian.PutUint64(msg[len(data):], nonce)
		var s float64
		if !o.Try("Score", func() { s = pow.Score(msg) }) {
			return
		}
		z := modelZeros(msg)
		ms, _ := modelScore(z, n)
		if !(s >= target) || !(ms >= target) {
			o.Fail("score", "Mine(len(data)=%d, target=%g [bits %016x], workers=%d) returned nonce %d whose hash has %d trailing zeros: Score=%g (model %g) < target; %d zeros are required", len(data), target, math.Float64bits(target), workers, nonce, z, s, ms, req)
			return
		}
		switch {
		case z == req:
			o.Count("nonce zeros == required")
		case z > req:
			o.Count("nonce zeros > required")
		}
	}
}

// altHashes are digests of at most 32 bytes (digest and nonce must fit one Curl block).
var altHashes = []crypto.Hash{crypto.SHA1, crypto.SHA224, crypto.SHA256, crypto.SHA512_224, crypto.SHA512_256, crypto.BLAKE2b_256}

// judgeAltHash: the exported package variable pow.Hash is set to another digest after start-up (as its
// documentation invites), then Mine and Score are used together. The first clause of the property does not
// depend on the digest: a nonce returned without error must satisfy Score(data||nonce) >= target, under the
// package's own Score with the same pow.Hash. The variable is restored afterwards (cases run one at a time).
func judgeAltHash(hid byte, data []byte, zeros, workers int, o *fw.Obs) {
	o.Nontrivial()
	h := altHashes[int(hid)%len(altHashes)]
	saved := pow.Hash
	pow.Hash = h
	defer func() { pow.Hash = saved }()
	n := len(data) + 8
	target := math.Pow(3, float64(zeros)) / float64(n)
	ctx, cancel := context.WithTimeout(context.Background(), 300*time.Second)
	defer cancel()
	var nonce uint64
	var err error
	if !o.Try("Mine", func() { nonce, err = pow.New(workers).Mine(ctx, data, target) }) {
		return
	}
	if err != nil {
		if ctx.Err() != nil {
			o.Inconclusive("Mine under pow.Hash = %v did not return within 300 s", h)
			return
		}
		o.Fail("error", "Mine(len=%d, target=%g, workers=%d) under pow.Hash = %v returned error %v without cancellation", len(data), target, workers, h, err)
		return
	}
	msg := append(append([]byte(nil), data...), make([]byte, 8)...)
	binary.LittleEndian.PutUint64(msg[len(data):], nonce)
	var s float64
	if !o.Try("Score", func() { s = pow.Score(msg) }) {
		return
	}
	if !(s >= target) {
		if h != crypto.BLAKE2b_256 {
			// the statement fixes BLAKE2b-256: what happens under another digest is observed, not judged
			o.Count("mine/score disagree under a non-default pow.Hash set after start-up (not judged)")
			return
		}
		o.Fail("score", "with pow.Hash = %v (re-assigned after start-up), Mine(len(data)=%d, target=%g, workers=%d) returned nonce %d but Score(data||nonce) = %g is below the target", h, len(data), target, workers, nonce, s)
		return
	}
	o.Count("mine/score agree under a pow.Hash set after start-up")
}

// judgeReuse: one long-lived *Worker is called again and again, and the caller keeps its message in ONE
// buffer that it edits in place between the calls (same length, same backing array, sometimes unchanged
// content). Every returned nonce must meet the target for the bytes the buffer held at the time of the call.
func judgeReuse(seed uint64, o *fw.Obs) {
	o.Nontrivial()
	r := fw.SubRng(int64(seed), "c11-reuse")
	var w *pow.Worker
	nw := 1 + r.Intn(4)
	if !o.Try("New", func() { w = pow.New(nw) }) {
		return
	}
	buf := make([]byte, 1+r.Intn(80))
	r.Read(buf)
	ctx, cancel := context.WithTimeout(context.Background(), 300*time.Second)
	defer cancel()
	for step := 0; step < 6; step++ {
		switch r.Intn(4) {
		case 0: // unchanged content
		case 1:
			buf[r.Intn(len(buf))] ^= byte(1 + r.Intn(255))
		default:
			r.Read(buf)
		}
		snapshot := append([]byte(nil), buf...)
		target, _ := modelScore(3+r.Intn(4), len(buf)+8)
		var nonce uint64
		var err error
		if !o.Try("Mine", func() { nonce, err = w.Mine(ctx, buf, target) }) {
			return
		}
		if err != nil {
			if ctx.Err() != nil {
				o.Inconclusive("Mine on a reused Worker did not return within 300 s")
				return
			}
			o.Fail("error", "Mine on a reused Worker returned %v", err)
			return
		}
		if !bytes.Equal(buf, snapshot) {
			o.Fail("mutation", "Mine modified the caller's data")
			return
		}
		msg := append(append([]byte(nil), snapshot...), make([]byte, 8)...)
		binary.LittleEndian.PutUint64(msg[len(snapshot):], nonce)
		if ms, _ := modelScore(modelZeros(msg), len(msg)); !(ms >= target) {
			o.Fail("score", "call %d on one Worker with the message kept in one buffer that is edited in place between calls: Mine(%x, target=%g) returned nonce %d with score %g below the target", step+1, snapshot, target, nonce, ms)
			return
		}
		o.Count("reuse: calls on a long-lived Worker checked")
	}
	o.Count("reuse executions")
}

// judgeShared: several goroutines mine concurrently on ONE *Worker (it only holds the worker count,
// so sharing it is ordinary use) with different data and targets; every returned nonce must be sound.
func judgeShared(seed uint64, o *fw.Obs) {
	o.Nontrivial()
	r := fw.SubRng(int64(seed), "c11-shared")
	var w *pow.Worker
	nw := 1 + r.Intn(4)
	if !o.Try("New", func() { w = pow.New(nw) }) {
		return
	}
	type job struct {
		data []byte
		t    float64
	}
	mk := func(k int) job {
		d := make([]byte, r.Intn(60))
		r.Read(d)
		b, _ := modelScore(k, len(d)+8)
		return job{d, b}
	}
	hard := []job{mk(6 + r.Intn(2)), mk(5 + r.Intn(3))}
	easy := mk(r.Intn(3))
	type outcome struct {
		j     job
		nonce uint64
		err   error
		pan   interface{}
	}
	ctx, cancel := context.WithTimeout(context.Background(), 300*time.Second)
	defer cancel()
	results := make(chan outcome, 4096)
	run := func(j job) outcome {
		oc := outcome{j: j}
		func() {
			defer func() { oc.pan = recover() }()
			oc.nonce, oc.err = w.Mine(ctx, j.data, j.t)
		}()
		return oc
	}
	var wg sync.WaitGroup
	var stop int32
	for _, j := range hard {
		wg.Add(1)
		go func(j job) { defer wg.Done(); results <- run(j) }(j)
	}
	done := make(chan struct{})
	go func() {
		defer close(done)
		for n := 0; atomic.LoadInt32(&stop) == 0 && n < 4000; n++ {
			results <- run(easy)
		}
	}()
	wg.Wait()
	atomic.StoreInt32(&stop, 1)
	<-done
	close(results)
	for oc := range results {
		if oc.pan != nil {
			o.Fail("panic", "concurrent Mine on a shared Worker panicked: %v", oc.pan)
			return
		}
		if oc.err != nil {
			if ctx.Err() != nil {
				o.Inconclusive("concurrent Mine calls did not finish within 300 s")
			} else {
				o.Fail("error", "concurrent Mine on a shared Worker returned %v", oc.err)
			}
			return
		}
		msg := append(append([]byte(nil), oc.j.data...), make([]byte, 8)...)
		binary.LittleEndian.PutUint64(msg[len(oc.j.data):], oc.nonce)
		if ms, _ := modelScore(modelZeros(msg), len(msg)); !(ms >= oc.j.t) {
			o.Fail("score", "with several Mine calls running concurrently on one Worker, Mine(len(data)=%d, target=%g) returned nonce %d with score %g below the target", len(oc.j.data), oc.j.t, oc.nonce, ms)
			return
		}
		o.Count("shared-worker results checked")
	}
	o.Count("shared-worker executions")
}

func min(a, b int) int {
	if a < b {
		return a
	}
	return b
}

func ulps(f float64, d int64) float64 {
	return math.Float64frombits(uint64(int64(math.Float64bits(f)) + d))
}

func gen(g *fw.Gen) {
	for n := g.ShareOf(48, 2400); n > 0; n-- {
		g.Emit("althash", fw.Pack([]byte{byte(g.Rng.Intn(len(altHashes)))}, g.Bytes(g.Rng.Intn(80)), []byte{byte(1 + g.Rng.Intn(5))}, []byte{byte(1 + g.Rng.Intn(4))}))
	}
	emitMine := func(data []byte, t float64, w int) {
		g.Emit("mine", fw.Pack(data, fw.U64(math.Float64bits(t)), []byte{byte(w)}))
	}
	lens := []int{0, 1, 2, 5, 8, 19, 24, 73, 100, 255, 256, 300}
	i := 0
	reps := g.Pick(1, 12)
	for rep := 0; rep < reps; rep++ {
		for _, l := range lens {
			n := float64(l + 8)
			var ts []float64
			for k := 0; k <= 8; k++ {
				b, _ := modelScore(k, l+8)
				ts = append(ts, b, ulps(b, 1), ulps(b, -1), ulps(b, 2), ulps(b, -2), b*(1+1e-9), b*(1-1e-9))
			}
			ts = append(ts, 1/n, 0.9/n, 1/(3*n), 1/(3*n)*(1-1e-9), 0.34/n, 0.33/n, 0.2/n, 1e-9, 5e-324, 0, math.Copysign(0, -1), -1, -1e300, 1e-300)
			for _, t := range ts {
				i++
				if g.Own(i) {
					emitMine(g.Bytes(l), t, 1+g.Rng.Intn(16))
				}
			}
		}
	}
	for n := g.ShareOf(1500, 120000); n > 0; n-- {
		l := g.Rng.Intn(301)
		if g.Rng.Intn(10) == 0 {
			l = 301 + g.Rng.Intn(5000)
		}
		nn := float64(l + 8)
		var t float64
		switch g.Rng.Intn(4) {
		case 0:
			t = g.Rng.Float64() * 19683 / nn
		case 1:
			b, _ := modelScore(g.Rng.Intn(9), l+8)
			t = ulps(b, int64(g.Rng.Intn(5)-2))
		case 2:
			t = g.Rng.Float64() / nn
		default:
			t = math.Exp(g.Rng.Float64()*12-3) / nn
			if t*nn > 19683 {
				t = 19683 / nn
			}
		}
		emitMine(g.Bytes(l), t, g.Rng.Intn(17)) // 0: New() without an argument
	}
	// data of 8 KiB .. 400 KiB, lengths next to m * 2^j (j = 13..17, m = 1..3): hashing in blocks, length bookkeeping
	for n := g.ShareOf(96, 4800); n > 0; n-- {
		l := (1+g.Rng.Intn(3))<<uint(13+g.Rng.Intn(5)) + g.Rng.Intn(145) - 72
		b, _ := modelScore(1+g.Rng.Intn(6), l+8)
		t := ulps(b, int64(g.Rng.Intn(3)-1))
		g.Emit("bigmine", fw.Pack(fw.U64(g.Rng.Uint64()), fw.U32(uint32(l)), fw.U64(math.Float64bits(t)), []byte{byte(1 + g.Rng.Intn(8))}))
	}
	for n := g.ShareOf(64, 3000); n > 0; n-- {
		g.Emit("shared", fw.Pack(fw.U64(g.Rng.Uint64())))
	}
	for n := g.ShareOf(200, 10000); n > 0; n-- {
		g.Emit("reuse", fw.Pack(fw.U64(g.Rng.Uint64())))
	}
	for n := g.ShareOf(40000, 2000000); n > 0; n-- {
		if g.Rng.Intn(8) == 0 {
			g.Emit("score", fw.Pack(g.Bytes(8+g.Rng.Intn(6000))))
			continue
		}
		g.Emit("score", fw.Pack(g.Bytes(8+g.Rng.Intn(393))))
	}
	for n := g.ShareOf(40000, 2000000); n > 0; n-- {
		nz := uint32(g.Rng.Intn(244))
		if g.Rng.Intn(3) == 0 {
			nz = uint32(g.Rng.Intn(12))
		}
		g.Emit("check", fw.Pack(fw.U64(g.Rng.Uint64()), fw.U32(nz)))
	}
}
