// Package c13 drives both PoW Mine implementations under hostile schedules
// (worker counts, simultaneous finds, cancellation at every stage, GOMAXPROCS,
// CPU hogs) and monitors results, bounded return after cancellation and
// goroutine accounting; the race build adds the race detector.
package c13

import (
	"context"
	"encoding/binary"
	"errors"
	"fmt"
	"runtime"
	"sort"
	"strings"
	"sync"
	"sync/atomic"
	"time"

	"github.com/wollac/iota-crypto-demo/pkg/pow"
	powv2 "github.com/wollac/iota-crypto-demo/pkg/pow/v2"

	"verif/harness/fw"
)

func init() {
	fw.Register(&fw.Prop{
		ID:       "C13",
		OwnProcs: true, // GOMAXPROCS is part of each execution's schedule here
		Rule: "executions of Mine over versions {v1, v2} x workers {1,2,3,4,8,16,32,64} x target class {every batch qualifies (all workers find at once), easy, medium, unattainable in time} x cancellation {never, before the call, inside the watcher's first Done() call, after a seeded delay 0..5 ms, around the expected find time, from 8 goroutines at once} x context kind {context.Background (nil Done channel), harness context whose channel is never closed, harness cancellable context, context.WithCancel} x GOMAXPROCS {1,2,4,16} x CPU hogs on/off x delay injected inside Done() x optionally a second goroutine mining concurrently on the same *Worker. Events CALL, DONE-CALLED, CANCEL-ISSUED, RETURN are stamped from one atomic counter at the client boundary. Monitors: M1 result (nonce meets the target under Score, or the version's ErrCancelled and only after CANCEL-ISSUED); M2 bounded return (30 s after cancellation, goroutine dump classifies deadlock / still hashing); M3 goroutine accounting (2 s after return: no goroutine with a pkg/pow frame, and no goroutine that did not exist before the call unless the harness or the runtime started it — e.g. a context watcher the standard library started on behalf of the call); M4 race detector (race build: reports with a pkg/pow frame are violations). " +
			"Non-trivial: distinct (version, workers, target class, cancel mode, context kind, GOMAXPROCS) tuples.",
		Assumptions: []string{"Go offers no controlled scheduler: interleavings are sampled (race build, GOMAXPROCS, hogs, delays), not enumerated", "30 s / 2 s are watchdog bounds four orders of magnitude above the expected latencies", "the package's own Score decides whether a nonce meets the target (Score itself is judged by C11/C12)"},
		Builds:      []string{"race", "default", "386"},
		Gen:         gen,
		Judge:       judge,
		Render: func(class string, key []byte) interface{} {
			c := decode(key)
			return map[string]interface{}{"version": c.version, "workers": c.workers, "target_class": tclasses[c.tclass], "cancel_mode": cmodes[c.cmode], "context": ckinds[c.ckind], "gomaxprocs": c.procs, "cpu_hogs": c.hogs, "done_delay_us": c.doneDelayUS, "seed": c.seed, "second_caller_on_same_worker": c.shared}
		},
		Required:         []string{"executions", "outcome found", "outcome cancelled", "outcome found although cancelled", "simultaneous-find executions", "cancel before call", "goroutines accounted", "executions with a second caller on the same Worker"},
		WatchdogQuick:    1500,
		StallQuick:       900, // the check has its own dump-based detection of calls that never return
		StallThorough:    3000,
		WatchdogThorough: 7200,
		Post: func(r *fw.RunResult) {
			var orders []string
			for k, v := range r.Counters {
				if strings.HasPrefix(k, "order ") {
					orders = append(orders, fmt.Sprintf("%s: %d", strings.TrimPrefix(k, "order "), v))
				}
			}
			sort.Strings(orders)
			r.Extra["observed_event_orders"] = orders
		},
	})
}

var (
	tclasses = []string{"every batch qualifies", "easy", "medium", "unattainable in time"}
	cmodes   = []string{"never", "before the call", "inside Done()", "after a delay", "around the expected find", "from 8 goroutines"}
	ckinds   = []string{"context.Background", "harness ctx, channel never closed", "harness cancellable ctx", "context.WithCancel"}
)

type cfg struct {
	version     int
	workers     int
	tclass      int
	cmode       int
	ckind       int
	procs       int
	hogs        int
	doneDelayUS int
	seed        uint64
	shared      bool // a second goroutine mines concurrently on the same *Worker
}

func (c cfg) encode() []byte {
	b := []byte{byte(c.version), byte(c.workers), byte(c.tclass), byte(c.cmode), byte(c.ckind), byte(c.procs), byte(c.hogs)}
	b = append(b, fw.U32(uint32(c.doneDelayUS))...)
	b = append(b, fw.U64(c.seed)...)
	if c.shared {
		b = append(b, 1)
	}
	return b
}

func decode(k []byte) cfg {
	return cfg{int(k[0]), int(k[1]), int(k[2]), int(k[3]), int(k[4]), int(k[5]), int(k[6]), int(fw.GetU32(k[7:])), fw.GetU64(k[11:]), len(k) > 19 && k[19] == 1}
}

// hctx is a context implemented by the harness so that the watcher's Done()
// call and the cancellation instant are observable without source hooks.
type hctx struct {
	done     chan struct{}
	once     sync.Once
	err      atomic.Value
	onDone   func()
	calls    int32
	delay    time.Duration
	canceled int32
}

func (c *hctx) Deadline() (time.Time, bool)   { return time.Time{}, false }
func (c *hctx) Value(interface{}) interface{} { return nil }
func (c *hctx) Done() <-chan struct{} {
	n := atomic.AddInt32(&c.calls, 1)
	if n == 1 && c.onDone != nil {
		c.onDone()
	}
	if c.delay > 0 {
		time.Sleep(c.delay)
	}
	return c.done
}
func (c *hctx) Err() error {
	if e, ok := c.err.Load().(error); ok {
		return e
	}
	return nil
}
func (c *hctx) cancel() {
	c.once.Do(func() {
		c.err.Store(context.Canceled)
		atomic.StoreInt32(&c.canceled, 1)
		close(c.done)
	})
}

func powGoroutines() (int, string) {
	buf := make([]byte, 1<<20)
	for {
		n := runtime.Stack(buf, true)
		if n < len(buf) {
			buf = buf[:n]
			break
		}
		buf = make([]byte, 2*len(buf))
	}
	cnt := 0
	var sample []string
	for _, blk := range strings.Split(string(buf), "\n\n") {
		if strings.Contains(blk, "iota-crypto-demo/pkg/pow") {
			cnt++
			if len(sample) < 6 {
				sample = append(sample, blk)
			}
		}
	}
	return cnt, strings.Join(sample, "\n\n")
}

// goroutineIDs returns the ids of all live goroutines.
func goroutineIDs() map[string]bool {
	ids := map[string]bool{}
	for _, blk := range strings.Split(allStacks(), "\n\n") {
		if f := strings.Fields(blk); len(f) >= 2 && f[0] == "goroutine" {
			ids[f[1]] = true
		}
	}
	return ids
}

func allStacks() string {
	buf := make([]byte, 1<<20)
	for {
		n := runtime.Stack(buf, true)
		if n < len(buf) {
			return string(buf[:n])
		}
		buf = make([]byte, 2*len(buf))
	}
}

// foreignGoroutines returns the goroutines that did not exist at the time of the snapshot and were not
// started by the harness or the runtime: whatever Mine, or the standard library on its behalf (for instance
// a context watcher registered by the call), has left behind.
func foreignGoroutines(before map[string]bool) (int, string) {
	cnt := 0
	var sample []string
	for _, blk := range strings.Split(allStacks(), "\n\n") {
		f := strings.Fields(blk)
		if len(f) < 2 || f[0] != "goroutine" || before[f[1]] {
			continue
		}
		i := strings.LastIndex(blk, "created by ")
		if i < 0 {
			continue // the main goroutine
		}
		creator := blk[i+len("created by "):]
		if strings.HasPrefix(creator, "verif/harness/") || strings.HasPrefix(creator, "runtime.") || strings.HasPrefix(creator, "runtime/") || strings.HasPrefix(creator, "main.") {
			continue
		}
		cnt++
		if len(sample) < 6 {
			sample = append(sample, blk)
		}
	}
	return cnt, strings.Join(sample, "\n\n")
}

// classify a dump: are the pow goroutines all blocked?
func allBlocked(dump string) bool {
	for _, blk := range strings.Split(dump, "\n\n") {
		head := strings.SplitN(blk, "\n", 2)[0]
		if strings.Contains(head, "[running]") || strings.Contains(head, "[runnable]") {
			return false
		}
	}
	return true
}

// poisoned is set after a hang or leak: goroutines of that execution stay behind, so later
// executions of this process could not be judged on their own.
var poisoned bool

func judge(class string, key []byte, o *fw.Obs) {
	c := decode(key)
	if poisoned {
		o.Count("skipped: process poisoned by an earlier hang or leak")
		return
	}
	o.Nontrivial()
	r := fw.SubRng(int64(c.seed), "c13")
	data := make([]byte, r.Intn(64))
	r.Read(data)
	n := len(data) + 8

	// target by class
	var t1 float64
	var t2 uint64
	pow3 := []float64{1, 3, 9, 27, 81, 243, 729, 2187, 6561, 19683}
	switch c.tclass {
	case 0:
		t1 = 0.5 / float64(n) // zero trailing zeros required: every lane of every batch qualifies
		t2 = 1                // v2: lx = len, a fraction >= 1/81 of all nonces qualifies: practically every batch
	case 1:
		t1 = pow3[2+r.Intn(2)] / float64(n)
		t2 = uint64(pow3[3]) / uint64(n)
		if t2 == 0 {
			t2 = 1
		}
	case 2:
		t1 = pow3[6+r.Intn(2)] / float64(n)
		t2 = uint64(pow3[7]) / uint64(n)
	default:
		t1 = 1e14 / float64(n)
		t2 = uint64(1e14) / uint64(n)
	}
	attainable := c.tclass != 3
	if !attainable && c.cmode == 0 {
		c.cmode = 3 // an unattainable run must be cancelled
	}

	prev := runtime.GOMAXPROCS(c.procs)
	defer runtime.GOMAXPROCS(prev)
	var stopHogs int32
	var hogWG sync.WaitGroup
	for i := 0; i < c.hogs; i++ {
		hogWG.Add(1)
		go func() {
			defer hogWG.Done()
			x := 0
			for atomic.LoadInt32(&stopHogs) == 0 {
				for k := 0; k < 1000; k++ {
					x += k
				}
				runtime.Gosched()
			}
			_ = x
		}()
	}
	defer func() { atomic.StoreInt32(&stopHogs, 1); hogWG.Wait() }()

	// events
	var seq int64
	var evCall, evDone, evCancel, evReturn int64
	stamp := func(p *int64) { atomic.CompareAndSwapInt64(p, 0, atomic.AddInt64(&seq, 1)) }

	var ctx context.Context
	var cancel func()
	switch c.ckind {
	case 0:
		ctx = context.Background()
		cancel = nil
	case 1:
		h := &hctx{done: make(chan struct{}), delay: time.Duration(c.doneDelayUS) * time.Microsecond}
		h.onDone = func() { stamp(&evDone) }
		ctx, cancel = h, nil
	case 2:
		h := &hctx{done: make(chan struct{}), delay: time.Duration(c.doneDelayUS) * time.Microsecond}
		h.onDone = func() { stamp(&evDone) }
		ctx, cancel = h, h.cancel
	default:
		sc, sCancel := context.WithCancel(context.Background())
		ctx, cancel = sc, sCancel
		defer sCancel()
	}
	if cancel == nil {
		if !attainable {
			// nothing could stop such a run: use the easy target instead
			t1, t2, attainable = pow3[2]/float64(n), 1, true
		}
		c.cmode = 0
	}
	doCancel := func() {
		stamp(&evCancel)
		cancel()
	}
	if c.cmode == 2 {
		if h, ok := ctx.(*hctx); ok {
			h.onDone = func() { stamp(&evDone); doCancel() }
		} else {
			c.cmode = 3
		}
	}
	if c.cmode == 1 {
		o.Count("cancel before call")
		doCancel()
	}

	type result struct {
		nonce uint64
		err   error
		pan   interface{}
	}
	resCh := make(chan result, 1)
	var w1 *pow.Worker
	var w2 *powv2.Worker
	if !o.Try("New", func() { w1, w2 = pow.New(c.workers), powv2.New(c.workers) }) {
		return
	}
	// optional second caller on the same Worker (easy target, looped until the first call returns)
	var stopSecond int32
	secondDone := make(chan string, 1)
	if c.shared {
		data2 := make([]byte, 1+r.Intn(40))
		r.Read(data2)
		e1, e2 := 9/float64(len(data2)+8), uint64(1)
		go func() {
			bad := ""
			for n := 0; atomic.LoadInt32(&stopSecond) == 0 && n < 2000 && bad == ""; n++ {
				func() {
					defer func() {
						if p := recover(); p != nil {
							bad = fmt.Sprintf("second caller panicked: %v", p)
						}
					}()
					msg := append(append([]byte(nil), data2...), make([]byte, 8)...)
					if c.version == 1 {
						nonce, err := w1.Mine(context.Background(), data2, e1)
						binary.LittleEndian.PutUint64(msg[len(data2):], nonce)
						if err != nil || !(pow.Score(msg) >= e1) {
							bad = fmt.Sprintf("second caller on the shared Worker got nonce %d err %v not meeting its target", nonce, err)
						}
					} else {
						nonce, err := w2.Mine(context.Background(), data2, e2)
						binary.LittleEndian.PutUint64(msg[len(data2):], nonce)
						if err != nil || powv2.Score(msg) < e2 {
							bad = fmt.Sprintf("second caller on the shared Worker got nonce %d err %v not meeting its target", nonce, err)
						}
					}
				}()
			}
			secondDone <- bad
		}()
	}
	before := goroutineIDs()
	stamp(&evCall)
	go func() {
		var res result
		defer func() {
			if p := recover(); p != nil {
				res.pan = p
			}
			stamp(&evReturn)
			resCh <- res
		}()
		if c.version == 1 {
			res.nonce, res.err = w1.Mine(ctx, data, t1)
		} else {
			res.nonce, res.err = w2.Mine(ctx, data, t2)
		}
	}()

	// cancellation schedule
	var cwg sync.WaitGroup
	switch c.cmode {
	case 3:
		d := time.Duration(r.Intn(5000)) * time.Microsecond
		cwg.Add(1)
		go func() { defer cwg.Done(); time.Sleep(d); doCancel() }()
	case 4:
		// around the expected find time of the medium/easy classes (a few hundred microseconds to milliseconds)
		d := time.Duration(200+r.Intn(3000)) * time.Microsecond
		cwg.Add(1)
		go func() { defer cwg.Done(); time.Sleep(d); doCancel() }()
	case 5:
		d := time.Duration(r.Intn(2000)) * time.Microsecond
		for i := 0; i < 8; i++ {
			cwg.Add(1)
			go func() { defer cwg.Done(); time.Sleep(d); doCancel() }()
		}
	}

	// M2: bounded return. Deciding observations are goroutine dumps, taken once per second:
	// all pkg/pow goroutines blocked in two consecutive dumps (after every scheduled cancellation
	// has been issued) means nothing can make progress any more = deadlock; workers still hashing
	// 30 s after the cancellation = cancellation not honoured; still hashing without cancellation
	// after 150 s = inconclusive (slow is not wrong).
	var res result
	cancelsDone := make(chan struct{})
	go func() { cwg.Wait(); close(cancelsDone) }()
	blockedStreak := 0
	var cancelledAt time.Time
	start := time.Now()
	tick := time.NewTicker(time.Second)
	defer tick.Stop()
wait:
	for {
		select {
		case res = <-resCh:
			break wait
		case <-tick.C:
			select {
			case <-cancelsDone:
			default:
				continue
			}
			cancelled := atomic.LoadInt64(&evCancel) != 0
			if cancelled && cancelledAt.IsZero() {
				cancelledAt = time.Now()
			}
			cnt, dump := powGoroutines()
			if cnt > 0 && allBlocked(dump) {
				blockedStreak++
			} else {
				blockedStreak = 0
			}
			desc := fmt.Sprintf("Mine(v%d, %d workers, %s, cancel %s, %s, GOMAXPROCS %d)", c.version, c.workers, tclasses[c.tclass], cmodes[c.cmode], ckinds[c.ckind], c.procs)
			switch {
			case blockedStreak >= 3:
				o.Fail("deadlock", "%s has not returned and all %d pkg/pow goroutines are blocked (three consecutive dumps):\n%s", desc, cnt, dump)
			case cancelled && time.Since(cancelledAt) > 30*time.Second:
				o.Fail("cancel-ignored", "%s is still running 30 s after the context was cancelled:\n%s", desc, dump)
			case time.Since(start) > 150*time.Second:
				o.Inconclusive("uncancelled %s still hashing after 150 s", desc)
			default:
				continue
			}
			poisoned = true
			if cancel != nil {
				cancel()
			}
			return
		}
	}
	cwg.Wait()
	if c.shared {
		atomic.StoreInt32(&stopSecond, 1)
		select {
		case bad := <-secondDone:
			if bad != "" {
				o.Fail("result", "%s", bad)
				return
			}
			o.Count("executions with a second caller on the same Worker")
		case <-time.After(60 * time.Second):
			poisoned = true
			o.Fail("deadlock", "the second caller on the shared Worker (easy target) has not returned 60 s after the first call returned")
			return
		}
	}
	o.Count("executions")
	if c.tclass == 0 && c.workers > 1 {
		o.Count("simultaneous-find executions")
	}
	if res.pan != nil {
		o.Fail("panic", "Mine panicked: %v", res.pan)
		return
	}

	// M1: result
	cancelSeq, retSeq := atomic.LoadInt64(&evCancel), atomic.LoadInt64(&evReturn)
	if res.err == nil {
		msg := append(append([]byte(nil), data...), make([]byte, 8)...)
		binary.LittleEndian.PutUint64(msg[len(data):], res.nonce)
		ok := false
		if !o.Try("Score", func() {
			if c.version == 1 {
				ok = pow.Score(msg) >= t1
			} else {
				ok = powv2.Score(msg) >= t2
			}
		}) {
			return
		}
		if !ok {
			o.Fail("result", "Mine(v%d, %d workers, %s) returned nonce %d that does not meet the target", c.version, c.workers, tclasses[c.tclass], res.nonce)
			return
		}
		if cancelSeq != 0 && cancelSeq < retSeq {
			o.Count("outcome found although cancelled")
		} else {
			o.Count("outcome found")
		}
	} else {
		want := pow.ErrCancelled
		if c.version == 2 {
			want = powv2.ErrCancelled
		}
		if !errors.Is(res.err, want) {
			o.Fail("result", "Mine(v%d) returned error %v, expected a nonce or ErrCancelled", c.version, res.err)
			return
		}
		if cancelSeq == 0 || cancelSeq > retSeq {
			o.Fail("result", "Mine(v%d, %d workers, %s, %s) returned ErrCancelled although the context was not cancelled before it returned (events: cancel=%d return=%d)", c.version, c.workers, tclasses[c.tclass], ckinds[c.ckind], cancelSeq, retSeq)
			return
		}
		o.Count("outcome cancelled")
	}
	// observed ordering of the boundary events
	type ev struct {
		name string
		s    int64
	}
	evs := []ev{{"CALL", evCall}, {"DONE-CALLED", atomic.LoadInt64(&evDone)}, {"CANCEL-ISSUED", cancelSeq}, {"RETURN", retSeq}}
	sort.Slice(evs, func(i, j int) bool { return evs[i].s < evs[j].s })
	var names []string
	for _, e := range evs {
		if e.s != 0 {
			names = append(names, e.name)
		}
	}
	o.Count("order " + strings.Join(names, " < "))

	// M3: goroutine accounting (the CPU hogs are stopped first: a leak is a leak without them, and
	// a late watcher must not be starved by the harness's own load)
	atomic.StoreInt32(&stopHogs, 1)
	hogWG.Wait()
	polls := 0
	var cnt int
	var dump string
	count := func() (int, string) {
		n, d := powGoroutines()
		if n == 0 {
			// goroutines the call left behind outside pkg/pow (started by the standard library on its behalf)
			n, d = foreignGoroutines(before)
		}
		return n, d
	}
	for {
		cnt, dump = count()
		if cnt == 0 || polls >= 200 {
			break
		}
		polls++
		runtime.Gosched()
		time.Sleep(10 * time.Millisecond)
	}
	if cnt != 0 {
		// confirm once more
		time.Sleep(500 * time.Millisecond)
		cnt, dump = count()
	}
	if cnt != 0 {
		poisoned = true
		o.Fail("leak", "%d goroutine(s) started by Mine(v%d, %d workers, %s, cancel %s, %s) are still alive 2.5 s after it returned:\n%s", cnt, c.version, c.workers, tclasses[c.tclass], cmodes[c.cmode], ckinds[c.ckind], dump)
		return
	}
	o.Count("goroutines accounted")
	if polls > 0 {
		o.Count("executions with goroutines still draining at return")
		o.Add("drain polls", int64(polls))
	}
}

func gen(g *fw.Gen) {
	workers := []int{1, 2, 3, 4, 8, 16, 32, 64}
	procs := []int{1, 2, 4, 16}
	for n := g.ShareOf(1600, 60000); n > 0; n-- {
		c := cfg{
			version: 1 + g.Rng.Intn(2),
			workers: workers[g.Rng.Intn(len(workers))],
			tclass:  g.Rng.Intn(4),
			cmode:   g.Rng.Intn(6),
			ckind:   g.Rng.Intn(4),
			procs:   procs[g.Rng.Intn(len(procs))],
			seed:    g.Rng.Uint64(),
		}
		if g.Rng.Intn(3) == 0 {
			c.hogs = 1 + g.Rng.Intn(4)
		}
		if g.Rng.Intn(3) == 0 {
			c.doneDelayUS = g.Rng.Intn(2000)
		}
		c.shared = g.Rng.Intn(5) == 0
		if c.tclass == 2 && c.cmode == 0 && g.Rng.Intn(2) == 0 {
			c.tclass = 1 // keep the uncancelled medium runs (slowest under -race) at half weight
		}
		g.Emit("exec", c.encode())
	}
}
