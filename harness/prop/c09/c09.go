// Package c09 monitors bip39.MnemonicToSeed against an own PBKDF2 and
// python's NFKD, and the mnemonic parser's insensitivity to white space and
// compatibility forms.
package c09

import (
	"bufio"
	"bytes"
	"encoding/json"
	"fmt"
	"os"
	"strings"

	"github.com/wollac/iota-crypto-demo/pkg/bip39"

	"verif/harness/fw"
	"verif/harness/oracle/bip39m"
)

func init() {
	fw.Register(&fw.Prop{
		ID: "C09",
		Rule: "seed: valid mnemonics of all 13 lengths in both lists (given directly or parsed from a string joined by various white space) x passphrases from the corpus produced by tools/nfkd_corpus.py (python unicodedata NFKD; empty, ASCII, composed/decomposed accents, runs of combining marks, ligatures, full-width forms, Hangul, kana with dakuten, 1..200 code points; every character assigned since Unicode 3.2 that changes under NFKD appears): the 64 bytes must equal own PBKDF2-HMAC-SHA512(2048, words joined by single spaces, \"mnemonic\"+python-NFKD(passphrase)); invalid mnemonics must give an error and no seed. parse: words in variant forms (as is, NFC, NFD, NFKC) joined by random runs of Unicode white space must parse to the python-NFKD words; parse(print(parse(s))) == parse(s) and the text (un)marshalers agree, on arbitrary strings. " +
			"Non-trivial: seed cases whose passphrase changes under NFKD; parser inputs containing a non-ASCII byte.",
		Assumptions: []string{"python3 unicodedata NFKD (independent of golang.org/x/text)", "HMAC-SHA512 of the Go standard library", "own PBKDF2 loop and bit-level model in harness/oracle/bip39m (self-tested on Trezor vectors in both languages)", "characters limited to those assigned since Unicode 3.2 outside the CJK compatibility ideograph blocks (normalization stability)"},
		SelfTest:    bip39m.SelfTest,
		Gen:         gen,
		Judge:       judge,
		Render: func(class string, key []byte) interface{} {
			p := fw.Unpack(key)
			switch class {
			case "seed":
				return map[string]interface{}{"list": lang(p[0][0]), "entropy": fw.Hex(p[1]), "separator": fmt.Sprintf("%q", seps[p[2][0]]), "passphrase": fmt.Sprintf("%+q", string(p[3])), "nfkd_by_python": fmt.Sprintf("%+q", string(p[4]))}
			case "seed_invalid":
				return map[string]interface{}{"list": lang(p[0][0]), "words": strings.Split(string(p[1]), "\x00"), "passphrase": fmt.Sprintf("%+q", string(p[2]))}
			case "parse":
				return map[string]interface{}{"input": fmt.Sprintf("%+q", string(p[0])), "expected_words": fmt.Sprintf("%+q", strings.Split(string(p[1]), "\x00"))}
			}
			return map[string]interface{}{"input": fmt.Sprintf("%+q", string(p[0]))}
		},
		Required: []string{"seed ok", "seed ok, passphrase changed by NFKD", "invalid mnemonic refused", "parse ok", "parse idempotent"},
	})
}

func lang(b byte) string {
	if b == 1 {
		return "japanese"
	}
	return "english"
}

// separators used to join words before ParseMnemonic; index 0 means "no parsing, Mnemonic given directly"
var seps = []string{"", " ", "　", "\t", "\n", "  ", " \r\n ", " ", "  ", "\u0085", " ", " ", " 　 "}

var current = ""

func setLang(o *fw.Obs, l string) bool {
	if current == l {
		return true
	}
	var err error
	if !o.Try("SetWordList", func() { err = bip39.SetWordList(l) }) {
		return false
	}
	if err != nil {
		o.Fail("setwordlist", "SetWordList(%q) failed: %v", l, err)
		return false
	}
	current = l
	return true
}

func eqWords(a, b []string) bool {
	if len(a) != len(b) {
		return false
	}
	for i := range a {
		if a[i] != b[i] {
			return false
		}
	}
	return true
}

func judge(class string, key []byte, o *fw.Obs) {
	p := fw.Unpack(key)
	switch class {
	case "seed":
		l := lang(p[0][0])
		if !setLang(o, l) {
			return
		}
		ent, sep, pass, nfkd := p[1], seps[p[2][0]], string(p[3]), p[4]
		words := bip39m.Lang(l).Encode(ent)
		want := bip39m.Seed(words, nfkd)
		m := bip39.Mnemonic(words)
		if sep != "" {
			var ok bool
			if !o.Try("ParseMnemonic", func() { m = bip39.ParseMnemonic(strings.Join(words, sep)); ok = true }) || !ok {
				return
			}
		}
		var got []byte
		var err error
		if !o.Try("MnemonicToSeed", func() { got, err = bip39.MnemonicToSeed(m, pass) }) {
			return
		}
		changed := !bytes.Equal([]byte(pass), nfkd)
		if changed {
			o.Nontrivial()
		}
		if err != nil || !bytes.Equal(got, want) {
			o.Fail("seed", "MnemonicToSeed(%d %s words, passphrase %+q) = %x, err=%v; PBKDF2 over python-NFKD passphrase %+q gives %x", len(words), l, pass, got, err, string(nfkd), want)
			return
		}
		o.Count("seed ok")
		if changed {
			o.Count("seed ok, passphrase changed by NFKD")
		}
	case "seed_invalid":
		l := lang(p[0][0])
		if !setLang(o, l) {
			return
		}
		var words []string
		if len(p[1]) > 0 {
			words = strings.Split(string(p[1]), "\x00")
		}
		if _, v := bip39m.Lang(l).Decode(words); v == bip39m.OK {
			o.Count("seed_invalid generator produced a valid sentence (skipped)")
			return
		}
		o.Nontrivial()
		var got []byte
		var err error
		if !o.Try("MnemonicToSeed", func() { got, err = bip39.MnemonicToSeed(bip39.Mnemonic(words), string(p[2])) }) {
			return
		}
		if err == nil || got != nil {
			o.Fail("invalid", "MnemonicToSeed of the invalid mnemonic %q returned seed=%x err=%v", words, got, err)
			return
		}
		o.Count("invalid mnemonic refused")
	case "parse":
		in := string(p[0])
		var want []string
		if len(p[1]) > 0 {
			want = strings.Split(string(p[1]), "\x00")
		}
		if !isASCII(in) {
			o.Nontrivial()
		}
		var m1, m2 bip39.Mnemonic
		if !o.Try("ParseMnemonic", func() {
			m1 = bip39.ParseMnemonic(in)
			m2 = bip39.ParseMnemonic(m1.String())
		}) {
			return
		}
		if !eqWords(m1, want) {
			o.Fail("parse", "ParseMnemonic(%+q) = %+q, expected the NFKD words %+q", in, []string(m1), want)
			return
		}
		if !eqWords(m2, want) {
			o.Fail("reparse", "ParseMnemonic(String()) = %+q, expected %+q", []string(m2), want)
			return
		}
		o.Count("parse ok")
	default: // parse_idem
		in := string(p[0])
		if !isASCII(in) {
			o.Nontrivial()
		}
		var m1, m2, m3 bip39.Mnemonic
		var txt []byte
		var e1, e2 error
		if !o.Try("ParseMnemonic/MarshalText/UnmarshalText", func() {
			m1 = bip39.ParseMnemonic(in)
			m2 = bip39.ParseMnemonic(m1.String())
			txt, e1 = m1.MarshalText()
			e2 = m3.UnmarshalText([]byte(in))
		}) {
			return
		}
		if !eqWords(m1, m2) {
			o.Fail("idempotent", "ParseMnemonic(%+q) = %+q but parsing its printed form gives %+q", in, []string(m1), []string(m2))
			return
		}
		if e1 != nil || e2 != nil || string(txt) != m1.String() || !eqWords(m3, m1) {
			o.Fail("marshal", "text (un)marshalers disagree with ParseMnemonic/String on %+q: %q / %+q (errors %v %v)", in, txt, []string(m3), e1, e2)
			return
		}
		for _, w := range m1 {
			if w == "" || strings.ContainsAny(w, " \t\n\r") {
				o.Fail("words", "parsed word %+q is empty or contains white space", w)
				return
			}
		}
		o.Count("parse idempotent")
	}
}

func isASCII(s string) bool {
	for i := 0; i < len(s); i++ {
		if s[i] >= 0x80 {
			return false
		}
	}
	return true
}

type line struct {
	K string `json:"k"`
	S []rune `json:"s"`
	N []rune `json:"n"`
	V []rune `json:"v"`
}

func gen(g *fw.Gen) {
	path := os.Getenv("VERIF_C09_CORPUS")
	f, err := os.Open(path)
	if err != nil {
		panic(fmt.Sprintf("C09 corpus %q not readable (run through run_check.sh): %v", path, err))
	}
	defer f.Close()
	type pw struct{ v, n string }
	var words []pw
	sc := bufio.NewScanner(f)
	sc.Buffer(make([]byte, 1<<20), 1<<24)
	i := 0
	pending := []line{}
	for sc.Scan() {
		var ln line
		if json.Unmarshal(sc.Bytes(), &ln) != nil {
			continue
		}
		i++
		if !g.Own(i) {
			continue
		}
		if ln.K == "p" {
			pending = append(pending, ln)
		} else {
			words = append(words, pw{string(ln.V), string(ln.N)})
		}
	}
	// seeds, in language phases
	for l := byte(0); l < 2; l++ {
		list := bip39m.Lang(lang(l))
		for j, ln := range pending {
			if j%2 != int(l) {
				continue
			}
			ent := g.Bytes(16 + 4*g.Rng.Intn(13))
			sep := byte(0)
			if g.Rng.Intn(3) == 0 {
				sep = byte(1 + g.Rng.Intn(len(seps)-1))
			}
			g.Emit("seed", fw.Pack([]byte{l}, ent, []byte{sep}, []byte(string(ln.S)), []byte(string(ln.N))))
			if j%8 == int(l) {
				// an invalid variant of the sentence
				w := list.Encode(ent)
				switch g.Rng.Intn(4) {
				case 0:
					w = w[:len(w)-1]
				case 1:
					w[g.Rng.Intn(len(w))] = "notaword"
				case 2:
					k := g.Rng.Intn(len(w))
					w[k] = list.Words[(list.Index[w[k]]+1+g.Rng.Intn(2046))%2048]
				default:
					w = nil
				}
				g.Emit("seed_invalid", fw.Pack([]byte{l}, []byte(strings.Join(w, "\x00")), []byte(string(ln.S))))
			}
		}
	}
	// parser: variant words joined by random white space
	ws := []string{" ", "\t", "\n", "\r", "\v", "\f", "\u0085", " ", " ", " ", " ", " ", " ", " ", " ", " ", " ", " ", " ", " ", " ", " ", " ", " ", "　"}
	run := func() string {
		var sb strings.Builder
		for k := 1 + g.Rng.Intn(3); k > 0; k-- {
			sb.WriteString(ws[g.Rng.Intn(len(ws))])
		}
		return sb.String()
	}
	for len(words) > 0 {
		n := 1 + g.Rng.Intn(24)
		if n > len(words) {
			n = len(words)
		}
		var in strings.Builder
		var want []string
		if g.Rng.Intn(3) == 0 {
			in.WriteString(run())
		}
		for k, w := range words[:n] {
			if k > 0 {
				in.WriteString(run())
			}
			in.WriteString(w.v)
			want = append(want, w.n)
		}
		if g.Rng.Intn(3) == 0 {
			in.WriteString(run())
		}
		words = words[n:]
		g.Emit("parse", fw.Pack([]byte(in.String()), []byte(strings.Join(want, "\x00"))))
	}
	for k := 0; k < 8; k++ {
		if g.Own(k) {
			g.Emit("parse", fw.Pack([]byte(strings.Repeat(ws[k*3], k)), nil)) // only white space: no words
		}
	}
	// idempotence on arbitrary strings built from corpus passphrases and white space
	for j, ln := range pending {
		s := string(ln.S)
		if j%2 == 0 {
			s = s + run() + string(ln.N)
		}
		g.Emit("parse_idem", fw.Pack([]byte(s)))
	}
}
