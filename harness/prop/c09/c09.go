// Package c09 monitors bip39.MnemonicToSeed against an own PBKDF2 and
// python's NFKD, and the mnemonic parser's insensitivity to white space and
// compatibility forms.
package c09

import (
	"bufio"
	"bytes"
	"encoding/json"
	"fmt"
	"os"
	"strings"
	"sync"
	"sync/atomic"

	"golang.org/x/text/unicode/norm"

	"github.com/wollac/iota-crypto-demo/pkg/bip39"

	"verif/harness/fw"
	"verif/harness/oracle/bip39m"
	"verif/harness/prop/wordhack"
)

func init() {
	fw.Register(&fw.Prop{
		ID:                  "C09",
		DeadlockIsViolation: true,                               // the calls of this property are synchronous functions of their inputs: a call blocked for good inside the library is a violation
		Builds:              []string{"default", "386", "race"}, // the 386 build runs 1/8 of the random classes on a 32-bit target
		// race build: only the classes in which several goroutines are inside the library at once, under the race detector
		RaceClasses: []string{"concurrent"},
		Scale386:    8,
		Rule: "seed: valid mnemonics of all 13 lengths in both lists (given directly or parsed from a string joined by various white space) x passphrases from the corpus produced by tools/nfkd_corpus.py (python unicodedata NFKD; empty, ASCII, composed/decomposed accents, runs of combining marks, ligatures, full-width forms, Hangul, kana with dakuten, 1..200 code points; every character assigned since Unicode 3.2 that changes under NFKD appears): the 64 bytes must equal own PBKDF2-HMAC-SHA512(2048, words joined by single spaces, \"mnemonic\"+python-NFKD(passphrase)); invalid mnemonics (a word missing, a non-word, another list's word, words cut to their unique four-letter prefix, a non-word colliding with the list word in its place under a common 32-bit digest) must give an error and no seed; at every eighth point where the monitor selects or confirms the word list, a SetWordList call with an unregistered key follows (it must fail, and the list of the last successful call stays in force); seed_variant: a directly built Mnemonic holding a valid sentence's words NFC-composed or in fullwidth letters (inputs built with x/text, expectation from the embedded official list) must either be refused or give the seed of the normalized sentence; seed_sequence: a valid sentence, then the same printed form split into other elements, then the same sentence after SetWordList(other list) (both invalid), then back; concurrent: 8 goroutines decode sentences of all 13 lengths at once. parse: words in variant forms (as is, NFC, NFD, NFKC) joined by random runs of Unicode white space must parse to the python-NFKD words; parse(print(parse(s))) == parse(s) and the text (un)marshalers agree, on arbitrary strings; UnmarshalText is also called on buffers that the caller overwrites afterwards. " +
			"Non-trivial: seed cases whose passphrase changes under NFKD; parser inputs containing a non-ASCII byte.",
		Assumptions: []string{"python3 unicodedata NFKD (independent of golang.org/x/text)", "HMAC-SHA512 of the Go standard library", "own PBKDF2 loop and bit-level model in harness/oracle/bip39m (self-tested on Trezor vectors in both languages)", "characters limited to those assigned since Unicode 3.2 outside the CJK compatibility ideograph blocks (normalization stability)"},
		SelfTest:    bip39m.SelfTest,
		Gen:         gen,
		Judge:       judge,
		Render: func(class string, key []byte) interface{} {
			p := fw.Unpack(key)
			switch class {
			case "seed":
				return map[string]interface{}{"list": lang(p[0][0]), "entropy": fw.Hex(p[1]), "separator": fmt.Sprintf("%q", seps[p[2][0]]), "passphrase": fmt.Sprintf("%+q", string(p[3])), "nfkd_by_python": fmt.Sprintf("%+q", string(p[4]))}
			case "seed_variant":
				return map[string]interface{}{"list": lang(p[0][0]), "entropy": fw.Hex(p[1]), "form": []string{"all words NFC", "every second word NFC", "all words fullwidth", "last word fullwidth"}[p[2][0]&3], "passphrase": fmt.Sprintf("%+q", string(p[3]))}
			case "seed_invalid":
				return map[string]interface{}{"list": lang(p[0][0]), "words": strings.Split(string(p[1]), "\x00"), "passphrase": fmt.Sprintf("%+q", string(p[2]))}
			case "seed_sequence":
				return map[string]interface{}{"list": lang(p[0][0]), "entropy": fw.Hex(p[1]), "passphrase": fmt.Sprintf("%+q", string(p[2])), "scenario": "valid sentence; same printed form in different elements; SetWordList(other list); back"}
			case "concurrent":
				return map[string]interface{}{"list": lang(p[0][0]), "seed": fw.GetU64(p[1]), "scenario": "8 goroutines call MnemonicToEntropy/MnemonicToSeed on sentences of all 13 lengths"}
			case "parse":
				return map[string]interface{}{"input": fmt.Sprintf("%+q", string(p[0])), "expected_words": fmt.Sprintf("%+q", strings.Split(string(p[1]), "\x00"))}
			}
			return map[string]interface{}{"input": fmt.Sprintf("%+q", string(p[0]))}
		},
		Required: []string{"seed sequences with list switches", "concurrent executions", "seed ok", "seed ok, passphrase changed by NFKD", "failed SetWordList calls in front of a case", "invalid mnemonic refused", "sentence in another Unicode form: refused", "parse ok", "parse idempotent"},
	})
}

func lang(b byte) string {
	if b == 1 {
		return "japanese"
	}
	return "english"
}

// separators used to join words before ParseMnemonic; index 0 means "no parsing, Mnemonic given directly"
var seps = []string{"", " ", "　", "\t", "\n", "  ", " \r\n ", " ", "  ", "\u0085", " ", " ", " 　 "}

var current = ""

// unknownKeys are not registered: SetWordList must fail for them, and the list in force stays the one of
// the last call that returned nil.
var unknownKeys = []string{"Japanese", "ENGLISH", "", "english ", "klingon", "japanese\x00"}

var setLangCalls uint64

func setLang(o *fw.Obs, l string) bool {
	defer func() {
		// every eighth selection point: a selection that fails right before the case continues
		setLangCalls++
		if setLangCalls%8 != 0 {
			return
		}
		bad := unknownKeys[int((setLangCalls/8)%uint64(len(unknownKeys)))]
		var err error
		if !o.Try("SetWordList(unknown key)", func() { err = bip39.SetWordList(bad) }) {
			return
		}
		if err == nil {
			o.Fail("setwordlist", "SetWordList(%q) returned nil for a key that is not registered", bad)
			return
		}
		o.Count("failed SetWordList calls in front of a case")
	}()
	if current == l {
		return true
	}
	var err error
	if !o.Try("SetWordList", func() { err = bip39.SetWordList(l) }) {
		return false
	}
	if err != nil {
		o.Fail("setwordlist", "SetWordList(%q) failed: %v", l, err)
		return false
	}
	current = l
	return true
}

func eqWords(a, b []string) bool {
	if len(a) != len(b) {
		return false
	}
	for i := range a {
		if a[i] != b[i] {
			return false
		}
	}
	return true
}

func judge(class string, key []byte, o *fw.Obs) {
	p := fw.Unpack(key)
	switch class {
	case "seed":
		l := lang(p[0][0])
		if !setLang(o, l) {
			return
		}
		ent, sep, pass, nfkd := p[1], seps[p[2][0]], string(p[3]), p[4]
		words := bip39m.Lang(l).Encode(ent)
		want := bip39m.Seed(words, nfkd)
		m := bip39.Mnemonic(words)
		if sep != "" {
			var ok bool
			if !o.Try("ParseMnemonic", func() { m = bip39.ParseMnemonic(strings.Join(words, sep)); ok = true }) || !ok {
				return
			}
		}
		var got []byte
		var err error
		if !o.Try("MnemonicToSeed", func() { got, err = bip39.MnemonicToSeed(m, pass) }) {
			return
		}
		changed := !bytes.Equal([]byte(pass), nfkd)
		if changed {
			o.Nontrivial()
		}
		if err != nil || !bytes.Equal(got, want) {
			o.Fail("seed", "MnemonicToSeed(%d %s words, passphrase %+q) = %x, err=%v; PBKDF2 over python-NFKD passphrase %+q gives %x", len(words), l, pass, got, err, string(nfkd), want)
			return
		}
		o.Count("seed ok")
		if changed {
			o.Count("seed ok, passphrase changed by NFKD")
		}
	case "seed_sequence":
		judgeSeedSequence(p, o)
	case "concurrent":
		judgeConcurrent(p, o)
	case "seed_variant":
		// A Mnemonic built directly (it is an exported []string) from the words of a valid sentence in
		// another Unicode form: NFC-composed (the form Japanese text is normally stored in) or fullwidth
		// letters. The sentence is not made of the list's NFKD words: it is either refused (error, no seed),
		// or the seed is the one of the normalized sentence. A seed over the raw bytes is a different wallet.
		l := lang(p[0][0])
		if !setLang(o, l) {
			return
		}
		ent, form, pass, nfkd := p[1], p[2][0], string(p[3]), p[4]
		words := bip39m.Lang(l).Encode(ent)
		want := bip39m.Seed(words, nfkd)
		vw := make([]string, len(words))
		differs := false
		for i, w := range words {
			vw[i] = w
			switch {
			case form == 0:
				vw[i] = norm.NFC.String(w)
			case form == 1 && i%2 == 0:
				vw[i] = norm.NFC.String(w)
			case form == 2:
				vw[i] = fullwidth(w)
			case form == 3 && i == len(words)-1:
				vw[i] = fullwidth(w)
			}
			differs = differs || vw[i] != w
		}
		o.Nontrivial()
		var got []byte
		var err error
		if !o.Try("MnemonicToSeed", func() { got, err = bip39.MnemonicToSeed(bip39.Mnemonic(vw), pass) }) {
			return
		}
		switch {
		case err != nil && got == nil && differs:
			o.Count("sentence in another Unicode form: refused")
		case err == nil && bytes.Equal(got, want):
			o.Count("sentence in another Unicode form: seed of the normalized sentence")
		default:
			o.Fail("seed", "MnemonicToSeed of a directly built Mnemonic whose words are the valid sentence %q in another Unicode form (%+q) returned seed=%x err=%v: expected either an error and no seed, or the seed of the normalized sentence %x", words, vw, got, err, want)
		}
	case "seed_invalid":
		l := lang(p[0][0])
		if !setLang(o, l) {
			return
		}
		var words []string
		if len(p[1]) > 0 {
			words = strings.Split(string(p[1]), "\x00")
		}
		if _, v := bip39m.Lang(l).Decode(words); v == bip39m.OK {
			o.Count("seed_invalid generator produced a valid sentence (skipped)")
			return
		}
		o.Nontrivial()
		var got []byte
		var err error
		if !o.Try("MnemonicToSeed", func() { got, err = bip39.MnemonicToSeed(bip39.Mnemonic(words), string(p[2])) }) {
			return
		}
		if err == nil || got != nil {
			o.Fail("invalid", "MnemonicToSeed of the invalid mnemonic %q returned seed=%x err=%v", words, got, err)
			return
		}
		o.Count("invalid mnemonic refused")
	case "parse":
		in := string(p[0])
		var want []string
		if len(p[1]) > 0 {
			want = strings.Split(string(p[1]), "\x00")
		}
		if !isASCII(in) {
			o.Nontrivial()
		}
		var m1, m2 bip39.Mnemonic
		if !o.Try("ParseMnemonic", func() {
			m1 = bip39.ParseMnemonic(in)
			m2 = bip39.ParseMnemonic(m1.String())
		}) {
			return
		}
		if !eqWords(m1, want) {
			o.Fail("parse", "ParseMnemonic(%+q) = %+q, expected the NFKD words %+q", in, []string(m1), want)
			return
		}
		if !eqWords(m2, want) {
			o.Fail("reparse", "ParseMnemonic(String()) = %+q, expected %+q", []string(m2), want)
			return
		}
		// UnmarshalText from buffers the caller reuses afterwards (the raw input and the printed form)
		for _, text := range []string{in, m1.String()} {
			buf := []byte(text)
			var m3 bip39.Mnemonic
			var err error
			if !o.Try("UnmarshalText", func() { err = m3.UnmarshalText(buf) }) {
				return
			}
			for i := range buf {
				buf[i] = 'X'
			}
			if err != nil || !eqWords(m3, want) {
				o.Fail("aliasing", "UnmarshalText(%+q) then overwriting the caller's buffer: the mnemonic is now %+q (err=%v), expected %+q", text, []string(m3), err, want)
				return
			}
		}
		o.Count("parse ok")
	default: // parse_idem
		in := string(p[0])
		if !isASCII(in) {
			o.Nontrivial()
		}
		var m1, m2, m3 bip39.Mnemonic
		var txt []byte
		var e1, e2 error
		if !o.Try("ParseMnemonic/MarshalText/UnmarshalText", func() {
			m1 = bip39.ParseMnemonic(in)
			m2 = bip39.ParseMnemonic(m1.String())
			txt, e1 = m1.MarshalText()
			e2 = m3.UnmarshalText([]byte(in))
		}) {
			return
		}
		if !eqWords(m1, m2) {
			o.Fail("idempotent", "ParseMnemonic(%+q) = %+q but parsing its printed form gives %+q", in, []string(m1), []string(m2))
			return
		}
		if e1 != nil || e2 != nil || string(txt) != m1.String() || !eqWords(m3, m1) {
			o.Fail("marshal", "text (un)marshalers disagree with ParseMnemonic/String on %+q: %q / %+q (errors %v %v)", in, txt, []string(m3), e1, e2)
			return
		}
		for _, w := range m1 {
			if w == "" || strings.ContainsAny(w, " \t\n\r") {
				o.Fail("words", "parsed word %+q is empty or contains white space", w)
				return
			}
		}
		o.Count("parse idempotent")
	}
}

// judgeSeedSequence: a valid sentence is accepted; the same sentence split into different elements (two
// words in one element) and the same sentence after the word list was switched are invalid and must be
// refused even though an identical printed form was accepted a moment ago; switching back accepts again.
func judgeSeedSequence(p [][]byte, o *fw.Obs) {
	l, other := lang(p[0][0]), lang(1-p[0][0])
	ent, pass := p[1], string(p[2])
	o.Nontrivial()
	if !setLang(o, l) {
		return
	}
	words := bip39m.Lang(l).Encode(ent)
	want := bip39m.Seed(words, p[3])
	call := func(m bip39.Mnemonic) ([]byte, error, bool) {
		var got []byte
		var err error
		ok := o.Try("MnemonicToSeed", func() { got, err = bip39.MnemonicToSeed(m, pass) })
		return got, err, ok
	}
	got, err, ok := call(bip39.Mnemonic(words))
	if !ok {
		return
	}
	if err != nil || !bytes.Equal(got, want) {
		o.Fail("seed", "MnemonicToSeed of a valid %s sentence = %x, err=%v; expected %x", l, got, err, want)
		return
	}
	// same printed form, different elements
	merged := append(bip39.Mnemonic{words[0] + " " + words[1]}, words[2:]...)
	if got, err, ok = call(merged); !ok {
		return
	}
	if err == nil || got != nil {
		o.Fail("invalid", "MnemonicToSeed of %d elements (the first is two words joined by a space, so the printed form equals the valid sentence just accepted) returned seed=%x err=%v", len(merged), got, err)
		return
	}
	// the other word list
	if !setLang(o, other) {
		return
	}
	if got, err, ok = call(bip39.Mnemonic(words)); !ok {
		return
	}
	if err == nil || got != nil {
		o.Fail("invalid", "after SetWordList(%q), MnemonicToSeed of the %s sentence accepted before returned seed=%x err=%v (its words are not in the current list)", other, l, got, err)
		return
	}
	if !setLang(o, l) {
		return
	}
	if got, err, ok = call(bip39.Mnemonic(words)); !ok {
		return
	}
	if err != nil || !bytes.Equal(got, want) {
		o.Fail("seed", "after switching the word list back, MnemonicToSeed = %x, err=%v; expected %x", got, err, want)
		return
	}
	o.Count("seed sequences with list switches")
}

// judgeConcurrent: MnemonicToEntropy / MnemonicToSeed of sentences of different lengths from several
// goroutines at once (one word list); every result must equal the model's.
func judgeConcurrent(p [][]byte, o *fw.Obs) {
	l := lang(p[0][0])
	o.Nontrivial()
	if !setLang(o, l) {
		return
	}
	r := fw.SubRng(int64(fw.GetU64(p[1])), "c09-concurrent")
	list := bip39m.Lang(l)
	type item struct {
		words []string
		ent   []byte
		seed  []byte
		valid bool
	}
	var items []item
	for i := 0; i < 13; i++ {
		ent := make([]byte, 16+4*i)
		r.Read(ent)
		w := list.Encode(ent)
		it := item{words: w, ent: ent, valid: true}
		if i%4 == 0 {
			it.seed = bip39m.Seed(w, nil)
		}
		items = append(items, it)
		bad := append([]string(nil), w...)
		k := r.Intn(len(bad))
		bad[k] = list.Words[(list.Index[bad[k]]+1+r.Intn(2046))%2048]
		if _, v := list.Decode(bad); v != bip39m.OK {
			items = append(items, item{words: bad})
		}
	}
	const G = 8
	var wg sync.WaitGroup
	var bad atomic.Value
	for g := 0; g < G; g++ {
		wg.Add(1)
		go func(g int) {
			defer wg.Done()
			defer func() {
				if x := recover(); x != nil {
					bad.Store(fmt.Sprintf("panic in a concurrent call: %v", x))
				}
			}()
			for n := 0; n < 1500 && bad.Load() == nil; n++ {
				it := items[(n*(g+1)+g)%len(items)]
				got, err := bip39.MnemonicToEntropy(bip39.Mnemonic(it.words))
				if it.valid && (err != nil || !bytes.Equal(got, it.ent)) || !it.valid && err == nil {
					bad.Store(fmt.Sprintf("with %d goroutines decoding sentences of different lengths, MnemonicToEntropy(%d words) = %x, err=%v; valid=%v expected %x", G, len(it.words), got, err, it.valid, it.ent))
					return
				}
				if it.seed != nil && n%64 == 0 {
					s, err := bip39.MnemonicToSeed(bip39.Mnemonic(it.words), "")
					if err != nil || !bytes.Equal(s, it.seed) {
						bad.Store(fmt.Sprintf("with %d goroutines at work, MnemonicToSeed(%d words) = %x, err=%v; expected %x", G, len(it.words), s, err, it.seed))
						return
					}
				}
			}
		}(g)
	}
	wg.Wait()
	if b := bad.Load(); b != nil {
		o.Fail("concurrent", "%s", b.(string))
		return
	}
	o.Count("concurrent executions")
}

// fullwidth maps ASCII letters to their fullwidth forms (NFKD maps them back).
func fullwidth(w string) string {
	var sb strings.Builder
	for _, r := range w {
		if r > 0x20 && r < 0x7f {
			r += 0xFF00 - 0x20
		}
		sb.WriteRune(r)
	}
	return sb.String()
}

func isASCII(s string) bool {
	for i := 0; i < len(s); i++ {
		if s[i] >= 0x80 {
			return false
		}
	}
	return true
}

type line struct {
	K string `json:"k"`
	S []rune `json:"s"`
	N []rune `json:"n"`
	V []rune `json:"v"`
}

func gen(g *fw.Gen) {
	if g.Build == "race" {
		// race build: only the class in which several goroutines are inside the library at once is generated
		for l := byte(0); l < 2; l++ {
			for n := g.ShareOf(16, 800); n > 0; n-- {
				g.Emit("concurrent", fw.Pack([]byte{l}, fw.U64(g.Rng.Uint64())))
			}
		}
		return
	}
	path := os.Getenv("VERIF_C09_CORPUS")
	f, err := os.Open(path)
	if err != nil {
		panic(fmt.Sprintf("C09 corpus %q not readable (run through run_check.sh): %v", path, err))
	}
	defer f.Close()
	type pw struct{ v, n string }
	var words []pw
	sc := bufio.NewScanner(f)
	sc.Buffer(make([]byte, 1<<20), 1<<24)
	i := 0
	pending := []line{}
	for sc.Scan() {
		var ln line
		if json.Unmarshal(sc.Bytes(), &ln) != nil {
			continue
		}
		i++
		if !g.Own(i) {
			continue
		}
		if g.Build == "386" && (i/g.NShards)%8 != 0 {
			continue // the 32-bit build takes an eighth of the corpus
		}
		if ln.K == "p" {
			pending = append(pending, ln)
		} else {
			words = append(words, pw{string(ln.V), string(ln.N)})
		}
	}
	// seeds, in language phases
	for l := byte(0); l < 2; l++ {
		list := bip39m.Lang(lang(l))
		for j, ln := range pending {
			if j%2 != int(l) {
				continue
			}
			ent := g.Bytes(16 + 4*g.Rng.Intn(13))
			sep := byte(0)
			if g.Rng.Intn(3) == 0 {
				sep = byte(1 + g.Rng.Intn(len(seps)-1))
			}
			g.Emit("seed", fw.Pack([]byte{l}, ent, []byte{sep}, []byte(string(ln.S)), []byte(string(ln.N))))
			if j%40 == int(l) {
				g.Emit("seed_sequence", fw.Pack([]byte{l}, g.Bytes(16+4*g.Rng.Intn(13)), []byte(string(ln.S)), []byte(string(ln.N))))
			}
			if j%400 == int(l) {
				g.Emit("concurrent", fw.Pack([]byte{l}, fw.U64(g.Rng.Uint64())))
			}
			if j%8 == int(l) {
				// an invalid variant of the sentence
				w := list.Encode(ent)
				switch g.Rng.Intn(5) {
				case 4: // words cut to their unique four-letter prefix (one, or all that have one)
					all := g.Rng.Intn(2) == 0
					for _, k := range g.Rng.Perm(len(w)) {
						if p4, ok := wordhack.Prefix4(list, w[k]); ok {
							w[k] = p4
							if !all {
								break
							}
						}
					}
				case 0:
					w = w[:len(w)-1]
				case 1:
					w[g.Rng.Intn(len(w))] = "notaword"
				case 2:
					k := g.Rng.Intn(len(w))
					w[k] = list.Words[(list.Index[w[k]]+1+g.Rng.Intn(2046))%2048]
				default:
					w = nil
				}
				g.Emit("seed_invalid", fw.Pack([]byte{l}, []byte(strings.Join(w, "\x00")), []byte(string(ln.S))))
			}
			if j%8 == 2+int(l) {
				g.Emit("seed_variant", fw.Pack([]byte{l}, g.Bytes(16+4*g.Rng.Intn(13)), []byte{byte(g.Rng.Intn(4))}, []byte(string(ln.S)), []byte(string(ln.N))))
			}
		}
	}
	// a non-word that collides with the list word in its place under a common 32-bit digest: one case per
	// (digest, list) in the quick tier, four in the thorough tier, spread over the shards
	if len(pending) > 0 {
		k := 0
		for rep := 0; rep < g.Pick(1, 4); rep++ {
			for l := byte(0); l < 2; l++ {
				list := bip39m.Lang(lang(l))
				for _, d := range wordhack.Digests {
					k++
					if !g.Own(k) || g.Build == "386" {
						continue
					}
					cs, idx, ok := wordhack.FindCollision(g.Rng, list, l, d, 12000000)
					if !ok {
						continue
					}
					e2 := g.Bytes(16 + 4*g.Rng.Intn(13))
					j := g.Rng.Intn(len(e2) * 8 / 11)
					for b := 0; b < 11; b++ {
						pos := 11*j + b
						bit := byte(idx>>uint(10-b)) & 1
						e2[pos/8] = e2[pos/8]&^(0x80>>uint(pos%8)) | bit<<uint(7-pos%8)
					}
					w := list.Encode(e2)
					w[j] = cs
					ln := pending[g.Rng.Intn(len(pending))]
					g.Emit("seed_invalid", fw.Pack([]byte{l}, []byte(strings.Join(w, "\x00")), []byte(string(ln.S))))
				}
			}
		}
	}
	// parser: variant words joined by random white space
	ws := []string{" ", "\t", "\n", "\r", "\v", "\f", "\u0085", " ", " ", " ", " ", " ", " ", " ", " ", " ", " ", " ", " ", " ", " ", " ", " ", " ", "　"}
	run := func() string {
		var sb strings.Builder
		for k := 1 + g.Rng.Intn(3); k > 0; k-- {
			sb.WriteString(ws[g.Rng.Intn(len(ws))])
		}
		return sb.String()
	}
	// sentences that are plain ASCII except for ONE variant word at the very end or the very start, at every byte
	// length modulo 64 (a parser with an "ASCII only" fast path that scans in blocks)
	for k, w := range words {
		if k%3 != 0 {
			continue
		}
		pad := strings.Repeat("x", g.Rng.Intn(64))
		want := []string{"abandon", w.n}
		in := " abandon " + w.v
		if pad != "" {
			want = append([]string{pad}, want...)
			in = pad + in
		} else {
			in = in[1:]
		}
		if g.Rng.Intn(4) == 0 { // at the start instead
			in = w.v + " abandon " + pad
			want = []string{w.n, "abandon"}
			if pad != "" {
				want = append(want, pad)
			}
		}
		if w.n == "" { // a variant that normalizes to nothing but white space contributes no word
			continue
		}
		g.Emit("parse", fw.Pack([]byte(in), []byte(strings.Join(want, "\x00"))))
	}
	for len(words) > 0 {
		n := 1 + g.Rng.Intn(24)
		if n > len(words) {
			n = len(words)
		}
		var in strings.Builder
		var want []string
		if g.Rng.Intn(3) == 0 {
			in.WriteString(run())
		}
		for k, w := range words[:n] {
			if k > 0 {
				in.WriteString(run())
			}
			in.WriteString(w.v)
			want = append(want, w.n)
		}
		if g.Rng.Intn(3) == 0 {
			in.WriteString(run())
		}
		words = words[n:]
		g.Emit("parse", fw.Pack([]byte(in.String()), []byte(strings.Join(want, "\x00"))))
	}
	for k := 0; k < 8; k++ {
		if g.Own(k) {
			g.Emit("parse", fw.Pack([]byte(strings.Repeat(ws[k*3], k)), nil)) // only white space: no words
		}
	}
	// idempotence on arbitrary strings built from corpus passphrases and white space
	for j, ln := range pending {
		s := string(ln.S)
		if j%2 == 0 {
			s = s + run() + string(ln.N)
		}
		g.Emit("parse_idem", fw.Pack([]byte(s)))
	}
}
