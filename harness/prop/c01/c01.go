// Package c01 monitors ed25519.Verify two-sidedly against the ZIP-215 model.
package c01

import (
	"reflect"
	"bytes"
	stded "crypto/ed25519"
	"encoding/binary"
	"fmt"
	"math/big"
	"sync"
	"sync/atomic"

	"github.com/wollac/iota-crypto-demo/pkg/ed25519"

	"verif/harness/fw"
	"verif/harness/oracle/ed"
)

func init() {
	fw.Register(&fw.Prop{
		ID:                  "C01",
		DeadlockIsViolation: true,                               // the calls of this property are synchronous functions of their inputs: a call blocked for good inside the library is a violation
		Builds:              []string{"default", "386", "race"}, // the 386 build runs 1/12 of the random classes on a 32-bit target
		// race build: only the classes in which several goroutines are inside the library at once, under the race detector
		RaceClasses: []string{"concurrent"},
		Scale386:    12,
		Parallel:    4, // cases are judged on 4 goroutines per shard: the library functions are stateless, shared state inside them shows up as wrong verdicts
		Rule: "(public key, message, signature) triples in classes: honest (crypto/ed25519 signatures, message length 0..2500 and around 2^9..2^13), bitflip (1-2 flipped bits), s_plus_jL (S+jL for every j with S+jL < 2^256), torsion (A=[s]B+T, R=[r]B+T' for all 8x8 torsion pairs, S=r+k*s with k over the bytes as given, and the same with S perturbed), smallorder (every encoding of every small-order point incl. non-canonical ones as A and as R, with S=0, S=k*s, S=jL, S=1), noncanonical_y (all 38 encodings with y>=p), s_high (canonical S in the sliver [2^252, L), built from a small-order A and R=[S]B+T', with structured limbs, and S just at/above L), s_limbs (S over the whole 256-bit range built from 64/32/16/8-bit chunks that are 0, 1, all-ones, half-range, the order's chunk, next to it, or the order's chunk plus half the range; small-order A and R=[S mod L]B+T', so that S<L alone decides), r_related_to_key (R == A, the honest signature with nonce r = a; R == -A; R == A+T; with the S that satisfies the equation and the one with the sign of r flipped), rare_encoding (honest keys — thorough: also nonce points — whose canonical encoding has the 15 upper bits of y all set or all clear, or the two lowest bytes 0x0000 / 0xffff, found by grinding 2^21 (2^24) seeds with crypto/ed25519), identity_r (the neutral element in every encoding as R under an honest key, with S = k*a, random S, S in {0,1,2}), undecodable A/R (with an honest signature, and with the signature that would verify if the undecodable point were taken for the neutral element), bigmsg (messages of 4 KiB..400 KiB with a length within 72 of m*2^j, j = 12..17, m = 1..3, and one in sixteen next to 256 KiB, 512 KiB or 1 MiB: honest, and with one bit flipped near the end or start of the message), length (signature lengths 0..70 and 64+256, 64+512, 64+65536), random, concurrent (8 goroutines verify their own message/signature pairs, valid and not, under one key, all passing the same PublicKey slice; expectations from the model), and sequence (2..6 consecutive calls on the related keys A and -A, which differ in the sign bit only, with signatures of either, torsion-shifted keys and undecodable R in between: every verdict must equal the predicate of that call alone; the inputs of a sequence are passed in buffers that are overwritten in place between the calls, and some steps first call Sign with a well-formed or a mismatched (seed of one key, public half of another) private key and verify the result). " +
			"Every Verify call is judged two-sidedly against the big-integer ZIP-215 model and one-sidedly against crypto/ed25519 (std accept => accept). Non-trivial: every distinct triple outside class random.",
		Assumptions: []string{"SHA-512 of the Go standard library", "math/big", "the ZIP-215 model in harness/oracle/ed (self-tested against RFC 8032 vectors, crypto/ed25519 and the known small-order encodings)"},
		SelfTest:    ed.SelfTest,
		Gen:         gen,
		Judge:       judge,
		Render:      render,
		Required:    []string{"rare_encoding model=accept", "bigmsg model=accept", "bigmsg model=reject", "r_related_to_key model=accept", "r_related_to_key model=reject", "identity_r model=accept", "identity_r model=reject", "concurrent executions on one shared key slice", "s_limbs model=accept", "s_limbs model=reject", "s_high model=accept", "s_high model=reject", "sequence: sign-then-verify steps", "model=accept impl=accept", "model=reject impl=reject", "std=accept", "sequence step model=accept", "sequence step model=reject"},
	})
}

func render(class string, key []byte) interface{} {
	p := fw.Unpack(key)
	if class == "concurrent" {
		return map[string]interface{}{"seed": fw.GetU64(p[0]), "scenario": "8 goroutines verify different (message, signature) pairs under one key, all passing the same PublicKey slice"}
	}
	if class == "sequence" {
		var calls []map[string]string
		for i := 0; i+2 < len(p); i += 3 {
			calls = append(calls, map[string]string{"public_key_or_private_key_of_a_sign_step": fw.Hex(p[i]), "message": fw.Hex(p[i+1]), "signature": fw.Hex(p[i+2])})
		}
		return map[string]interface{}{"calls_in_order": calls}
	}
	if class == "bigmsg" {
		q := bigCase(fw.GetU64(p[0]), int(fw.GetU32(p[1])), p[2][0])
		return map[string]interface{}{"seed": fw.GetU64(p[0]), "message_length": fw.GetU32(p[1]), "variant": map[byte]string{0: "honest signature", 1: "one bit of the last 64 message bytes flipped", 2: "one bit of the first 64 message bytes flipped"}[p[2][0]], "public_key": fw.Hex(q[0]), "signature": fw.Hex(q[2])}
	}
	return map[string]string{"public_key": fw.Hex(p[0]), "message": fw.Hex(p[1]), "signature": fw.Hex(p[2])}
}

func judge(class string, key []byte, o *fw.Obs) {
	p := fw.Unpack(key)
	if class == "sequence" {
		// a history of calls in one process: every verdict must equal the predicate of that call alone.
		// All inputs of the sequence live in ONE set of buffers that is overwritten in place between the
		// calls (a caller reusing its buffers): the verdict may depend only on the bytes at call time.
		o.Nontrivial()
		pubBuf, sigBuf := make([]byte, 32), make([]byte, 64)
		msgBuf := make([]byte, 0, 4096)
		for i := 0; i+2 < len(p); i += 3 {
			pubIn, msg, sigIn := p[i], p[i+1], p[i+2]
			if len(pubIn) == 64 {
				// a signing step: pubIn is a 64-byte private key (seed || public half, the halves need not
				// match); the produced signature is then verified under the public half
				priv := append([]byte(nil), pubIn...)
				var made []byte
				if !o.Try("ed25519.Sign", func() { made = ed25519.Sign(ed25519.PrivateKey(priv), msg) }) {
					return
				}
				pubIn, sigIn = pubIn[32:], made
				o.Count("sequence: sign-then-verify steps")
			}
			if len(pubIn) == stded.PublicKeySize {
				// accessors: every exported method of PublicKey that takes no argument is called on the key before
				// the judged call (found by reflection, so that helpers added later are driven as well); a
				// method that looks like a pure query must not change what Verify answers
				pk := ed25519.PublicKey(append([]byte(nil), pubIn...))
				if n := callNiladic(pk); n > 0 {
					o.Add("sequence: argument-less PublicKey methods called before a Verify", int64(n))
				}
			}
			copy(pubBuf, pubIn)
			msgBuf = append(msgBuf[:0], msg...)
			sb := append(sigBuf[:0], sigIn...)
			want := ed.VerifyZIP215(pubIn, msg, sigIn)
			var got bool
			if !o.Try("ed25519.Verify", func() { got = ed25519.Verify(ed25519.PublicKey(pubBuf), msgBuf, sb) }) {
				return
			}
			o.Count(fmt.Sprintf("model=%s impl=%s", ar(want), ar(got)))
			o.Count(fmt.Sprintf("sequence step model=%s", ar(want)))
			if want != got {
				o.Fail("verdict", "call %d of a sequence of %d calls (inputs passed in buffers that are reused in place): Verify(%x, %x, %x) = %v but the ZIP-215 predicate is %v (earlier calls of the sequence used related keys; the verdict must not depend on them)", i/3+1, len(p)/3, pubIn, msg, sigIn, got, want)
				return
			}
		}
		return
	}
	if class == "concurrent" {
		judgeConcurrent(fw.GetU64(p[0]), o)
		return
	}
	if class == "bigmsg" {
		p = bigCase(fw.GetU64(p[0]), int(fw.GetU32(p[1])), p[2][0])
	}
	pub, msg, sig := p[0], p[1], p[2]
	if class != "random" {
		o.Nontrivial()
	}
	want := ed.VerifyZIP215(pub, msg, sig)
	var got bool
	// the three inputs are windows into larger buffers (a wire message pk||sig||msg): they and the memory
	// behind them must be what they were after the call
	var sp fw.SpareSet
	pubIn, msgIn, sigIn := sp.Of("public key", pub, 96), fw.NilIfEmpty(sp.Of("message", msg, 96), selByte(pub, sig)), fw.NilIfEmpty(sp.Of("signature", sig, 96), selByte(sig, pub)>>1)
	if !o.Try("ed25519.Verify", func() { got = ed25519.Verify(ed25519.PublicKey(pubIn), msgIn, sigIn) }) {
		return
	}
	if !sp.Check(o) {
		return
	}
	if !bytes.Equal(pubIn, pub) || !bytes.Equal(msgIn, msg) || !bytes.Equal(sigIn, sig) {
		o.Fail("mutation", "Verify modified its inputs: public key %x message %x signature %x", pubIn, msgIn, sigIn)
		return
	}
	o.Count(fmt.Sprintf("model=%s impl=%s", ar(want), ar(got)))
	o.Count(fmt.Sprintf("%s model=%s", class, ar(want)))
	if want != got {
		o.Fail("verdict", "Verify = %v but the ZIP-215 predicate is %v (class %s)", got, want, class)
		return
	}
	if len(pub) == stded.PublicKeySize && stded.Verify(stded.PublicKey(pub), msg, sig) {
		o.Count("std=accept")
		if !got {
			o.Fail("std", "crypto/ed25519 accepts this signature but Verify rejects it")
		}
	}
}

// bigCase derives a key pair, a message of n bytes and its signature from a seed (messages of tens or hundreds
// of KiB are not carried in the case key). variant 1: one bit of the last 64 message bytes flipped after signing;
// variant 2: one bit of the first 64 bytes.
func bigCase(seed uint64, n int, variant byte) [][]byte {
	r := fw.SubRng(int64(seed), "c01-bigmsg")
	sd := make([]byte, 32)
	r.Read(sd)
	sk := stded.NewKeyFromSeed(sd)
	msg := make([]byte, n)
	r.Read(msg)
	sig := stded.Sign(sk, msg)
	w := 64
	if n < w {
		w = n
	}
	if n > 0 {
		switch variant {
		case 1:
			msg[n-1-r.Intn(w)] ^= 1 << uint(r.Intn(8))
		case 2:
			msg[r.Intn(w)] ^= 1 << uint(r.Intn(8))
		}
	}
	return [][]byte{[]byte(sk[32:]), msg, sig}
}

// callNiladic calls every exported method of v that takes no argument; panics are not judged here.
func callNiladic(v interface{}) (n int) {
	rv := reflect.ValueOf(v)
	for i := 0; i < rv.NumMethod(); i++ {
		m := rv.Method(i)
		if m.Type().NumIn() != 0 {
			continue
		}
		n++
		fw.TryPanics(func() { m.Call(nil) })
	}
	return n
}

// selByte derives a selector bit from the contents of the case (an empty message is passed as nil in half of the cases).
func selByte(a, b []byte) byte {
	var x byte
	for _, c := range a {
		x ^= c
	}
	if len(b) > 0 {
		x ^= b[len(b)-1] >> 3
	}
	return x
}

// judgeConcurrent: 8 goroutines verify different (message, signature) pairs under ONE key, all of them
// passing the same PublicKey slice (one backing array), as a server holding a peer's key does. Expectations
// come from the model, computed beforehand.
func judgeConcurrent(seed uint64, o *fw.Obs) {
	o.Nontrivial()
	r := fw.SubRng(int64(seed), "c01-concurrent")
	sd := make([]byte, 32)
	r.Read(sd)
	sk := stded.NewKeyFromSeed(sd)
	shared := append([]byte(nil), sk[32:]...)
	keyCopy := append([]byte(nil), shared...)
	type item struct {
		msg, sig []byte
		want     bool
	}
	const workers, rounds = 8, 40
	items := make([]item, workers)
	for i := range items {
		msg := make([]byte, r.Intn(200))
		r.Read(msg)
		sig := stded.Sign(sk, msg)
		if i%2 == 1 {
			sig[32+r.Intn(31)] ^= 1 << uint(r.Intn(8))
		}
		items[i] = item{msg, sig, ed.VerifyZIP215(keyCopy, msg, sig)}
	}
	var wg sync.WaitGroup
	var bad atomic.Int64
	var first atomic.Value
	panicked := make([]interface{}, workers)
	for w := 0; w < workers; w++ {
		wg.Add(1)
		go func(w int) {
			defer wg.Done()
			defer func() { panicked[w] = recover() }()
			it := items[w]
			for k := 0; k < rounds; k++ {
				if got := ed25519.Verify(ed25519.PublicKey(shared), it.msg, it.sig); got != it.want {
					if bad.Add(1) == 1 {
						first.Store(fmt.Sprintf("Verify(%x, %x, %x) = %v, the ZIP-215 predicate is %v", keyCopy, it.msg, it.sig, got, it.want))
					}
				}
			}
		}(w)
	}
	wg.Wait()
	for _, pv := range panicked {
		if pv != nil {
			o.Fail("panic", "panic in a concurrent Verify call: %v", pv)
			return
		}
	}
	o.Count("concurrent executions on one shared key slice")
	if !bytes.Equal(shared, keyCopy) {
		o.Fail("mutation", "the public key slice shared by the 8 goroutines was %x before and is %x after the calls", keyCopy, shared)
		return
	}
	if n := bad.Load(); n > 0 {
		o.Fail("concurrent", "with 8 goroutines verifying under one shared PublicKey slice, %d of %d verdicts were wrong; first: %s", n, workers*rounds, first.Load())
	}
}

func ar(b bool) string {
	if b {
		return "accept"
	}
	return "reject"
}

func emit(g *fw.Gen, class string, pub, msg, sig []byte) {
	g.Emit(class, fw.Pack(pub, msg, sig))
}

func randMsg(g *fw.Gen) []byte {
	switch g.Rng.Intn(12) {
	case 10: // beyond any plausible fixed-size buffer
		return g.Bytes(301 + g.Rng.Intn(2200))
	case 11: // around powers of two
		return g.Bytes(1<<uint(9+g.Rng.Intn(5)) + g.Rng.Intn(140) - 70)
	case 0:
		return []byte{}
	case 1:
		return g.Bytes(111 + g.Rng.Intn(20)) // around the SHA-512 padding boundary of R||A||M
	default:
		return g.Bytes(g.Rng.Intn(301))
	}
}

func randScalar(g *fw.Gen) *big.Int {
	s := ed.LE(g.Bytes(40))
	return s.Mod(s, ed.L)
}

func rev(b []byte) []byte {
	r := make([]byte, len(b))
	for i := range b {
		r[len(b)-1-i] = b[i]
	}
	return r
}

func sigOf(R []byte, s *big.Int) []byte {
	return append(append([]byte(nil), R...), ed.ToLE(s, 32)...)
}

func gen(g *fw.Gen) {
	if g.Build == "race" {
		// race build: only the class in which several goroutines are inside the library at once is generated
		// (the generator of the other classes is expensive under the race detector's instrumentation)
		for n := g.ShareOf(32, 1600); n > 0; n-- {
			g.Emit("concurrent", fw.Pack(fw.U64(g.Rng.Uint64())))
		}
		return
	}
	tors := ed.Torsion()
	var smallEnc [][]byte // every encoding of every small-order point
	for _, t := range tors {
		smallEnc = append(smallEnc, ed.Encodings(t)...)
	}

	// (a) honest, (b) bitflip, (c) S + jL, (g) lengths
	for n := g.ShareOf(3000, 150000); n > 0; n-- {
		seed := g.Bytes(32)
		sk := stded.NewKeyFromSeed(seed)
		pub := []byte(sk[32:])
		msg := randMsg(g)
		sig := stded.Sign(sk, msg)
		emit(g, "honest", pub, msg, sig)
		// bit flips
		for k := 0; k < 2; k++ {
			p2, m2, s2 := append([]byte(nil), pub...), append([]byte(nil), msg...), append([]byte(nil), sig...)
			for f := 1 + g.Rng.Intn(2); f > 0; f-- {
				switch w := g.Rng.Intn(3); {
				case w == 0:
					p2[g.Rng.Intn(32)] ^= 1 << uint(g.Rng.Intn(8))
				case w == 1 && len(m2) > 0:
					m2[g.Rng.Intn(len(m2))] ^= 1 << uint(g.Rng.Intn(8))
				default:
					s2[g.Rng.Intn(64)] ^= 1 << uint(g.Rng.Intn(8))
				}
			}
			emit(g, "bitflip", p2, m2, s2)
		}
		// S + jL for every j that fits 256 bits
		if n%4 == 0 {
			s := ed.LE(sig[32:])
			for j := int64(1); ; j++ {
				sj := new(big.Int).Add(s, new(big.Int).Mul(big.NewInt(j), ed.L))
				if sj.BitLen() > 256 {
					break
				}
				emit(g, "s_plus_jL", pub, msg, sigOf(sig[:32], sj))
			}
		}
		if n%16 == 0 {
			l := g.Rng.Intn(71)
			s2 := append(append([]byte(nil), sig...), g.Bytes(8)...)[:l]
			emit(g, "length", pub, msg, s2)
		}
		if n%64 == 0 { // a valid signature followed by 256 / 65536 further bytes (a length kept in 8 or 16 bits reads 64)
			extra := []int{256, 512, 65536}[g.Rng.Intn(3)]
			emit(g, "length", pub, msg, append(append([]byte(nil), sig...), make([]byte, extra)...))
		}
	}

	// (d) torsion components on honest-looking keys and nonces
	for n := g.ShareOf(64*6, 64*600); n > 0; n-- {
		i, j := n%8, (n/8)%8
		s, r := randScalar(g), randScalar(g)
		A := ed.BaseMul(s).Add(tors[i]).Encode()
		R := ed.BaseMul(r).Add(tors[j]).Encode()
		msg := randMsg(g)
		k := ed.HashModL(R, A, msg)
		S := new(big.Int).Mul(k, s)
		S.Add(S, r).Mod(S, ed.L)
		emit(g, "torsion", A, msg, sigOf(R, S))
		if n%3 == 0 {
			S2 := new(big.Int).Add(S, big.NewInt(int64(1+g.Rng.Intn(7))))
			S2.Mod(S2, ed.L)
			emit(g, "torsion_bad_s", A, msg, sigOf(R, S2))
		}
		if n%5 == 0 {
			// the same with S + L: must be rejected although the equation holds
			SL := new(big.Int).Add(S, ed.L)
			emit(g, "s_plus_jL", A, msg, sigOf(R, SL))
		}
	}

	// (e) small-order points in every encoding, as A and as R
	idx := 0
	reps := g.Pick(1, 20)
	for rep := 0; rep < reps; rep++ {
		for _, ea := range smallEnc {
			for _, er := range smallEnc {
				idx++
				if !g.Own(idx) {
					continue
				}
				msg := randMsg(g)
				emit(g, "smallorder", ea, msg, sigOf(er, big.NewInt(0)))
				switch idx % 4 {
				case 0:
					emit(g, "smallorder", ea, msg, sigOf(er, big.NewInt(int64(1+g.Rng.Intn(1000)))))
				case 1:
					j := int64(1 + g.Rng.Intn(15))
					emit(g, "smallorder", ea, msg, sigOf(er, new(big.Int).Mul(big.NewInt(j), ed.L)))
				case 2:
					// small-order A, R = [r]B + T', S = r
					r := randScalar(g)
					R := ed.BaseMul(r).Add(tors[g.Rng.Intn(8)]).Encode()
					emit(g, "smallorder", ea, msg, sigOf(R, r))
				default:
					// A = [s]B + T, R small-order in encoding er, S = k*s with k over the bytes as given
					s := randScalar(g)
					A := ed.BaseMul(s).Add(tors[g.Rng.Intn(8)]).Encode()
					k := ed.HashModL(er, A, msg)
					S := new(big.Int).Mul(k, s)
					S.Mod(S, ed.L)
					emit(g, "smallorder", A, msg, sigOf(er, S))
				}
			}
		}
	}
	// all encodings with y >= p, as A and as R, against honest material
	for i, e := range ed.NonCanonicalY() {
		if !g.Own(i) {
			continue
		}
		seed := g.Bytes(32)
		sk := stded.NewKeyFromSeed(seed)
		msg := randMsg(g)
		sig := stded.Sign(sk, msg)
		emit(g, "noncanonical_y", e, msg, sig)
		emit(g, "noncanonical_y", []byte(sk[32:]), msg, append(append([]byte(nil), e...), sig[32:]...))
		emit(g, "noncanonical_y", e, msg, sigOf(e, big.NewInt(0)))
	}

	// (f) undecodable A / R
	for n := g.ShareOf(600, 30000); n > 0; n-- {
		var bad []byte
		for {
			bad = g.Bytes(32)
			if _, ok := ed.Decode(bad, false); !ok {
				break
			}
		}
		seed := g.Bytes(32)
		sk := stded.NewKeyFromSeed(seed)
		msg := randMsg(g)
		sig := stded.Sign(sk, msg)
		switch n % 4 {
		case 0:
			emit(g, "undecodable", bad, msg, sig)
		case 1:
			emit(g, "undecodable", []byte(sk[32:]), msg, append(append([]byte(nil), bad...), sig[32:]...))
		case 2:
			// undecodable A with the signature that verifies if A is taken for the neutral element: R = [r]B, S = r
			r := randScalar(g)
			emit(g, "undecodable", bad, msg, sigOf(ed.BaseMul(r).Encode(), r))
		default:
			// undecodable R with the S that verifies if R is taken for the neutral element: S = k*a, k over the bytes as given
			a := randScalar(g)
			A := ed.BaseMul(a).Encode()
			S := new(big.Int).Mul(ed.HashModL(bad, A, msg), a)
			emit(g, "undecodable", A, msg, sigOf(bad, S.Mod(S, ed.L)))
		}
	}

	// messages of 4 KiB .. 400 KiB whose length is next to a multiple of a power of two (an implementation that
	// hashes in blocks or chunks gets the last partial chunk wrong only for some residues): m * 2^j + d,
	// j = 12..17, m = 1..3, |d| <= 72; honest, and with one bit of the message flipped near its end or start
	for n := g.ShareOf(800, 40000); n > 0; n-- {
		l := (1+g.Rng.Intn(3))<<uint(12+g.Rng.Intn(6)) + g.Rng.Intn(145) - 72
		if n%16 == 0 { // 256 KiB, 512 KiB, 1 MiB
			l = 1<<uint(18+g.Rng.Intn(3)) + g.Rng.Intn(145) - 72
		}
		g.Emit("bigmsg", fw.Pack(fw.U64(g.Rng.Uint64()), fw.U32(uint32(l)), []byte{byte(g.Rng.Intn(4) % 3)}))
	}

	// canonical S in the top sliver [2^252, L): honest signatures land there with probability 2^-127, so
	// they are built from a small-order A and R = [S]B + T' (the cofactored equation then holds for any S)
	{
		top := new(big.Int).Lsh(big.NewInt(1), 252)
		width := new(big.Int).Sub(ed.L, top)
		wl1 := new(big.Int).Rsh(width, 64).Uint64() // bits 64..127 of L - 2^252
		wl0 := new(big.Int).And(width, new(big.Int).SetUint64(^uint64(0))).Uint64()
		mk := func(hi, lo uint64) *big.Int {
			v := new(big.Int).SetUint64(hi)
			v.Lsh(v, 64)
			return v.Or(v, new(big.Int).SetUint64(lo))
		}
		for n := g.ShareOf(600, 30000); n > 0; n-- {
			var t *big.Int
			switch g.Rng.Intn(6) {
			case 0:
				t = new(big.Int).Rand(g.Rng, width)
			case 1: // high limb below the bound's, low limb above the bound's
				t = mk(g.Rng.Uint64()%wl1, wl0+g.Rng.Uint64()%(^uint64(0)-wl0))
			case 2: // high limb equal, low limb below
				t = mk(wl1, g.Rng.Uint64()%wl0)
			case 3: // a few below the order
				t = new(big.Int).Sub(width, big.NewInt(int64(1+g.Rng.Intn(1000))))
			case 4: // at and just above the order (must be rejected)
				t = new(big.Int).Add(width, big.NewInt(int64(g.Rng.Intn(3))))
			default:
				t = mk(g.Rng.Uint64()%(wl1+1), g.Rng.Uint64())
			}
			S := new(big.Int).Add(top, t)
			A := smallEnc[g.Rng.Intn(len(smallEnc))]
			R := ed.BaseMul(new(big.Int).Mod(S, ed.L)).Add(tors[g.Rng.Intn(8)]).Encode()
			emit(g, "s_high", A, randMsg(g), sigOf(R, S))
		}
	}

	// S with structured limbs over the whole 256-bit range (a hand-written "is S below the order" compares
	// limbs or bytes): every chunk of width 64/32/16/8 bits is 0, 1, all-ones, the half-way value, the
	// corresponding chunk of the order (or next to it), or random. With a small-order A and R = [S mod L]B + T'
	// the cofactored equation holds for every S, so the verdict is decided by S < L alone.
	{
		lle := ed.ToLE(ed.L, 32)
		for n := g.ShareOf(1200, 60000); n > 0; n-- {
			wbytes := []int{8, 4, 2, 1}[g.Rng.Intn(4)]
			sb := make([]byte, 32)
			for c := 0; c < 32; c += wbytes {
				chunk := sb[c : c+wbytes]
				lchunk := new(big.Int).SetBytes(rev(lle[c : c+wbytes]))
				var v *big.Int
				max := new(big.Int).Lsh(big.NewInt(1), uint(8*wbytes))
				switch g.Rng.Intn(10) {
				case 0:
					v = big.NewInt(0)
				case 1:
					v = big.NewInt(1)
				case 2:
					v = new(big.Int).Sub(max, big.NewInt(1))
				case 3:
					v = new(big.Int).Rsh(max, 1)
				case 4:
					v = new(big.Int).Sub(new(big.Int).Rsh(max, 1), big.NewInt(1))
				case 5, 6:
					v = lchunk
				case 7:
					v = new(big.Int).Add(lchunk, big.NewInt(int64(g.Rng.Intn(3)-1)))
				case 8: // the order's chunk plus half the range (wraps a signed difference)
					v = new(big.Int).Add(lchunk, new(big.Int).Rsh(max, 1))
				default:
					v = new(big.Int).SetBytes(g.Bytes(wbytes))
				}
				v.Mod(v.Add(v, max), max)
				copy(chunk, ed.ToLE(v, wbytes))
			}
			switch g.Rng.Intn(4) {
			case 0: // top byte as the order's: S in [2^252, 2^253)
				sb[31] = 0x10
			case 1:
				sb[31] &= 0x0f
			case 2:
				sb[31] &= 0x1f
			}
			S := ed.LE(sb)
			A := smallEnc[g.Rng.Intn(len(smallEnc))]
			R := ed.BaseMul(new(big.Int).Mod(S, ed.L)).Add(tors[g.Rng.Intn(8)]).Encode()
			emit(g, "s_limbs", A, randMsg(g), sigOf(R, S))
		}
	}

	// R related to the key: R == A (the honest signature with nonce r = a), R == -A, R == A + T; and R the
	// neutral element in every encoding under an honest key. The equation decides, not the coincidence.
	for n := g.ShareOf(400, 20000); n > 0; n-- {
		a := randScalar(g)
		Apt := ed.BaseMul(a)
		A := Apt.Encode()
		msg := randMsg(g)
		var Rpt *ed.Point
		switch n % 4 {
		case 0, 1:
			Rpt = Apt
		case 2:
			Rpt = Apt.Neg()
		default:
			Rpt = Apt.Add(tors[1+g.Rng.Intn(7)])
		}
		R := Rpt.Encode()
		k := ed.HashModL(R, A, msg)
		ka := new(big.Int).Mul(k, a)
		// S = r + k*a with r the discrete log of R up to torsion: a, -a, a
		r := new(big.Int).Set(a)
		if n%4 == 2 {
			r.Neg(r)
		}
		good := new(big.Int).Add(ka, r)
		good.Mod(good, ed.L)
		bad := new(big.Int).Sub(ka, r)
		bad.Mod(bad, ed.L)
		emit(g, "r_related_to_key", A, msg, sigOf(R, good))
		emit(g, "r_related_to_key", A, msg, sigOf(R, bad))
		// the neutral element as R, in each of its encodings: valid exactly for S = k*a (mod L)
		for _, e := range ed.Encodings(ed.Identity()) {
			k0 := ed.HashModL(e, A, msg)
			s0 := new(big.Int).Mul(k0, a)
			s0.Mod(s0, ed.L)
			switch g.Rng.Intn(3) {
			case 0:
				emit(g, "identity_r", A, msg, sigOf(e, s0))
			case 1:
				emit(g, "identity_r", A, msg, sigOf(e, randScalar(g)))
			default:
				emit(g, "identity_r", A, msg, sigOf(e, big.NewInt(int64(g.Rng.Intn(3)))))
			}
		}
	}
	// after those: honest signatures again (a call that disturbed package state shows up here)
	for n := g.ShareOf(200, 10000); n > 0; n-- {
		sk := stded.NewKeyFromSeed(g.Bytes(32))
		msg := randMsg(g)
		emit(g, "honest", []byte(sk[32:]), msg, stded.Sign(sk, msg))
	}

	// honest keys and nonce points whose canonical encodings have rare byte patterns (the 15 upper bits of y all
	// set — y just below 2^255, where a hand-written "y >= p" test must look at all the bytes —, all clear,
	// the two lowest bytes 0x0000 or 0xffff): found by grinding seeds / messages with crypto/ed25519, about one
	// in 2^14. The key pattern is ground in both tiers, the R pattern in the thorough tier.
	rare := func(e []byte) bool {
		return (e[31]&0x7f == 0x7f && e[30] == 0xff) || (e[31]&0x7f == 0 && e[30] == 0) || (e[0] == 0 && e[1] == 0) || (e[0] == 0xff && e[1] == 0xff)
	}
	{
		seed := g.Bytes(32)
		for n, hits := g.ShareOf(1<<21, 1<<24), 0; n > 0 && hits < 64; n-- {
			binary.LittleEndian.PutUint64(seed[8:], uint64(n))
			sk := stded.NewKeyFromSeed(seed)
			if !rare(sk[32:]) {
				continue
			}
			hits++
			msg := randMsg(g)
			emit(g, "rare_encoding", []byte(sk[32:]), msg, stded.Sign(sk, msg))
		}
		if !g.Quick() {
			sk := stded.NewKeyFromSeed(g.Bytes(32))
			msg := g.Bytes(24)
			for n, hits := g.ShareOf(0, 1<<22), 0; n > 0 && hits < 32; n-- {
				binary.LittleEndian.PutUint64(msg[8:], uint64(n))
				sig := stded.Sign(sk, msg)
				if !rare(sig[:32]) {
					continue
				}
				hits++
				emit(g, "rare_encoding", []byte(sk[32:]), msg, sig)
			}
		}
	}

	// sequences of calls on related keys (A, -A, A+T, undecodable in between): the verdict of a call
	// must not depend on earlier calls (caches, pooled state)
	for n := g.ShareOf(400, 20000); n > 0; n-- {
		sk := randScalar(g)
		nsk := new(big.Int).Sub(ed.L, sk)
		type kp struct {
			sc  *big.Int
			pub []byte
		}
		keys := []kp{{sk, ed.BaseMul(sk).Encode()}, {nsk, ed.BaseMul(nsk).Encode()}}
		sign := func(k kp, msg []byte) []byte {
			r := randScalar(g)
			R := ed.BaseMul(r).Encode()
			h := ed.HashModL(R, k.pub, msg)
			S := new(big.Int).Mul(h, k.sc)
			S.Add(S, r).Mod(S, ed.L)
			return sigOf(R, S)
		}
		var parts [][]byte
		steps := 2 + g.Rng.Intn(5)
		for st := 0; st < steps; st++ {
			k := keys[st%2]
			if g.Rng.Intn(4) == 0 {
				k = keys[g.Rng.Intn(2)]
			}
			msg := randMsg(g)
			switch g.Rng.Intn(8) {
			case 0: // signature of the other key of the pair: must be rejected
				parts = append(parts, k.pub, msg, sign(keys[1-st%2], msg))
			case 1: // undecodable R in between
				bad := g.Bytes(32)
				for {
					if _, ok := ed.Decode(bad, false); !ok {
						break
					}
					bad = g.Bytes(32)
				}
				sg := sign(k, msg)
				parts = append(parts, k.pub, msg, append(bad, sg[32:]...))
			case 2: // the key with a torsion component, honest signature of the clean key
				parts = append(parts, ed.BaseMul(k.sc).Add(tors[1+g.Rng.Intn(7)]).Encode(), msg, sign(k, msg))
			case 3: // signing step with a private key whose halves do not match: seed of a fresh key, public half of k
				parts = append(parts, append(g.Bytes(32), k.pub...), msg, nil)
			case 4: // signing step with a well-formed private key
				seed := g.Bytes(32)
				hp, _, _ := ed.PublicFromSeed(seed)
				parts = append(parts, append(seed, hp...), msg, nil)
			default:
				parts = append(parts, k.pub, msg, sign(k, msg))
			}
		}
		g.Emit("sequence", fw.Pack(parts...))
	}

	for n := g.ShareOf(32, 1600); n > 0; n-- {
		g.Emit("concurrent", fw.Pack(fw.U64(g.Rng.Uint64())))
	}
	// (h) random triples
	for n := g.ShareOf(2000, 100000); n > 0; n-- {
		sig := g.Bytes(64)
		if g.Rng.Intn(2) == 0 {
			sig[63] &= 0x0f
		}
		emit(g, "random", g.Bytes(32), randMsg(g), sig)
	}
}
