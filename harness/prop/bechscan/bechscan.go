// Package bechscan enumerates checksum values of one valid Bech32 string: the six
// checksum symbols enter the polymod linearly, so replacing them by cs XOR delta
// makes the polymod of the whole string 1 XOR delta. Scanning delta therefore
// probes which polymod values the decoder under test accepts (exactly one may be).
package bechscan

import (
	"fmt"

	"verif/harness/fw"
	"verif/harness/oracle/bech32m"
)

const charset = "qpzry9x8gf2tvdw0s3jn54khce6mua7l"

// Targeted is the list of deltas that correspond to plausible confusions: the
// Bech32m constant, zero, small constants, single bits, all ones.
func Targeted() []uint32 {
	var out []uint32
	add := func(c uint32) {
		if d := (c ^ 1) & (1<<30 - 1); d != 0 {
			out = append(out, d)
		}
	}
	add(0x2bc830a3) // Bech32m
	add(0x3fffffff)
	for c := uint32(0); c < 64; c++ {
		add(c)
	}
	for k := uint(0); k < 30; k++ {
		add(1 << k)
		add(1<<k | 1)
	}
	return out
}

// Base builds a valid lower-case string from the seed.
func Base(seed uint64) string {
	r := fw.SubRng(int64(seed), "bechscan-base")
	hrp := make([]byte, 1+r.Intn(6))
	for i := range hrp {
		hrp[i] = byte('a' + r.Intn(26))
	}
	data := make([]byte, 5*(1+r.Intn(4)))
	r.Read(data)
	s, ok := bech32m.Encode(string(hrp), data)
	if !ok {
		panic("bechscan: model encoder refused a base")
	}
	return s
}

// WellKnownHRPs are human-readable parts an implementation may treat specially: the prefixes this
// repository defines (pkg/bech32/address), those of other deployed Bech32 / Bech32m formats, and the
// human-readable parts of the BIP-173 / BIP-350 test vectors.
var WellKnownHRPs = []string{"iota", "atoi", "smr", "rms", "bc", "tb", "bcrt", "ltc", "tltc", "lnbc", "lntb", "cosmos", "addr", "stake", "a", "an83characterlonghumanreadablepartthatcontainsthenumber1andtheexcludedcharactersbio", "abcdef", "split", "test", "?", "1", "x1x", "10a", "bech32", "bech32m"}

// BaseHRP builds a valid lower-case string with the given human-readable part.
func BaseHRP(seed uint64, hrp string) string {
	r := fw.SubRng(int64(seed), "bechscan-basehrp", hrp)
	n := 5 * (1 + r.Intn(4))
	for len(hrp)+1+(8*n+4)/5+6 > 90 {
		n--
	}
	data := make([]byte, n)
	r.Read(data)
	s, ok := bech32m.Encode(hrp, data)
	if !ok {
		panic("bechscan: model encoder refused a base")
	}
	return s
}

func symOf(c byte) byte {
	for i := 0; i < 32; i++ {
		if charset[i] == c {
			return byte(i)
		}
	}
	panic("bechscan: not a charset character")
}

// Scan calls accept on the base string with its checksum XORed by every delta produced by next
// (next returns 0 to stop) and returns the deltas that were accepted.
func Scan(base string, next func() uint32, accept func(string) bool) (acceptedDeltas []uint32, tried int64) {
	buf := []byte(base)
	n := len(buf)
	var cs [6]byte
	for k := 0; k < 6; k++ {
		cs[k] = symOf(buf[n-6+k])
	}
	for {
		d := next()
		if d == 0 {
			return
		}
		for k := 0; k < 6; k++ {
			buf[n-6+k] = charset[cs[k]^byte(d>>(5*uint(5-k)))&31]
		}
		tried++
		if accept(string(buf)) {
			acceptedDeltas = append(acceptedDeltas, d)
			if len(acceptedDeltas) >= 8 {
				return
			}
		}
	}
}

// Describe renders the string of a delta.
func Describe(base string, d uint32) string {
	var out string
	Scan(base, func() func() uint32 {
		done := false
		return func() uint32 {
			if done {
				return 0
			}
			done = true
			return d
		}
	}(), func(s string) bool { out = s; return false })
	return fmt.Sprintf("%q (checksum polymod %#x instead of 1)", out, d^1)
}
