// Package c16 monitors the error-detection guarantee of the Bech32 checksum:
// exhaustive substitutions of weight 1 and 2 and sampled ones of weight 3 and
// 4 through bech32.Decode, and an exhaustive search over all error patterns of
// weight <= 4 at the level of the syndromes of the real bech32Polymod.
package c16

import (
	"fmt"
	"math/rand"
	"sort"
	"strings"

	"github.com/wollac/iota-crypto-demo/pkg/bech32"

	"verif/harness/fw"
	"verif/harness/oracle/bech32m"
	"verif/harness/prop/bechscan"
)

const (
	cW1       = "weight 1: corrupted strings decoded"
	cW2       = "weight 2: corrupted strings decoded"
	cW34      = "weight 3-4: corrupted strings decoded"
	cHRP      = "corrupted strings with a substitution in the human-readable part"
	cTable    = "syndrome table: independent of base and length"
	cAdditive = "syndrome table: additive on sampled patterns of weight 2..4"
	cMitm     = "meet in the middle complete: no pattern of weight <= 4 with zero syndrome"
)

func init() {
	fw.Register(&fw.Prop{
		ID:                  "C16",
		DeadlockIsViolation: true,                               // the calls of this property are synchronous functions of their inputs: a call blocked for good inside the library is a violation
		Builds:              []string{"default", "386", "race"}, // the 386 build runs 1/4 of the random classes on a 32-bit target
		// race build: only the classes in which several goroutines are inside the library at once, under the race detector
		RaceClasses: []string{"concurrent"},
		Scale386:    4,
		// a history case scans its share of all 2^30 checksum values when Decode turns out to depend on the call before it
		StallClass:       map[string]int{"history": 1500, "acceptset": 1500}, // scans of millions of rejected strings: slow when rejections are slow
		WatchdogQuick:    3000,
		WatchdogThorough: 7200,
		Rule: "valid strings built by the model encoder (total lengths 90 down to 12, lower and upper case, human-readable parts with letters and digits). w1: every substitution of one character; w2: every substitution of two characters (one case per first position, all second positions and all replacement values inside); w34: seeded random patterns of 3 and 4 changed characters. " +
			"A data-part character (checksum included) is replaced by every other charset character in the case of the string, a letter of the human-readable part by every other letter of the same case, a digit by every other digit. Every corrupted string goes through bech32.Decode; an acceptance is a violation. " +
			"syndrome (one case, shard 0): sigma(j,v) = polymod(base xor e_{j,v}) xor polymod(base) is read from the real bech32Polymod (hook VerifPolymod) for every distance j = 0..88 from the end and every v = 1..31 on several random bases of lengths 89..178; independence of base and length and additivity on sampled patterns are monitored; all single and pair sums (and the empty sum) are sorted and searched for equal values: two different entries with the same value are an undetected error of weight <= 4; a hit is turned into a pair of concrete strings and confirmed through bech32.Encode/Decode before it is reported. " +
			"concurrent: 8 goroutines call Decode at once on valid strings with related human-readable parts and on corrupted strings made of a related human-readable part (1..4 letters changed) and the data part of a valid string; every corrupted string must be rejected. acceptset: for one valid string (random human-readable part; also every entry of a list of deployed prefixes incl. iota, atoi, smr, rms, bc, tb, since the accepted checksum values may depend on the prefix) the six checksum symbols are XORed with a 30-bit delta, which makes the checksum polymod 1^delta; Decode must reject every delta != 0: plausible constants (Bech32m, 0, small values, single bits) on every shard and 2^22-value chunks of all 2^30 values (one random chunk per shard in quick, all 256 chunks = exhaustive in thorough); an accepted delta is converted with the syndrome table into an error pattern of weight <= 4 and confirmed as a pair of strings. " +
			"history: the acceptance-set scan on an 89-character valid string with a rejected call in front of every probe — bech32.Decode, or address.ParseBech32 which sits on top of it — (8 kinds of rejected strings: invalid character at the end / in the middle of the data part, data part shorter than a checksum, mixed case, wrong checksum, no separator, over-long, empty human-readable part); 2^17 checksum values per kind and shard in the quick tier, 2^23 in the thorough tier, and all 2^30 (split over the shards) as soon as the valid string itself is rejected after such a call; an accepted value is turned into a pattern of at most four substitutions inside the data part of the same string and confirmed through the same two calls. " +
			"Non-trivial: every w2, w34, acceptset, history and syndrome case (distinct (string, first position) resp. (string, pattern seed)).",
		Assumptions: []string{"the BIP-173 port in harness/oracle/bech32m builds the valid strings (self-tested against the vectors published in BIP-173); the library must accept them, otherwise that is reported",
			"layer (c) judges the function the hook exposes; that Decode uses it is what the w1/w2/w34 layers observe"},
		SelfTest: bech32m.SelfTest,
		Gen:      gen,
		Judge:    judge,
		Render:   render,
		Post: func(r *fw.RunResult) {
			if r.Counters["history anomaly: valid string rejected right after a rejected call"] > 0 && r.ViolTotal == 0 {
				r.AddInconclusive("Decode rejected a valid string right after a rejected call (it depends on the call before it), but no string within four substitutions of a valid one was found to be accepted in that situation")
			}
		},
		Required: []string{"history: valid string accepted right after a rejected call", "history scan: checksum values tried through Decode, each right after a rejected call", "concurrent executions", "acceptance-set scan: targeted constants", "acceptance-set scan: targeted constants on a well-known human-readable part", "acceptance-set scan: 2^22 chunks", cW1, cW2, cW34, cHRP, cTable, cAdditive, cMitm, "syndromes recorded (j, v)"},
	})
}

func render(class string, key []byte) interface{} {
	p := fw.Unpack(key)
	switch class {
	case "syndrome":
		return map[string]interface{}{"seed": fw.GetU64(p[0])}
	case "concurrent":
		return map[string]interface{}{"seed": fw.GetU64(p[0]), "scenario": "8 goroutines decode valid strings with related human-readable parts and corrupted strings (related hrp + data part of a valid string)"}
	case "history":
		return map[string]interface{}{"rejected_string_decoded_before_every_probe": poison(fw.GetU64(p[0]), p[1][0]), "base_seed": fw.GetU64(p[0]), "share": fmt.Sprintf("%d of %d", fw.GetU32(p[2]), fw.GetU32(p[3]))}
	case "acceptset":
		if p[1][0] == 2 {
			return map[string]interface{}{"base_string": bechscan.BaseHRP(fw.GetU64(p[0]), bechscan.WellKnownHRPs[int(fw.GetU32(p[2]))%len(bechscan.WellKnownHRPs)]), "mode": "targeted constants on a well-known human-readable part"}
		}
		return map[string]interface{}{"base_string": bechscan.Base(fw.GetU64(p[0])), "mode": map[byte]string{0: "targeted constants", 1: "chunk of 2^22 checksum values"}[p[1][0]], "chunk": fw.GetU32(p[2])}
	case "w1":
		return map[string]interface{}{"string": string(p[0])}
	case "w2":
		return map[string]interface{}{"string": string(p[0]), "first_position": fw.GetU32(p[1])}
	default:
		return map[string]interface{}{"string": string(p[0]), "pattern_seed": fw.GetU64(p[1]), "patterns": fw.GetU32(p[2])}
	}
}

// alternatives returns the characters position pos of s may be replaced with.
func alternatives(s string, sep int, upper bool, pos int) []byte {
	var out []byte
	c := s[pos]
	switch {
	case pos == sep:
	case pos > sep:
		for i := 0; i < 32; i++ {
			a := bech32m.Charset[i]
			if upper && a >= 'a' && a <= 'z' {
				a -= 32
			}
			if a != c {
				out = append(out, a)
			}
		}
	case c >= 'a' && c <= 'z':
		for a := byte('a'); a <= 'z'; a++ {
			if a != c {
				out = append(out, a)
			}
		}
	case c >= 'A' && c <= 'Z':
		for a := byte('A'); a <= 'Z'; a++ {
			if a != c {
				out = append(out, a)
			}
		}
	case c >= '0' && c <= '9':
		for a := byte('0'); a <= '9'; a++ {
			if a != c {
				out = append(out, a)
			}
		}
	}
	return out
}

type target struct {
	s     string
	sep   int
	upper bool
	alts  [][]byte
}

func newTarget(s string, o *fw.Obs) *target {
	t := &target{s: s, sep: strings.LastIndexByte(s, '1'), upper: bech32m.HasUpper(s)}
	if _, _, ok := bech32m.DecodeBytes(s); !ok || t.sep < 1 {
		panic("c16: the base string is not valid for the model") // harness error
	}
	var err error
	if !o.Try("bech32.Decode(base)", func() { _, _, err = bech32.Decode(s) }) {
		return nil
	}
	if err != nil {
		// C04's matter; the corrupted versions of a valid Bech32 string must be rejected whatever Decode says about the string itself
		o.Count("valid base string rejected by Decode (left to C04); its neighbourhood is scanned all the same")
	}
	t.alts = make([][]byte, len(s))
	for i := range t.alts {
		t.alts[i] = alternatives(s, t.sep, t.upper, i)
	}
	return t
}

func accepted(b []byte) bool {
	_, _, err := bech32.Decode(string(b))
	return err == nil
}

func judge(class string, key []byte, o *fw.Obs) {
	p := fw.Unpack(key)
	if class == "syndrome" {
		o.Nontrivial()
		syndromeLayer(int64(fw.GetU64(p[0])), o)
		return
	}
	if class == "concurrent" {
		judgeConcurrent(fw.GetU64(p[0]), o)
		return
	}
	if class == "history" {
		judgeHistory(fw.GetU64(p[0]), p[1][0], fw.GetU32(p[2]), fw.GetU32(p[3]), p[4][0] == 1, o)
		return
	}
	if class == "acceptset" {
		judgeAcceptSet(fw.GetU64(p[0]), p[1][0], fw.GetU32(p[2]), o)
		return
	}
	t := newTarget(string(p[0]), o)
	if t == nil {
		return
	}
	s := t.s
	buf := []byte(s)
	var n, nh int64
	switch class {
	case "w1":
		o.Try("bech32.Decode", func() {
			for i := range buf {
				for _, a := range t.alts[i] {
					buf[i] = a
					n++
					if i < t.sep {
						nh++
					}
					if accepted(buf) {
						o.Fail("undetected", "Decode accepts %+q, which differs from the valid string %+q in 1 character (position %d)", buf, s, i)
					}
				}
				buf[i] = s[i]
			}
		})
		o.Add(cW1, n)
	case "w2":
		o.Nontrivial()
		i := int(fw.GetU32(p[1]))
		if i < 0 || i >= len(s) {
			panic("c16: bad position in key")
		}
		o.Try("bech32.Decode", func() {
			for _, a := range t.alts[i] {
				buf[i] = a
				for j := i + 1; j < len(buf); j++ {
					for _, b := range t.alts[j] {
						buf[j] = b
						n++
						if accepted(buf) {
							o.Fail("undetected", "Decode accepts %+q, which differs from the valid string %+q in 2 characters (positions %d, %d)", buf, s, i, j)
						}
					}
					buf[j] = s[j]
				}
			}
		})
		if i < t.sep {
			nh = n
		}
		o.Add(cW2, n)
	default: // w34
		o.Nontrivial()
		r := fw.SubRng(int64(fw.GetU64(p[1])), "c16-w34")
		count := int(fw.GetU32(p[2]))
		var subst []int // positions that can be substituted
		for i := range t.alts {
			if len(t.alts[i]) > 0 {
				subst = append(subst, i)
			}
		}
		if len(subst) < 4 {
			panic("c16: string too short for weight 4")
		}
		o.Try("bech32.Decode", func() {
			var pos [4]int
			for k := 0; k < count; k++ {
				w := 3 + r.Intn(2)
				inHRP := false
				for a := 0; a < w; {
					pos[a] = subst[r.Intn(len(subst))]
					if r.Intn(4) == 0 { // prefer the neighbourhood of the checksum and of the hrp now and then
						pos[a] = subst[len(subst)-1-r.Intn(6)]
					}
					dup := false
					for b := 0; b < a; b++ {
						dup = dup || pos[b] == pos[a]
					}
					if !dup {
						a++
					}
				}
				for a := 0; a < w; a++ {
					al := t.alts[pos[a]]
					buf[pos[a]] = al[r.Intn(len(al))]
					inHRP = inHRP || pos[a] < t.sep
				}
				n++
				if inHRP {
					nh++
				}
				if accepted(buf) {
					o.Fail("undetected", "Decode accepts %+q, which differs from the valid string %+q in %d characters (positions %v)", buf, s, w, pos[:w])
				}
				for a := 0; a < w; a++ {
					buf[pos[a]] = s[pos[a]]
				}
			}
		})
		o.Add(cW34, n)
	}
	if nh > 0 {
		o.Add(cHRP, nh)
	}
}

// ---------------------------------------------------------------------------
// layer (c): syndromes of the real polymod

const nDist = 89 // distances 0..88 from the end of the checksummed sequence

type pat struct {
	j [4]int
	v [4]byte
	n int
}

func (p pat) String() string {
	var sb strings.Builder
	for i := 0; i < p.n; i++ {
		fmt.Fprintf(&sb, "(distance %d from the end, symbol xor %d)", p.j[i], p.v[i])
	}
	return sb.String()
}

const noCode = 0xfff

func code(j int, v byte) uint64 { return uint64(j)<<5 | uint64(v) }

func decodeEntry(e uint64) (p pat) {
	for _, c := range []uint64{e >> 12 & 0xfff, e & 0xfff} {
		if c != noCode {
			p.j[p.n], p.v[p.n] = int(c>>5), byte(c&31)
			p.n++
		}
	}
	return p
}

// combine is the position-wise xor of two patterns.
func combine(a, b pat) (p pat) {
	m := map[int]byte{}
	for i := 0; i < a.n; i++ {
		m[a.j[i]] ^= a.v[i]
	}
	for i := 0; i < b.n; i++ {
		m[b.j[i]] ^= b.v[i]
	}
	var js []int
	for j, v := range m {
		if v != 0 {
			js = append(js, j)
		}
	}
	sort.Ints(js)
	for _, j := range js {
		p.j[p.n], p.v[p.n] = j, m[j]
		p.n++
	}
	return p
}

func syndromeLayer(seed int64, o *fw.Obs) {
	r := fw.SubRng(seed, "c16-syndrome")
	var sigma [nDist][32]uint32
	outOfRange := ""
	polymod := func(v []byte) uint32 {
		raw := bech32.VerifPolymod(v)
		if (raw < 0 || raw >= 1<<30) && outOfRange == "" {
			outOfRange = fmt.Sprintf("polymod of %x is %d, outside [0, 2^30)", v, raw)
		}
		return uint32(raw)
	}

	// 1. the table, from several random bases of several lengths
	lengths := []int{nDist, nDist + 1, 173, 178, nDist + r.Intn(90), nDist + r.Intn(90)}
	var lastBase []byte
	bad := false
	ok := o.Try("bech32.VerifPolymod", func() {
		for b, L := range lengths {
			base := make([]byte, L)
			for i := range base {
				base[i] = byte(r.Intn(32))
			}
			if b == 2 { // shaped like an expanded 83-character hrp followed by 7 symbols
				for i := 0; i < 83; i++ {
					base[i] = byte(1 + r.Intn(3))
				}
				base[83] = 0
			}
			p0 := polymod(base)
			for j := 0; j < nDist; j++ {
				for v := byte(1); v < 32; v++ {
					base[L-1-j] ^= v
					sg := polymod(base) ^ p0
					base[L-1-j] ^= v
					if b == 0 {
						sigma[j][v] = sg
					} else if sigma[j][v] != sg {
						o.Fail("linearity", "the syndrome of the symbol error %d at distance %d from the end depends on the base: %#x on a base of length %d, %#x on the base %x (length %d)",
							v, j, sigma[j][v], lengths[0], sg, base, L)
						bad = true
						return
					}
				}
			}
			lastBase = base
		}
	})
	if outOfRange != "" {
		o.Fail("range", "%s", outOfRange)
		return
	}
	if !ok || bad {
		return
	}
	o.Count(cTable)
	o.Add("syndromes recorded (j, v)", int64(nDist*31))

	// 2. additivity: the syndrome of a multi-symbol error is the xor of the table entries
	ok = o.Try("bech32.VerifPolymod", func() {
		base := lastBase
		L := len(base)
		p0 := polymod(base)
		for k := 0; k < 60000; k++ {
			w := 2 + r.Intn(3)
			var p pat
			var want uint32
			for p.n < w {
				j := r.Intn(nDist)
				dup := false
				for i := 0; i < p.n; i++ {
					dup = dup || p.j[i] == j
				}
				if dup {
					continue
				}
				p.j[p.n], p.v[p.n] = j, byte(1+r.Intn(31))
				want ^= sigma[j][p.v[p.n]]
				p.n++
			}
			for i := 0; i < p.n; i++ {
				base[L-1-p.j[i]] ^= p.v[i]
			}
			got := polymod(base) ^ p0
			for i := 0; i < p.n; i++ {
				base[L-1-p.j[i]] ^= p.v[i]
			}
			if got != want {
				o.Fail("linearity", "the syndrome %#x of the error %v is not the xor %#x of the single-symbol syndromes", got, p, want)
				bad = true
				return
			}
		}
	})
	if outOfRange != "" {
		o.Fail("range", "%s", outOfRange)
		return
	}
	if !ok || bad {
		return
	}
	o.Count(cAdditive)

	// 3. meet in the middle over the empty pattern, all singles and all pairs
	entries := make([]uint64, 0, 1+nDist*31+nDist*(nDist-1)/2*961)
	entries = append(entries, noCode<<12|noCode)
	for j := 0; j < nDist; j++ {
		for v := byte(1); v < 32; v++ {
			entries = append(entries, uint64(sigma[j][v])<<24|noCode<<12|code(j, v))
		}
	}
	for j1 := 0; j1 < nDist; j1++ {
		for v1 := byte(1); v1 < 32; v1++ {
			s1 := sigma[j1][v1]
			c1 := code(j1, v1) << 12
			for j2 := j1 + 1; j2 < nDist; j2++ {
				for v2 := byte(1); v2 < 32; v2++ {
					entries = append(entries, uint64(s1^sigma[j2][v2])<<24|c1|code(j2, v2))
				}
			}
		}
	}
	sort.Slice(entries, func(a, b int) bool { return entries[a] < entries[b] })
	o.Add("meet in the middle: entries (empty, single and pair sums)", int64(len(entries)))
	collisions, confirmed, reported := 0, 0, 0
	for i := 1; i < len(entries); i++ {
		if entries[i]>>24 != entries[i-1]>>24 {
			continue
		}
		collisions++
		if reported >= 6 {
			continue
		}
		reported++
		e := combine(decodeEntry(entries[i-1]), decodeEntry(entries[i]))
		if e.n == 0 || e.n > 4 {
			panic("c16: bad combined pattern") // harness error
		}
		if base, corrupted, yes := confirm(e, r, o); yes {
			confirmed++
			o.Fail("undetected", "the error pattern %v has syndrome 0 under bech32Polymod, and Decode accepts both %+q (built by Encode) and %+q, which differ in %d characters", e, base, corrupted, e.n)
		}
	}
	o.Add("meet in the middle: collisions", int64(collisions))
	if collisions == 0 {
		o.Count(cMitm)
	} else if confirmed == 0 {
		o.Add("meet in the middle: collisions not confirmed through Decode", int64(reported))
	}
}

// confirm turns an error pattern into two concrete strings that differ in
// exactly the pattern and asks Decode about both.
func confirm(e pat, r *rand.Rand, o *fw.Obs) (base, corrupted string, yes bool) {
	// (hrp length, data bytes): 90 characters each; the first has no padding bits
	for _, lay := range [][2]int{{3, 50}, {1, 51}, {6, 48}, {11, 45}, {19, 40}} {
		h, nb := lay[0], lay[1]
		d := (8*nb+4)/5 + bech32m.ChecksumLen
		hrp := make([]byte, h)
		for i := range hrp {
			hrp[i] = byte('a' + r.Intn(26))
		}
		newc := map[int]byte{} // hrp index -> replacement
		feasible := true
		for k := 0; k < e.n; k++ {
			j := e.j[k]
			if j < d {
				continue
			}
			i := h - 1 - (j - d)
			if i < 0 {
				feasible = false
				break
			}
			found := false
			for _, hi := range []byte{0x60, 0x20} { // letters, then digits
				for l := byte(0); l < 32 && !found; l++ {
					c, c2 := hi|l, hi|(l^e.v[k])
					same := (c >= 'a' && c <= 'z' && c2 >= 'a' && c2 <= 'z') || (c >= '0' && c <= '9' && c2 >= '0' && c2 <= '9')
					if same {
						hrp[i], newc[i], found = c, c2, true
					}
				}
			}
			feasible = feasible && found
		}
		if !feasible {
			continue
		}
		data := make([]byte, nb)
		r.Read(data)
		var s string
		var err error
		if !o.Try("bech32.Encode", func() { s, err = bech32.Encode(string(hrp), data) }) {
			return "", "", false
		}
		if err != nil || len(s) != h+1+d {
			continue
		}
		b := []byte(s)
		good := true
		for k := 0; k < e.n; k++ {
			j := e.j[k]
			if j >= d {
				b[h-1-(j-d)] = newc[h-1-(j-d)]
				continue
			}
			sym := bech32m.SymbolOf(b[len(b)-1-j])
			if sym < 0 {
				good = false
				break
			}
			b[len(b)-1-j] = bech32m.Charset[byte(sym)^e.v[k]]
		}
		if !good {
			continue
		}
		var e1, e2 error
		if !o.Try("bech32.Decode", func() {
			_, _, e1 = bech32.Decode(s)
			_, _, e2 = bech32.Decode(string(b))
		}) {
			return "", "", false
		}
		if e1 == nil && e2 == nil && string(b) != s {
			return s, string(b), true
		}
	}
	return "", "", false
}

// ---------------------------------------------------------------------------

// bases returns the sampled valid strings; the list is the same in every shard.
func bases(seed int64, n int) []string {
	r := fw.SubRng(seed, "c16-bases")
	// (hrp length, data bytes)
	shapes := [][2]int{{11, 45}, {4, 33}, {3, 5}, {1, 51}, {83, 0}, {2, 20}, {40, 20}, {6, 1}, {5, 0}}
	var out []string
	for k := 0; len(out) < n; k++ {
		var h, nb int
		if k < len(shapes) {
			h, nb = shapes[k][0], shapes[k][1]
		} else {
			nb = r.Intn(52)
			h = 1 + r.Intn(bech32m.MaxLen-7-(8*nb+4)/5)
		}
		hrp := make([]byte, h)
		for i := range hrp {
			switch r.Intn(6) {
			case 0, 1:
				hrp[i] = byte('0' + r.Intn(10))
			case 2:
				hrp[i] = "-_.:+~"[r.Intn(6)]
			default:
				hrp[i] = byte('a' + r.Intn(26))
			}
		}
		data := make([]byte, nb)
		r.Read(data)
		if k%3 == 1 {
			hrp = []byte(bech32m.Upper(string(hrp)))
		}
		s, ok := bech32m.Encode(string(hrp), data)
		if !ok {
			panic("c16: model encoder refused a base")
		}
		out = append(out, s)
	}
	return out
}

func gen(g *fw.Gen) {
	if g.Build == "race" {
		// race build: only the class in which several goroutines are inside the library at once is generated
		// (the generator of the other classes is expensive under the race detector's instrumentation)
		for n := g.ShareOf(32, 1600); n > 0; n-- {
			g.Emit("concurrent", fw.Pack(fw.U64(g.Rng.Uint64())))
		}
		return
	}
	if g.Shard == 0 {
		g.Emit("syndrome", fw.Pack(fw.U64(uint64(g.Seed))))
	}
	for n := g.ShareOf(32, 1600); n > 0; n-- {
		g.Emit("concurrent", fw.Pack(fw.U64(g.Rng.Uint64())))
	}
	// acceptance-set scan through Decode: targeted constants on every shard; 2^22-value chunks of the
	// 2^30 checksum values: one random chunk per shard (quick), all 256 chunks (thorough)
	g.Emit("acceptset", fw.Pack(fw.U64(g.Rng.Uint64()), []byte{0}, fw.U32(0)))
	// the same on human-readable parts an implementation may treat specially (the repository's own prefixes,
	// those of other deployed formats): which checksum values are accepted may depend on the prefix
	for i := range bechscan.WellKnownHRPs {
		if g.Own(i) {
			g.Emit("acceptset", fw.Pack(fw.U64(g.Rng.Uint64()), []byte{2}, fw.U32(uint32(i))))
		}
	}
	if g.Build == "386" {
		// the scan over checksum values runs on the native build only
	} else if g.Quick() {
		g.Emit("acceptset", fw.Pack(fw.U64(g.Rng.Uint64()), []byte{1}, fw.U32(uint32(g.Rng.Intn(256)))))
	} else {
		for c := 0; c < 256; c++ {
			if g.Own(c) {
				g.Emit("acceptset", fw.Pack(fw.U64(uint64(g.Seed)), []byte{1}, fw.U32(uint32(c))))
			}
		}
	}
	// the same scan with a rejected call in front of every probe (8 kinds of rejected strings)
	if g.Build != "386" {
		for k := 0; k < 16; k++ {
			th := byte(0)
			if !g.Quick() {
				th = 1
			}
			g.Emit("history", fw.Pack(fw.U64(uint64(g.Seed)*16+uint64(k)), []byte{byte(k)}, fw.U32(uint32(g.Shard)), fw.U32(uint32(g.NShards)), []byte{th}))
		}
	}
	list := bases(g.Seed, g.Scaled(g.Pick(6, 100)))
	idx := 1 // shard 0 already has the syndrome case
	for _, s := range list {
		if g.Own(idx) {
			g.Emit("w1", fw.Pack([]byte(s)))
		}
		idx++
	}
	// one case per (string, first position), interleaved over the shards
	for i := 0; i < bech32m.MaxLen; i++ {
		for _, s := range list {
			if i >= len(s)-1 || len(alternatives(s, strings.LastIndexByte(s, '1'), bech32m.HasUpper(s), i)) == 0 {
				continue
			}
			if g.Own(idx) {
				g.Emit("w2", fw.Pack([]byte(s), fw.U32(uint32(i))))
			}
			idx++
		}
	}
	const per = 5000
	for n := g.ShareOf(1000000/per, 300000000/per); n > 0; n-- {
		s := list[g.Rng.Intn(len(list))]
		if len(s) < 12 {
			continue
		}
		g.Emit("w34", fw.Pack([]byte(s), fw.U64(g.Rng.Uint64()), fw.U32(per)))
	}
}
