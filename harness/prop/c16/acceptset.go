package c16

import (
	"fmt"
	"sort"

	"github.com/wollac/iota-crypto-demo/pkg/bech32"

	"verif/harness/fw"
	"verif/harness/prop/bechscan"
)

// judgeAcceptSet scans checksum values of one valid string through Decode (see package bechscan).
// An accepted string with checksum polymod 1^delta is not by itself within C16 (six characters
// differ), but it means that every error pattern of syndrome delta is undetected; the syndrome table
// of the real polymod then yields a pattern of weight <= 4 with that syndrome, which is confirmed
// through Encode/Decode and reported with its concrete pair of strings.
func judgeAcceptSet(seed uint64, mode byte, chunk uint32, o *fw.Obs) {
	o.Nontrivial()
	base := bechscan.Base(seed)
	var err error
	if !o.Try("bech32.Decode(base)", func() { _, _, err = bech32.Decode(base) }) {
		return
	}
	if err != nil {
		o.Fail("base", "the valid string %+q is rejected by Decode: %v", base, err)
		return
	}
	var next func() uint32
	if mode == 0 {
		list := bechscan.Targeted()
		i := 0
		next = func() uint32 {
			if i >= len(list) {
				return 0
			}
			i++
			return list[i-1]
		}
	} else {
		d, end := chunk<<22, (chunk+1)<<22
		next = func() uint32 {
			if d == 0 {
				d = 1
			}
			if d >= end {
				return 0
			}
			d++
			return d - 1
		}
	}
	var acc []uint32
	var tried int64
	if !o.Try("bech32.Decode", func() { acc, tried = bechscan.Scan(base, next, func(s string) bool { return accepted([]byte(s)) }) }) {
		return
	}
	o.Add("acceptance-set scan: checksum values tried through Decode", tried)
	if mode == 0 {
		o.Count("acceptance-set scan: targeted constants")
	} else {
		o.Count("acceptance-set scan: 2^22 chunks")
	}
	for _, d := range acc {
		e, ok := patternWithSyndrome(d, o)
		if !ok {
			o.Count("accepted non-1 checksum value without a weight<=4 pattern (left to C04)")
			continue
		}
		r := fw.SubRng(int64(seed), "c16-acceptset-confirm")
		if b, c, yes := confirm(e, r, o); yes {
			o.Fail("undetected", "Decode accepts %s; the error pattern %v has exactly that syndrome, and indeed Decode accepts both %+q (built by Encode) and %+q, which differ in %d characters", bechscan.Describe(base, d), e, b, c, e.n)
			return
		}
		o.Count("accepted non-1 checksum value whose weight<=4 pattern was not confirmed")
	}
}

var (
	tblSigma   [nDist][32]uint32
	tblEntries []uint64
)

// patternWithSyndrome finds an error pattern of weight 1..4 whose syndrome under the real polymod is target.
func patternWithSyndrome(target uint32, o *fw.Obs) (pat, bool) {
	if tblEntries == nil {
		r := fw.SubRng(1, "c16-acceptset-table")
		base := make([]byte, nDist+7)
		for i := range base {
			base[i] = byte(r.Intn(32))
		}
		if !o.Try("bech32.VerifPolymod", func() {
			p0 := uint32(bech32.VerifPolymod(base))
			for j := 0; j < nDist; j++ {
				for v := byte(1); v < 32; v++ {
					base[len(base)-1-j] ^= v
					tblSigma[j][v] = uint32(bech32.VerifPolymod(base)) ^ p0
					base[len(base)-1-j] ^= v
				}
			}
		}) {
			return pat{}, false
		}
		entries := make([]uint64, 0, 1+nDist*31+nDist*(nDist-1)/2*961)
		entries = append(entries, noCode<<12|noCode)
		for j := 0; j < nDist; j++ {
			for v := byte(1); v < 32; v++ {
				entries = append(entries, uint64(tblSigma[j][v])<<24|noCode<<12|code(j, v))
			}
		}
		for j1 := 0; j1 < nDist; j1++ {
			for v1 := byte(1); v1 < 32; v1++ {
				for j2 := j1 + 1; j2 < nDist; j2++ {
					for v2 := byte(1); v2 < 32; v2++ {
						entries = append(entries, uint64(tblSigma[j1][v1]^tblSigma[j2][v2])<<24|code(j1, v1)<<12|code(j2, v2))
					}
				}
			}
		}
		sort.Slice(entries, func(a, b int) bool { return entries[a] < entries[b] })
		tblEntries = entries
	}
	for _, e := range tblEntries {
		want := uint64(uint32(e>>24) ^ target)
		i := sort.Search(len(tblEntries), func(k int) bool { return tblEntries[k]>>24 >= want })
		for ; i < len(tblEntries) && tblEntries[i]>>24 == want; i++ {
			p := combine(decodeEntry(e), decodeEntry(tblEntries[i]))
			if p.n >= 1 && p.n <= 4 {
				// prefer patterns that fit a short string: all distances below 40
				fits := true
				for k := 0; k < p.n; k++ {
					fits = fits && p.j[k] < 88
				}
				if fits {
					return p, true
				}
			}
		}
	}
	return pat{}, false
}

var _ = fmt.Sprintf
