package c16

import (
	"fmt"
	"sort"
	"strings"

	"github.com/wollac/iota-crypto-demo/pkg/bech32"
	"github.com/wollac/iota-crypto-demo/pkg/bech32/address"

	"verif/harness/fw"
	"verif/harness/oracle/bech32m"
	"verif/harness/prop/bechscan"
)

// judgeAcceptSet scans checksum values of one valid string through Decode (see package bechscan).
// An accepted string with checksum polymod 1^delta is not by itself within C16 (six characters
// differ), but it means that every error pattern of syndrome delta is undetected; the syndrome table
// of the real polymod then yields a pattern of weight <= 4 with that syndrome, which is confirmed
// through Encode/Decode and reported with its concrete pair of strings.
func judgeAcceptSet(seed uint64, mode byte, chunk uint32, o *fw.Obs) {
	o.Nontrivial()
	base := bechscan.Base(seed)
	if mode == 2 {
		base = bechscan.BaseHRP(seed, bechscan.WellKnownHRPs[int(chunk)%len(bechscan.WellKnownHRPs)])
	}
	var err error
	if !o.Try("bech32.Decode(base)", func() { _, _, err = bech32.Decode(base) }) {
		return
	}
	if err != nil {
		// Rejecting a valid string is C04's matter; for this property the string is still a valid Bech32
		// string, and everything within four substitutions of it must be rejected as well: the scan goes on.
		o.Count("valid base string rejected by Decode (left to C04); its neighbourhood is scanned all the same")
	}
	var next func() uint32
	if mode == 0 || mode == 2 {
		list := bechscan.Targeted()
		i := 0
		next = func() uint32 {
			if i >= len(list) {
				return 0
			}
			i++
			return list[i-1]
		}
	} else {
		d, end := chunk<<22, (chunk+1)<<22
		next = func() uint32 {
			if d == 0 {
				d = 1
			}
			if d >= end {
				return 0
			}
			d++
			return d - 1
		}
	}
	var acc []uint32
	var tried int64
	if !o.Try("bech32.Decode", func() { acc, tried = bechscan.Scan(base, next, func(s string) bool { return accepted([]byte(s)) }) }) {
		return
	}
	o.Add("acceptance-set scan: checksum values tried through Decode", tried)
	if mode == 0 {
		o.Count("acceptance-set scan: targeted constants")
	} else if mode == 2 {
		o.Count("acceptance-set scan: targeted constants on a well-known human-readable part")
	} else {
		o.Count("acceptance-set scan: 2^22 chunks")
	}
	for _, d := range acc {
		// first on the scanned string itself: a pattern of at most four substitutions inside its data part
		// with the same syndrome as the accepted checksum change
		if sep := strings.LastIndexByte(base, '1'); sep >= 0 {
			if e, ok := patternWithSyndromeWithin(d, len(base)-sep-1, o); ok {
				b := []byte(base)
				for k := 0; k < e.n; k++ {
					i := len(b) - 1 - e.j[k]
					b[i] = bech32m.Charset[byte(bech32m.SymbolOf(b[i]))^e.v[k]]
				}
				var yes bool
				if !o.Try("bech32.Decode", func() { yes = accepted(b) }) {
					return
				}
				if yes && string(b) != base {
					o.Fail("undetected", "Decode accepts %+q, which differs from the valid string %+q in %d characters of the data part (error pattern %v, found through the accepted checksum value %s)", b, base, e.n, e, bechscan.Describe(base, d))
					return
				}
			}
		}
		e, ok := patternWithSyndrome(d, o)
		if !ok {
			o.Count("accepted non-1 checksum value without a weight<=4 pattern (left to C04)")
			continue
		}
		r := fw.SubRng(int64(seed), "c16-acceptset-confirm")
		if b, c, yes := confirm(e, r, o); yes {
			o.Fail("undetected", "Decode accepts %s; the error pattern %v has exactly that syndrome, and indeed Decode accepts both %+q (built by Encode) and %+q, which differ in %d characters", bechscan.Describe(base, d), e, b, c, e.n)
			return
		}
		o.Count("accepted non-1 checksum value whose weight<=4 pattern was not confirmed")
	}
}

var (
	tblSigma   [nDist][32]uint32
	tblEntries []uint64
)

// patternWithSyndrome finds an error pattern of weight 1..4 whose syndrome under the real polymod is target.
func patternWithSyndrome(target uint32, o *fw.Obs) (pat, bool) {
	return patternWithSyndromeWithin(target, 88, o)
}

// patternWithSyndromeWithin: all positions at distance < maxDist from the end.
func patternWithSyndromeWithin(target uint32, maxDist int, o *fw.Obs) (pat, bool) {
	if tblEntries == nil {
		r := fw.SubRng(1, "c16-acceptset-table")
		base := make([]byte, nDist+7)
		for i := range base {
			base[i] = byte(r.Intn(32))
		}
		if !o.Try("bech32.VerifPolymod", func() {
			p0 := uint32(bech32.VerifPolymod(base))
			for j := 0; j < nDist; j++ {
				for v := byte(1); v < 32; v++ {
					base[len(base)-1-j] ^= v
					tblSigma[j][v] = uint32(bech32.VerifPolymod(base)) ^ p0
					base[len(base)-1-j] ^= v
				}
			}
		}) {
			return pat{}, false
		}
		entries := make([]uint64, 0, 1+nDist*31+nDist*(nDist-1)/2*961)
		entries = append(entries, noCode<<12|noCode)
		for j := 0; j < nDist; j++ {
			for v := byte(1); v < 32; v++ {
				entries = append(entries, uint64(tblSigma[j][v])<<24|noCode<<12|code(j, v))
			}
		}
		for j1 := 0; j1 < nDist; j1++ {
			for v1 := byte(1); v1 < 32; v1++ {
				for j2 := j1 + 1; j2 < nDist; j2++ {
					for v2 := byte(1); v2 < 32; v2++ {
						entries = append(entries, uint64(tblSigma[j1][v1]^tblSigma[j2][v2])<<24|code(j1, v1)<<12|code(j2, v2))
					}
				}
			}
		}
		sort.Slice(entries, func(a, b int) bool { return entries[a] < entries[b] })
		tblEntries = entries
	}
	for _, e := range tblEntries {
		want := uint64(uint32(e>>24) ^ target)
		i := sort.Search(len(tblEntries), func(k int) bool { return tblEntries[k]>>24 >= want })
		for ; i < len(tblEntries) && tblEntries[i]>>24 == want; i++ {
			p := combine(decodeEntry(e), decodeEntry(tblEntries[i]))
			if p.n >= 1 && p.n <= 4 {
				fits := true
				for k := 0; k < p.n; k++ {
					fits = fits && p.j[k] < maxDist
				}
				if fits {
					return p, true
				}
			}
		}
	}
	return pat{}, false
}

// ---------------------------------------------------------------------------
// history: the same scan with a rejected call in front of every probe

// poison builds a string that Decode must reject, at a stage chosen by kind.
func poison(seed uint64, kind byte) string {
	r := fw.SubRng(int64(seed), "c16-poison", fmt.Sprint(kind))
	body := func(n int) string {
		b := make([]byte, n)
		for i := range b {
			b[i] = bech32m.Charset[r.Intn(32)]
		}
		return string(b)
	}
	switch kind % 8 {
	case 0: // a character outside the charset at the end of the data part
		return "x1" + body(6+r.Intn(20)) + "b"
	case 1: // ... in the middle of the data part
		return "pq1" + body(3+r.Intn(10)) + "i" + body(6+r.Intn(10))
	case 2: // data part shorter than a checksum
		return "x1" + body(r.Intn(6))
	case 3: // mixed case
		return "ab1" + body(10) + "Q" + body(6)
	case 4: // well-formed, wrong checksum
		return "test1" + body(12+r.Intn(30))
	case 5: // no separator
		return body(8 + r.Intn(20))
	case 6: // longer than 90 characters
		return "long1" + body(90)
	default: // empty human-readable part
		return "1" + body(12)
	}
}

func judgeHistory(seed uint64, kind byte, shard, nshards uint32, thorough bool, o *fw.Obs) {
	// kinds 8..15: the rejected call goes through address.ParseBech32, the API of this repository that sits
	// on top of Decode, instead of Decode itself
	viaAddress := kind >= 8
	o.Nontrivial()
	r := fw.SubRng(int64(seed), "c16-history-base")
	data := make([]byte, 50)
	r.Read(data)
	base, ok := bech32m.Encode("hs", data) // 2 + 1 + 80 + 6 = 89 characters
	if !ok || len(base) != 89 {
		panic("c16: model encoder refused the history base")
	}
	const dataPart = 86
	bad := poison(seed, kind)
	if _, _, reason := bech32m.Decode(bad); reason == "" {
		o.Count("history: generated poison string happens to be valid (skipped)")
		return
	}
	var perr error
	var okBase bool
	probe := func(s string) bool {
		if viaAddress {
			_, _, perr = address.ParseBech32(bad)
		} else {
			_, _, perr = bech32.Decode(bad)
		}
		_, _, err := bech32.Decode(s)
		return err == nil
	}
	if !o.Try("bech32.Decode(rejected string); bech32.Decode(valid string)", func() { okBase = probe(base) }) {
		return
	}
	if perr == nil {
		o.Count("history: malformed string accepted (left to C04)")
		return
	}
	lo, hi := uint32(0), uint32(0)
	switch {
	case !okBase:
		// Decode depends on the call before it. Whether a string within four substitutions of the valid
		// one is accepted in that situation is decided by scanning this shard's share of all checksum values.
		o.Count("history anomaly: valid string rejected right after a rejected call")
		lo, hi = uint32(uint64(shard)<<30/uint64(nshards)), uint32(uint64(shard+1)<<30/uint64(nshards))
	case thorough: // 2^23 values
		o.Count("history: valid string accepted right after a rejected call")
		c := (uint32(r.Intn(128)) + shard*128/nshards) % 128
		lo, hi = c<<23, (c+1)<<23
	default: // 2^17 values
		o.Count("history: valid string accepted right after a rejected call")
		c := (uint32(r.Intn(8192)) + shard*8192/nshards) % 8192
		lo, hi = c<<17, (c+1)<<17
	}
	d := lo
	next := func() uint32 {
		if d == 0 {
			d = 1
		}
		if d >= hi {
			return 0
		}
		d++
		return d - 1
	}
	var acc []uint32
	var tried int64
	if !o.Try("bech32.Decode", func() { acc, tried = bechscan.Scan(base, next, probe) }) {
		return
	}
	o.Add("history scan: checksum values tried through Decode, each right after a rejected call", tried)
	for _, dl := range acc {
		e, found := patternWithSyndromeWithin(dl, dataPart, o)
		if !found {
			o.Count("history: accepted non-1 checksum value without a weight<=4 pattern inside the data part")
			continue
		}
		b := []byte(base)
		for k := 0; k < e.n; k++ {
			i := len(b) - 1 - e.j[k]
			b[i] = bech32m.Charset[byte(bech32m.SymbolOf(b[i]))^e.v[k]]
		}
		var yes bool
		if !o.Try("bech32.Decode", func() { yes = probe(string(b)) }) {
			return
		}
		if yes && string(b) != base {
			o.Fail("undetected", "right after the rejected call %s(%+q), Decode accepts %+q, which differs from the valid string %+q in %d characters of the data part (error pattern %v)", map[bool]string{false: "bech32.Decode", true: "address.ParseBech32"}[viaAddress], bad, b, base, e.n, e)
			return
		}
		o.Count("history: accepted checksum value whose weight<=4 pattern was not confirmed")
	}
}
