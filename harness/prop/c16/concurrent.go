package c16

import (
	"fmt"
	"sync"
	"sync/atomic"

	"github.com/wollac/iota-crypto-demo/pkg/bech32"

	"verif/harness/fw"
	"verif/harness/oracle/bech32m"
)

// judgeConcurrent: Decode is called from several goroutines at once (ordinary use of a stateless
// function) on valid strings with related human-readable parts and on corrupted strings that carry
// the data part of a valid string under a human-readable part differing in 1..4 letters. Every
// corrupted string must be rejected whatever the other goroutines are decoding at the moment.
func judgeConcurrent(seed uint64, o *fw.Obs) {
	o.Nontrivial()
	r := fw.SubRng(int64(seed), "c16-concurrent")
	type item struct {
		s     string
		valid bool
		from  string
	}
	var items []item
	for fam := 0; fam < 4; fam++ {
		n := 3 + r.Intn(6)
		hrp := make([]byte, n)
		for i := range hrp {
			hrp[i] = byte('a' + r.Intn(26))
		}
		data := make([]byte, 5+r.Intn(30))
		r.Read(data)
		base, ok := bech32m.Encode(string(hrp), data)
		if !ok {
			panic("c16: model encoder refused a base")
		}
		items = append(items, item{base, true, ""})
		for v := 0; v < 3; v++ {
			h2 := append([]byte(nil), hrp...)
			for w := 1 + r.Intn(4); w > 0; w-- {
				p := r.Intn(n)
				c := byte('a' + r.Intn(26))
				for c == hrp[p] {
					c = byte('a' + r.Intn(26))
				}
				h2[p] = c
			}
			if string(h2) == string(hrp) {
				continue
			}
			// valid string of the related hrp, and the corrupted one: related hrp + data part of base
			d2 := make([]byte, len(data))
			r.Read(d2)
			s2, _ := bech32m.Encode(string(h2), d2)
			items = append(items, item{s2, true, ""})
			items = append(items, item{string(h2) + base[n:], false, base})
		}
	}
	for _, it := range items {
		if _, _, ok := bech32m.DecodeBytes(it.s); ok != it.valid {
			panic("c16: generator/model mismatch in the concurrent class")
		}
	}
	const goroutines = 8
	const rounds = 30000
	var bad atomic.Value
	var decodes int64
	var wg sync.WaitGroup
	var panicked atomic.Value
	for g := 0; g < goroutines; g++ {
		wg.Add(1)
		go func(g int) {
			defer wg.Done()
			defer func() {
				if p := recover(); p != nil {
					panicked.Store(fmt.Sprint(p))
				}
			}()
			k := g
			for i := 0; i < rounds && bad.Load() == nil; i++ {
				it := items[k%len(items)]
				k += 1 + g
				_, _, err := bech32.Decode(it.s)
				if (err == nil) != it.valid {
					bad.Store(fmt.Sprintf("while %d goroutines were decoding strings with related human-readable parts, Decode(%q) returned err=%v; expected valid=%v (it carries the data part of the valid string %q)", goroutines, it.s, err, it.valid, it.from))
				}
			}
			atomic.AddInt64(&decodes, rounds)
		}(g)
	}
	wg.Wait()
	if p := panicked.Load(); p != nil {
		o.Fail("panic", "panic in a concurrent Decode: %v", p)
		return
	}
	if b := bad.Load(); b != nil {
		o.Fail("undetected", "%s", b.(string))
		return
	}
	o.Add("concurrent Decode calls judged", decodes)
	o.Count("concurrent executions")
}
