// Package c03 monitors bip39.EntropyToMnemonic / MnemonicToEntropy against the
// bit-level BIP-0039 model and the official word lists.
package c03

import (
	"bytes"
	"errors"
	"fmt"
	"strings"
	"sync"
	"sync/atomic"

	"github.com/wollac/iota-crypto-demo/pkg/bip39"
	"github.com/wollac/iota-crypto-demo/pkg/bip39/wordlist"
	"golang.org/x/text/unicode/norm"

	"verif/harness/fw"
	"verif/harness/oracle/bip39m"
	"verif/harness/prop/wordhack"
)

func init() {
	fw.Register(&fw.Prop{
		ID:                  "C03",
		DeadlockIsViolation: true,                               // the calls of this property are synchronous functions of their inputs: a call blocked for good inside the library is a violation
		Builds:              []string{"default", "386", "race"}, // the 386 build runs 1/4 of the random classes on a 32-bit target
		// race build: only the classes in which several goroutines are inside the library at once, under the race detector
		RaceClasses: []string{"concurrent"},
		Scale386:    4,
		Rule: "wordlist: all 2048 indices of both built-in lists are read through EntropyToMnemonic (11 chosen indices per call) and compared with the official lists (embedded, SHA-256 checked against the published digests). encode: both lists x all 13 entropy lengths x {all-zero, all-one, k leading zero bytes for every k, trailing zero bytes, a single set bit at every position, random} plus sizes 0..70 for the size rule; sentence equality with the bit-level model and decode(encode(e)) == e. decode: valid sentences, the last word replaced by every word sharing its entropy bits (exactly one checksum value is accepted), one word replaced, rotations, lengths 0..50, words of the other list, NFC-composed words, empty strings, and (decode_collide) a list word replaced by a non-word found by search to collide with it under FNV-1a/32, FNV-1/32, CRC-32, CRC-32C, Adler-32, h*31+c, h*33+c, folded FNV-1a/64 or truncated SHA-256: accept iff the model accepts, entropy equality, re-encode fixed point, error class on reject. lists: every eighth case is preceded by a SetWordList call with an unregistered key (it must fail; the list of the last successful call stays in force); a user-defined list (English reversed, registered through RegisterWordList with a constructor that calls back into SetWordList) is selected for a few cases between the built-in ones; decode also gets sentences in which two adjacent words sit in one element, and sentences with words cut to their unique four-letter prefix. concurrent: 8 goroutines encode and decode entropies of all 13 sizes at once under one word list. " +
			"Non-trivial: distinct (list, entropy) with a zero leading byte or more than 32 bytes, and distinct rejected sentences.",
		Assumptions: []string{"SHA-256 of the Go standard library", "the embedded official word lists (checked against the published SHA-256 digests of english.txt and japanese.txt)", "the bit-level model in harness/oracle/bip39m (self-tested on Trezor vectors)"},
		SelfTest:    bip39m.SelfTest,
		Gen:         gen,
		Judge:       judge,
		Post: func(r *fw.RunResult) {
			if r.Counters["wordlist indices compared"] == 2*187*11 {
				r.Extra["wordlists_exhaustive"] = true
			}
		},
		Render: func(class string, key []byte) interface{} {
			p := fw.Unpack(key)
			m := map[string]interface{}{"list": lang(p[0][0])}
			switch class {
			case "concurrent":
				m["seed"] = fw.GetU64(p[1])
				m["scenario"] = "8 goroutines encode and decode entropies of all 13 sizes"
			case "wordlist":
				m["first_index"] = fw.GetU32(p[1])
			case "encode":
				m["entropy"] = fw.Hex(p[1])
			case "decode_collide":
				m["words"] = strings.Split(string(p[1]), "\x00")
				m["one_word_is_a_non_word_colliding_with_the_list_word_in_its_place_under"] = string(p[2])
			default:
				m["words"] = strings.Split(string(p[1]), "\x00")
			}
			return m
		},
		Required: []string{"failed SetWordList calls in front of a case", "sentences with a non-word that collides with a list word under a 32-bit digest", "wordlist indices compared", "encode ok", "encode leading zero byte", "size refused", "decode model=accept impl=accept", "decode model=reject impl=reject", "decode reject: checksum mismatch", "decode reject: word not in list", "decode reject: bad word count"},
	})
}

func lang(b byte) string {
	switch b {
	case 1:
		return "japanese"
	case 2:
		return bip39m.ReversedEnglish
	}
	return "english"
}

// userList is a user-defined word list registered through the public RegisterWordList: the English words
// in reverse order. Its constructor calls back into SetWordList (re-entrant use) before it returns.
type userList struct{ l *bip39m.List }

func (u userList) Contains(w string) bool { _, ok := u.l.Index[w]; return ok }
func (u userList) Word(i int) string      { return u.l.Words[i] }
func (u userList) Index(w string) int {
	i, ok := u.l.Index[w]
	if !ok {
		panic("unknown word")
	}
	return i
}

func init() {
	bip39.RegisterWordList(bip39m.ReversedEnglish, func() wordlist.List {
		_ = bip39.SetWordList("english") // re-entrant call: overwritten by the selection in progress
		return userList{bip39m.Lang(bip39m.ReversedEnglish)}
	})
}

// unknownKeys are not registered: SetWordList must fail for them, and the list in force stays the one of
// the last call that returned nil.
var unknownKeys = []string{"Japanese", "ENGLISH", "", "english ", "klingon", "japanese\x00"}

var kept fw.Keeper

var current = ""

// setLang switches the process-wide word list (the property does not cover concurrent switching).
func setLang(o *fw.Obs, l string, sel uint64) bool {
	defer func() {
		// every eighth case: a selection that fails right before the case
		if sel%8 != 0 {
			return
		}
		bad := unknownKeys[int((sel/8)%uint64(len(unknownKeys)))]
		var err error
		if !o.Try("SetWordList(unknown key)", func() { err = bip39.SetWordList(bad) }) {
			return
		}
		if err == nil {
			o.Fail("setwordlist", "SetWordList(%q) returned nil for a key that is not registered", bad)
			return
		}
		o.Count("failed SetWordList calls in front of a case")
	}()
	if current == l {
		return true
	}
	var err error
	if !o.Try("SetWordList", func() { err = bip39.SetWordList(l) }) {
		return false
	}
	if err != nil {
		o.Fail("setwordlist", "SetWordList(%q) failed: %v", l, err)
		return false
	}
	current = l
	return true
}

func judge(class string, key []byte, o *fw.Obs) {
	p := fw.Unpack(key)
	l := lang(p[0][0])
	list := bip39m.Lang(l)
	if !setLang(o, l, fw.Fingerprint(class, key)) {
		return
	}
	switch class {
	case "concurrent":
		judgeConcurrent(l, fw.GetU64(p[1]), o)
	case "wordlist":
		start := int(fw.GetU32(p[1]))
		// 128-bit entropy whose first 121 bits are the indices start..start+10
		ent := make([]byte, 16)
		bit := 0
		for k := 0; k < 11; k++ {
			idx := start + k
			for b := 10; b >= 0; b-- {
				if (idx>>uint(b))&1 == 1 {
					ent[bit/8] |= 1 << uint(7-bit%8)
				}
				bit++
			}
		}
		var m bip39.Mnemonic
		var err error
		if !o.Try("EntropyToMnemonic", func() { m, err = bip39.EntropyToMnemonic(ent) }) {
			return
		}
		if err != nil || len(m) != 12 {
			o.Fail("wordlist", "EntropyToMnemonic(%x) = %q, err=%v", ent, []string(m), err)
			return
		}
		o.Nontrivial()
		for k := 0; k < 11; k++ {
			o.Count("wordlist indices compared")
			if m[k] != list.Words[start+k] {
				o.Fail("wordlist", "%s word %d is %q, the official BIP-0039 list has %q", l, start+k, m[k], list.Words[start+k])
				return
			}
		}
	case "encode":
		ent := p[1]
		entCopy := append([]byte(nil), ent...)
		var m bip39.Mnemonic
		var err error
		var sp fw.SpareSet
		entBuf := sp.Of("entropy", ent, 64) // a window into a larger buffer: appending the checksum to it would write into the caller's memory
		if !o.Try("EntropyToMnemonic", func() { m, err = bip39.EntropyToMnemonic(entBuf) }) {
			return
		}
		if !sp.Check(o) {
			return
		}
		if !bytes.Equal(entBuf, entCopy) {
			o.Fail("mutation", "entropy modified by the call")
			return
		}
		for i := range entBuf { // the caller wipes its buffer
			entBuf[i] = 0
		}
		if !bip39m.ValidEntropyLen(len(ent)) {
			o.Nontrivial()
			if err == nil || m != nil || !errors.Is(err, bip39.ErrInvalidEntropySize) {
				o.Fail("size", "EntropyToMnemonic with %d bytes: mnemonic=%q err=%v, expected ErrInvalidEntropySize", len(ent), []string(m), err)
				return
			}
			o.Count("size refused")
			return
		}
		if ent[0] == 0 || len(ent) > 32 {
			o.Nontrivial()
		}
		if ent[0] == 0 {
			o.Count("encode leading zero byte")
		}
		want := list.Encode(ent)
		if err != nil || strings.Join(m, "\x00") != strings.Join(want, "\x00") {
			o.Fail("sentence", "EntropyToMnemonic(%x) = %q err=%v, BIP-0039 sentence is %q", ent, []string(m), err, want)
			return
		}
		var back []byte
		if !o.Try("MnemonicToEntropy", func() { back, err = bip39.MnemonicToEntropy(m) }) {
			return
		}
		if err != nil || !bytes.Equal(back, entCopy) {
			o.Fail("roundtrip", "MnemonicToEntropy(EntropyToMnemonic(%x)) = %x, err=%v", entCopy, back, err)
			return
		}
		if !bytes.Equal(ent, entCopy) {
			o.Fail("mutation", "entropy modified by the call")
			return
		}
		o.Count("encode ok")
	default: // decode, decode_collide
		if class == "decode_collide" {
			o.Count("sentences with a non-word that collides with a list word under a 32-bit digest")
		}
		var words []string
		if len(p[1]) > 0 {
			words = strings.Split(string(p[1]), "\x00")
		}
		wcopy := append([]string(nil), words...)
		want, verdict := list.Decode(words)
		var got []byte
		var err error
		wordBuf := append([]string(nil), words...)
		if !o.Try("MnemonicToEntropy", func() { got, err = bip39.MnemonicToEntropy(bip39.Mnemonic(wordBuf)) }) {
			return
		}
		for i := range wordBuf { // the caller reuses its slice
			wordBuf[i] = "abandon"
		}
		kept.Keep("entropy returned by MnemonicToEntropy", got)
		defer kept.Check(o)
		mok, iok := verdict == bip39m.OK, err == nil
		o.Count(fmt.Sprintf("decode model=%s impl=%s", ar(mok), ar(iok)))
		if !mok {
			o.Nontrivial()
			o.Count("decode reject: " + verdict.String())
		}
		if mok != iok {
			o.Fail("verdict", "MnemonicToEntropy(%q): model %s (%v), implementation %s (err=%v)", words, ar(mok), verdict, ar(iok), err)
			return
		}
		if !mok {
			if got != nil {
				o.Fail("errorvalue", "rejected sentence but entropy %x returned", got)
				return
			}
			wantErr := bip39.ErrInvalidMnemonic
			if verdict == bip39m.BadChecksum {
				wantErr = bip39.ErrInvalidChecksum
			}
			if !errors.Is(err, wantErr) {
				o.Fail("errorclass", "MnemonicToEntropy(%q): error %v, documented error for %v is %v", words, err, verdict, wantErr)
			}
			return
		}
		if want[0] == 0 || len(want) > 32 {
			o.Nontrivial()
		}
		if !bytes.Equal(got, want) {
			o.Fail("entropy", "MnemonicToEntropy(%q) = %x, model %x", words, got, want)
			return
		}
		var re bip39.Mnemonic
		if !o.Try("EntropyToMnemonic", func() { re, err = bip39.EntropyToMnemonic(got) }) {
			return
		}
		if err != nil || strings.Join(re, "\x00") != strings.Join(wcopy, "\x00") {
			o.Fail("fixedpoint", "accepted sentence %q re-encodes to %q (err=%v)", wcopy, []string(re), err)
		}
	}
}

// judgeConcurrent: EntropyToMnemonic and MnemonicToEntropy for all 13 sizes from 8 goroutines at once
// (one word list; the property does not cover concurrent SetWordList); results must equal the model's.
func judgeConcurrent(l string, seed uint64, o *fw.Obs) {
	o.Nontrivial()
	// select the list anew, so that the goroutines below are the first users of a fresh list instance
	var serr error
	if !o.Try("SetWordList", func() { serr = bip39.SetWordList(l) }) {
		return
	}
	if serr != nil {
		o.Fail("setwordlist", "SetWordList(%q) failed: %v", l, serr)
		return
	}
	r := fw.SubRng(int64(seed), "c03-concurrent")
	list := bip39m.Lang(l)
	type item struct {
		ent   []byte
		words []string
	}
	var items []item
	for i := 0; i < 13; i++ {
		for k := 0; k < 2; k++ {
			ent := make([]byte, 16+4*i)
			r.Read(ent)
			if k == 1 {
				ent[0] = 0
			}
			items = append(items, item{ent, list.Encode(ent)})
		}
	}
	const G = 8
	var wg sync.WaitGroup
	var bad atomic.Value
	for g := 0; g < G; g++ {
		wg.Add(1)
		go func(g int) {
			defer wg.Done()
			defer func() {
				if x := recover(); x != nil {
					bad.Store(fmt.Sprintf("panic in a concurrent call: %v", x))
				}
			}()
			for n := 0; n < 2000 && bad.Load() == nil; n++ {
				it := items[(n*(g+1)+g)%len(items)]
				m, err := bip39.EntropyToMnemonic(it.ent)
				if err != nil || strings.Join(m, " ") != strings.Join(it.words, " ") {
					bad.Store(fmt.Sprintf("with %d goroutines at work, EntropyToMnemonic(%x) = %q, err=%v; expected %q", G, it.ent, []string(m), err, it.words))
					return
				}
				e, err := bip39.MnemonicToEntropy(bip39.Mnemonic(it.words))
				if err != nil || !bytes.Equal(e, it.ent) {
					bad.Store(fmt.Sprintf("with %d goroutines at work, MnemonicToEntropy(%d words) = %x, err=%v; expected %x", G, len(it.words), e, err, it.ent))
					return
				}
			}
		}(g)
	}
	wg.Wait()
	if b := bad.Load(); b != nil {
		o.Fail("concurrent", "%s", b.(string))
		return
	}
	o.Count("concurrent executions")
}

func ar(b bool) string {
	if b {
		return "accept"
	}
	return "reject"
}

func emitWords(g *fw.Gen, l byte, words []string) {
	g.Emit("decode", fw.Pack([]byte{l}, []byte(strings.Join(words, "\x00"))))
}

func gen(g *fw.Gen) {
	if g.Build == "race" {
		// race build: only the class in which several goroutines are inside the library at once is generated
		for l := byte(0); l < 2; l++ {
			for n := g.ShareOf(16, 800); n > 0; n-- {
				g.Emit("concurrent", fw.Pack([]byte{l}, fw.U64(g.Rng.Uint64())))
			}
		}
		return
	}
	// language phases, so the process-wide list is switched only a few times per shard
	for l := byte(0); l < 2; l++ {
		list := bip39m.Lang(lang(l))
		other := bip39m.Lang(lang(1 - l))
		// word lists, exhaustively
		i := 0
		for start := 0; start < 2048; start += 11 {
			s := start
			if s+11 > 2048 {
				s = 2048 - 11
			}
			if g.Own(i) {
				g.Emit("wordlist", fw.Pack([]byte{l}, fw.U32(uint32(s))))
			}
			i++
		}
		// structured entropies
		for n := 16; n <= 64; n += 4 {
			var ents [][]byte
			ents = append(ents, make([]byte, n), bytes.Repeat([]byte{0xff}, n))
			for k := 1; k < n; k++ {
				e := g.Bytes(n)
				for j := 0; j < k; j++ {
					e[j] = 0
				}
				e[k] |= 1
				ents = append(ents, e)
				t := g.Bytes(n)
				for j := n - k; j < n; j++ {
					t[j] = 0
				}
				ents = append(ents, t)
			}
			for bit := 0; bit < 8*n; bit++ {
				e := make([]byte, n)
				e[bit/8] = 1 << uint(7-bit%8)
				ents = append(ents, e)
			}
			for _, e := range ents {
				i++
				if g.Own(i) {
					g.Emit("encode", fw.Pack([]byte{l}, e))
				}
			}
		}
		for n := 0; n <= 70; n++ {
			i++
			if g.Own(i) {
				g.Emit("encode", fw.Pack([]byte{l}, g.Bytes(n)))
			}
		}
		for n := g.ShareOf(40000, 1500000); n > 0; n-- {
			e := g.Bytes(16 + 4*g.Rng.Intn(13))
			switch g.Rng.Intn(6) {
			case 0:
				e[0] = 0
			case 1:
				e[0], e[1] = 0, 0
			case 2:
				e[len(e)-1] = 0
			}
			g.Emit("encode", fw.Pack([]byte{l}, e))
		}
		// decode side
		for n := g.ShareOf(12000, 400000); n > 0; n-- {
			e := g.Bytes(16 + 4*g.Rng.Intn(13))
			if g.Rng.Intn(4) == 0 {
				e[0] = 0
			}
			words := list.Encode(e)
			emitWords(g, l, words)
			w := append([]string(nil), words...)
			switch g.Rng.Intn(9) {
			case 0: // every word sharing the entropy bits of the last word: exactly one is accepted
				cs := uint(len(words) / 3)
				if cs > 11 {
					cs = 11 // the last word carries at most 11 checksum bits
				}
				last := list.Index[words[len(words)-1]]
				base := last &^ (1<<cs - 1)
				for c := 0; c < 1<<cs; c += 1 + g.Rng.Intn(1+(1<<cs)/16) {
					w[len(w)-1] = list.Words[base+c]
					emitWords(g, l, w)
				}
			case 1: // one word replaced
				w[g.Rng.Intn(len(w))] = list.Words[g.Rng.Intn(2048)]
				emitWords(g, l, w)
			case 2: // rotation
				k := 1 + g.Rng.Intn(len(w)-1)
				emitWords(g, l, append(append([]string(nil), w[k:]...), w[:k]...))
			case 3: // arbitrary length 0..50
				ln := g.Rng.Intn(51)
				var x []string
				for j := 0; j < ln; j++ {
					x = append(x, list.Words[g.Rng.Intn(2048)])
				}
				emitWords(g, l, x)
			case 4: // a word of the other list
				w[g.Rng.Intn(len(w))] = other.Words[g.Rng.Intn(2048)]
				emitWords(g, l, w)
			case 5: // NFC-composed / upper-cased / padded word
				j := g.Rng.Intn(len(w))
				switch g.Rng.Intn(4) {
				case 0:
					w[j] = norm.NFC.String(w[j])
				case 1:
					w[j] = strings.ToUpper(w[j])
				case 2:
					w[j] = w[j] + " "
				default:
					w[j] = ""
				}
				emitWords(g, l, w)
			case 6: // one word dropped / duplicated
				j := g.Rng.Intn(len(w))
				if g.Rng.Intn(2) == 0 {
					emitWords(g, l, append(append([]string(nil), w[:j]...), w[j+1:]...))
				} else {
					emitWords(g, l, append(append([]string(nil), w[:j+1]...), w[j:]...))
				}
			case 7: // three words appended / removed keeps the count valid but breaks the checksum
				if len(w) > 12 && g.Rng.Intn(2) == 0 {
					emitWords(g, l, w[:len(w)-3])
				} else if len(w) < 48 {
					emitWords(g, l, append(w, list.Words[g.Rng.Intn(2048)], list.Words[g.Rng.Intn(2048)], list.Words[g.Rng.Intn(2048)]))
				}
			default: // two words swapped
				a, b := g.Rng.Intn(len(w)), g.Rng.Intn(len(w))
				w[a], w[b] = w[b], w[a]
				emitWords(g, l, w)
			}
			if n%16 == 8 { // a word cut to its first four letters (the well-known unique abbreviation): not a list word
				for _, j := range g.Rng.Perm(len(words)) {
					if p4, ok := wordhack.Prefix4(list, words[j]); ok {
						m := append([]string(nil), words...)
						m[j] = p4
						if g.Rng.Intn(3) == 0 { // all words abbreviated where possible
							for k := range m {
								if q, ok := wordhack.Prefix4(list, words[k]); ok {
									m[k] = q
								}
							}
						}
						emitWords(g, l, m)
						break
					}
				}
			}
			if n%16 == 0 { // two adjacent words in ONE element (joined by a blank, an ideographic space, a tab): not a word
				j := g.Rng.Intn(len(words) - 1)
				sepc := []string{" ", "\u3000", "\t", "  "}[g.Rng.Intn(4)]
				m := append(append(append([]string(nil), words[:j]...), words[j]+sepc+words[j+1]), words[j+2:]...)
				emitWords(g, l, m)
			}
		}
		// non-words that collide with a list word under a common 32-bit digest (a word index keyed by a
		// hash of the word that never confirms the string): found by search, put in place of that word in an
		// otherwise valid sentence. A 64-bit or keyed digest is out of reach of this search.
		for hi, hf := range wordhack.Digests {
			if !g.Own(hi+int(l)) && g.Quick() {
				continue // quick tier: every digest function is searched by one shard per list
			}
			for found, tries := 0, 0; found < g.Pick(3, 12) && tries < 16; tries++ {
				cs, idx, okc := wordhack.FindCollision(g.Rng, list, l, hf, 10000000)
				if !okc {
					continue
				}
				cand := []byte(cs)
				found++
				e := g.Bytes(16 + 4*g.Rng.Intn(13))
				j := g.Rng.Intn(len(e) * 8 / 11) // a word whose 11 bits lie entirely in the entropy
				for b := 0; b < 11; b++ {
					pos := 11*j + b
					bit := byte(idx>>uint(10-b)) & 1
					e[pos/8] = e[pos/8]&^(0x80>>uint(pos%8)) | bit<<uint(7-pos%8)
				}
				w := list.Encode(e)
				if w[j] != list.Words[idx] {
					panic("c03: bit placement of a chosen word is wrong")
				}
				emitWords(g, l, w)
				w[j] = string(cand)
				g.Emit("decode_collide", fw.Pack([]byte{l}, []byte(strings.Join(w, "\x00")), []byte(hf.Name)))
			}
		}
		for n := g.ShareOf(16, 800); n > 0; n-- {
			g.Emit("concurrent", fw.Pack([]byte{l}, fw.U64(g.Rng.Uint64())))
		}
		emitOnce := func(words []string) {
			i++
			if g.Own(i) {
				emitWords(g, l, words)
			}
		}
		emitOnce(nil)
		emitOnce([]string{""})
		emitOnce(make([]string, 12))
	}
	// a user-defined list (registered through RegisterWordList, constructor re-entrant) is selected for a
	// few cases, then English again: what the next cases see must be the list of the last successful selection
	for _, l := range []byte{2, 0, 2, 1} {
		list := bip39m.Lang(lang(l))
		for n := g.Pick(6, 60); n > 0; n-- {
			e := g.Bytes(16 + 4*g.Rng.Intn(13))
			g.Emit("encode", fw.Pack([]byte{l}, e))
			emitWords(g, l, list.Encode(e))
		}
	}
}
