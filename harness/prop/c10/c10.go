// Package c10 monitors bip32path.ParsePath / Path.String against a hand-written
// recogniser of the grammar stated in property C10.
package c10

import (
	"encoding/binary"
	"fmt"
	"math/big"
	"math/rand"
	"strings"
	"unicode"
	"unicode/utf8"

	"github.com/wollac/iota-crypto-demo/pkg/bip32path"

	"verif/harness/fw"
)

func init() {
	fw.Register(&fw.Prop{
		ID:                  "C10",
		DeadlockIsViolation: true,
		ColdProbes:          64,                                 // cheap generator: many cold-start probes                       // the calls of this property are synchronous functions of their inputs: a call blocked for good inside the library is a violation
		Builds:              []string{"default", "386", "race"}, // the 386 build runs a quarter of the random classes on a 32-bit target
		// race build: only the classes in which several goroutines are inside the library at once, under the race detector
		RaceClasses: []string{"parse", "roundtrip"},
		RaceSample:  50,
		Parallel:    4, // cases are judged on 4 goroutines per shard: the library functions are stateless, shared state inside them shows up as wrong verdicts
		Rule: "strings from a grammar-aware generator (number pool with leading zeros, 2^31 boundaries, huge values, prefixed forms; markers; separators) plus single-character mutations and random strings over {0-9 m M / H h ' space + - x _ . bytes>=0x80}; every non-ASCII rune of the Unicode categories Nd, No and Nl in a digit position of six templates, and generated strings in which one or all characters are replaced by a Unicode look-alike (other-script digits; fullwidth, Greek, Cyrillic m M H h; fullwidth and fraction slashes; primes and typographic apostrophes); paths of length 0..20 over boundary and random indices. " +
			"Non-trivial: a string with a multi-digit component that has a leading zero, a component whose value lies in [2^31-2, 2^31+1], or a malformed separator/prefix; a path with at least one index.",
		Assumptions: []string{"math/big decimal parsing", "the recogniser in harness/prop/c10 (self-tested on literals)"},
		SelfTest:    selfTest,
		Gen:         gen,
		Judge:       judge,
		Render:      render,
		Required:    []string{"inputs with a non-ASCII numeric rune", "parse model=accept impl=accept", "parse model=reject impl=reject", "roundtrip ok"},
	})
}

var two31 = new(big.Int).Lsh(big.NewInt(1), 31)

// model is the recogniser of the stated grammar.
func model(s string) (ok bool, path []uint32) {
	if s == "" || s == "m" {
		return true, []uint32{}
	}
	if strings.HasPrefix(s, "m/") {
		s = s[2:]
	}
	for _, comp := range strings.Split(s, "/") {
		i := 0
		for i < len(comp) && comp[i] >= '0' && comp[i] <= '9' {
			i++
		}
		if i == 0 {
			return false, nil
		}
		hard := false
		rest := comp[i:]
		switch rest {
		case "":
		case "H", "'":
			hard = true
		default:
			return false, nil
		}
		v, good := new(big.Int).SetString(comp[:i], 10)
		if !good || v.Cmp(two31) >= 0 {
			return false, nil
		}
		x := uint32(v.Uint64())
		if hard {
			x += 1 << 31
		}
		path = append(path, x)
	}
	return true, path
}

func selfTest() error {
	type tc struct {
		s  string
		ok bool
		p  []uint32
	}
	for _, c := range []tc{
		{"", true, []uint32{}}, {"m", true, []uint32{}}, {"m/", false, nil}, {"/", false, nil},
		{"m/44'/0H/1", true, []uint32{44 + 1<<31, 1 << 31, 1}}, {"0", true, []uint32{0}},
		{"m/010", true, []uint32{10}}, {"08", true, []uint32{8}}, {"m/2147483647", true, []uint32{1<<31 - 1}},
		{"m/2147483648", false, nil}, {"m//0", false, nil}, {"m/m/0", false, nil}, {"1HH", false, nil},
		{"0x10", false, nil}, {"+1", false, nil}, {"m/0/", false, nil}, {"H", false, nil}, {"m/1h", false, nil},
		{"00000000000000000000000001'", true, []uint32{1 + 1<<31}},
	} {
		ok, p := model(c.s)
		if ok != c.ok || (ok && !equal(p, c.p)) {
			return fmt.Errorf("c10 recogniser self-test failed on %q: got %v %v", c.s, ok, p)
		}
	}
	return nil
}

func equal(a, b []uint32) bool {
	if len(a) != len(b) {
		return false
	}
	for i := range a {
		if a[i] != b[i] {
			return false
		}
	}
	return true
}

func encPath(p []uint32) []byte {
	b := make([]byte, 4*len(p))
	for i, v := range p {
		binary.LittleEndian.PutUint32(b[4*i:], v)
	}
	return b
}

func decPath(b []byte) []uint32 {
	p := make([]uint32, len(b)/4)
	for i := range p {
		p[i] = binary.LittleEndian.Uint32(b[4*i:])
	}
	return p
}

func render(class string, key []byte) interface{} {
	if class == "roundtrip" {
		return map[string]interface{}{"path": decPath(key)}
	}
	return map[string]interface{}{"string": string(key), "quoted": fmt.Sprintf("%q", string(key))}
}

func nontrivialString(s string) bool {
	t := s
	if strings.HasPrefix(t, "m/") {
		t = t[2:]
	}
	if strings.Contains(s, "//") || strings.HasPrefix(s, "/") || strings.HasSuffix(s, "/") || strings.Contains(t, "m") {
		return true
	}
	lo := new(big.Int).Sub(two31, big.NewInt(2))
	hi := new(big.Int).Add(two31, big.NewInt(1))
	for _, comp := range strings.Split(t, "/") {
		i := 0
		for i < len(comp) && comp[i] >= '0' && comp[i] <= '9' {
			i++
		}
		if i >= 2 && comp[0] == '0' {
			return true
		}
		if i > 0 && i < 40 {
			v, _ := new(big.Int).SetString(comp[:i], 10)
			if v.Cmp(lo) >= 0 && v.Cmp(hi) <= 0 {
				return true
			}
		}
	}
	return false
}

func judge(class string, key []byte, o *fw.Obs) {
	switch class {
	case "roundtrip":
		p := bip32path.Path(decPath(key))
		if len(p) > 0 {
			o.Nontrivial()
		}
		var s string
		var back bip32path.Path
		var err error
		if !o.Try("Path.String/ParsePath", func() {
			s = p.String()
			back, err = bip32path.ParsePath(s)
		}) {
			return
		}
		if err != nil {
			o.Fail("roundtrip", "ParsePath(%q) of printed path %v failed: %v", s, []uint32(p), err)
			return
		}
		if !equal(back, p) {
			o.Fail("roundtrip", "ParsePath(String(%v)) = %v via %q", []uint32(p), []uint32(back), s)
			return
		}
		// the printed form must itself be in the grammar with the decimal reading
		if ok, mp := model(s); !ok || !equal(mp, p) {
			o.Fail("roundtrip", "String(%v) = %q is not the decimal text form of the path (model reads %v, ok=%v)", []uint32(p), s, mp, ok)
			return
		}
		var txt []byte
		var un bip32path.Path
		if !o.Try("MarshalText/UnmarshalText", func() {
			txt, err = p.MarshalText()
			if err == nil {
				err = un.UnmarshalText(txt)
			}
		}) {
			return
		}
		if err != nil || string(txt) != s || !equal(un, p) {
			o.Fail("roundtrip", "text marshal round trip of %v: text=%q err=%v back=%v", []uint32(p), txt, err, []uint32(un))
			return
		}
		o.Count("roundtrip ok")
	default: // "parse"
		s := string(key)
		if nontrivialString(s) {
			o.Nontrivial()
		}
		mok, mp := model(s)
		for _, r := range s {
			if r > 0x7f && r != utf8.RuneError && (unicode.IsDigit(r) || unicode.IsNumber(r)) {
				o.Count("inputs with a non-ASCII numeric rune")
				break
			}
		}
		var got bip32path.Path
		var err error
		if !o.Try("ParsePath", func() { got, err = bip32path.ParsePath(s) }) {
			return
		}
		iok := err == nil
		o.Count(fmt.Sprintf("parse model=%s impl=%s", ar(mok), ar(iok)))
		if mok != iok {
			o.Fail("verdict", "ParsePath(%q): grammar says %s, implementation %s (err=%v, result=%v)", s, ar(mok), ar(iok), err, []uint32(got))
			return
		}
		if !mok {
			return
		}
		if !equal(got, mp) {
			o.Fail("value", "ParsePath(%q) = %v, decimal reading is %v", s, []uint32(got), mp)
			return
		}
		// UnmarshalText must agree with ParsePath, also into a Path that already holds something and
		// from a buffer the caller overwrites afterwards
		// receivers: nil, a full one, and ones whose length is smaller than their capacity (a Path variable that
		// held a longer path before and was cut, or was allocated ahead): the result must be the whole path
		spareRecv := make(bip32path.Path, 1, 48)
		spareRecv[0] = 77
		emptyRecv := make(bip32path.Path, 0, 48)
		for _, un := range []bip32path.Path{nil, {7, 8, 9, 1 << 31, 11, 12, 13}, spareRecv, emptyRecv, make(bip32path.Path, len(mp)/2, len(mp)+1)} {
			buf := []byte(s)
			recvLen, recvCap := len(un), cap(un)
			if !o.Try("UnmarshalText", func() { err = un.UnmarshalText(buf) }) {
				return
			}
			for i := range buf {
				buf[i] = '9'
			}
			if err != nil || !equal(un, mp) {
				o.Fail("value", "UnmarshalText(%q) into a reused Path (a receiver that had length %d and capacity %d before) = %v, err=%v; expected %v", s, recvLen, recvCap, []uint32(un), err, mp)
				return
			}
		}
		// the result belongs to the caller: it edits and extends it, then parses the same string again
		for i := range got {
			got[i] ^= 0x5a5a5a5a
		}
		if cap(got) > len(got) {
			full := got[:cap(got)]
			for i := len(got); i < len(full); i++ {
				full[i] = 0xdeadbeef
			}
		}
		var again bip32path.Path
		if !o.Try("ParsePath (again)", func() { again, err = bip32path.ParsePath(s) }) {
			return
		}
		if err != nil || !equal(again, mp) {
			o.Fail("value", "ParsePath(%q) a second time, after the caller modified the first result in place, = %v (err=%v), decimal reading is %v", s, []uint32(again), err, mp)
		}
	}
}

func ar(b bool) string {
	if b {
		return "accept"
	}
	return "reject"
}

var numbers = []string{
	"0", "1", "7", "8", "9", "10", "44", "00", "01", "07", "08", "09", "010", "017", "018", "0777", "0000000005", "00000000000000000000000000000000012",
	"2147483646", "2147483647", "2147483648", "2147483649", "02147483647", "02147483648", "017777777777", "020000000000",
	"4294967295", "4294967296", "9223372036854775807", "18446744073709551615", "18446744073709551616", "99999999999999999999999999",
	"0x10", "0X10", "0b1", "0o7", "1_0", "0_1", "+1", "-1", "1e3", "1.0", " 1", "1 ", "",
}

var markers = []string{"", "", "", "H", "'", "H", "'", "h", "HH", "''", "'H", "H'", " ", "\"", "`"}
var prefixes = []string{"m/", "m/", "m/", "", "", "m", "M/", "/", "m//", "m/m/", "mm/", " m/", "m /"}
var seps = []string{"/", "/", "/", "/", "/", "/", "//", "\\", "/ ", " /"}
var alphabet = []byte("0123456789mM/Hh' +-x_.\x80\xff\x00")

func randNumber(r *rand.Rand) string {
	switch r.Intn(4) {
	case 0:
		return numbers[r.Intn(len(numbers))]
	case 1:
		// random value with optional leading zeros
		z := strings.Repeat("0", r.Intn(4))
		return z + fmt.Sprint(r.Int63n(1<<uint(1+r.Intn(40))))
	case 2:
		// near 2^31
		return fmt.Sprint(int64(1<<31) + int64(r.Intn(7)-3))
	default:
		n := 1 + r.Intn(3)
		b := make([]byte, n)
		for i := range b {
			b[i] = byte('0' + r.Intn(10))
		}
		return string(b)
	}
}

func randString(r *rand.Rand) string {
	var sb strings.Builder
	sb.WriteString(prefixes[r.Intn(len(prefixes))])
	n := r.Intn(6)
	if r.Intn(8) > 0 {
		n++
	}
	for i := 0; i < n; i++ {
		if i > 0 {
			sb.WriteString(seps[r.Intn(len(seps))])
		}
		sb.WriteString(randNumber(r))
		sb.WriteString(markers[r.Intn(len(markers))])
	}
	s := sb.String()
	// mutations
	for k := r.Intn(3); k > 0 && r.Intn(3) == 0; k-- {
		b := []byte(s)
		pos := 0
		if len(b) > 0 {
			pos = r.Intn(len(b) + 1)
		}
		c := alphabet[r.Intn(len(alphabet))]
		switch r.Intn(3) {
		case 0:
			b = append(b[:pos:pos], append([]byte{c}, b[pos:]...)...)
		case 1:
			if pos < len(b) {
				b = append(b[:pos:pos], b[pos+1:]...)
			}
		default:
			if pos < len(b) {
				b[pos] = c
			}
		}
		s = string(b)
	}
	return s
}

var indexPool = []uint32{0, 1, 7, 8, 9, 10, 1<<31 - 1, 1 << 31, 1<<31 + 1, 1<<32 - 1, 1<<31 + 8, 64, 0o10, 100}

func gen(g *fw.Gen) {
	// fixed literals: every number x every marker x a few prefixes
	i := 0
	for _, pre := range []string{"", "m/", "m", "/"} {
		for _, n := range numbers {
			for _, mk := range []string{"", "H", "'", "h", "HH"} {
				for _, suf := range []string{"", "/0", "/"} {
					if g.Own(i) {
						g.Emit("parse", []byte(pre+n+mk+suf))
					}
					i++
				}
			}
		}
	}
	for j, s := range []string{"", "m", "m/", "/", "m//0", "0/", "m/m/0", "m/m", "m/m/", "m/m/m", "mm/0", "m/0/m", "H", "'", "m/'", "m/H", "mm", "M", "m/0/1/2/3/4/5/6/7/8/9/10/11/12/13/14/15/16/17/18/19/20"} {
		if g.Own(j) {
			g.Emit("parse", []byte(s))
		}
	}
	// every Unicode decimal digit (category Nd: Arabic-Indic, Devanagari, fullwidth, mathematical, ...) and the
	// other numeric runes (No, Nl) in a digit position: the grammar knows ASCII 0-9 only
	var nd []rune
	for _, tab := range []*unicode.RangeTable{unicode.Nd, unicode.No, unicode.Nl} {
		for _, r16 := range tab.R16 {
			for r := rune(r16.Lo); r <= rune(r16.Hi); r += rune(r16.Stride) {
				if r > 0x7f {
					nd = append(nd, r)
				}
			}
		}
		for _, r32 := range tab.R32 {
			for r := rune(r32.Lo); r <= rune(r32.Hi); r += rune(r32.Stride) {
				nd = append(nd, r)
			}
		}
	}
	for _, r := range nd {
		for _, f := range []string{"m/%c", "%c", "%cH", "m/1%c'", "m/%c0/1", "0/%c%c"} {
			i++
			if g.Own(i) {
				str := strings.Replace(f, "%c", string(r), -1)
				g.Emit("parse", []byte(str))
			}
		}
	}
	lookalike := map[byte][]rune{
		'm': {0xFF4D, 0x217F, 0x043C, 0x1D426}, 'M': {0xFF2D, 0x039C, 0x041C},
		'/': {0xFF0F, 0x2215, 0x2044, 0x29F8}, 'H': {0xFF28, 0x0397, 0x041D, 0x029C},
		'h': {0xFF48, 0x04BB}, '\'': {0x2019, 0x2032, 0x02B9, 0xFF07, 0x02BC, 0x00B4},
	}
	for n := g.ShareOf(30000, 1000000); n > 0; n-- {
		b := []byte(randString(g.Rng))
		if len(b) == 0 {
			continue
		}
		var sb strings.Builder
		hit := g.Rng.Intn(len(b))
		all := g.Rng.Intn(4) == 0
		for k, c := range b {
			if k != hit && !all {
				sb.WriteByte(c)
				continue
			}
			switch {
			case c >= '0' && c <= '9':
				sb.WriteRune(nd[g.Rng.Intn(len(nd))])
			case lookalike[c] != nil:
				sb.WriteRune(lookalike[c][g.Rng.Intn(len(lookalike[c]))])
			default:
				sb.WriteByte(c)
			}
		}
		g.Emit("parse", []byte(sb.String()))
	}
	for n := g.ShareOf(600000, 20000000); n > 0; n-- {
		if g.Rng.Intn(10) == 0 {
			l := g.Rng.Intn(12)
			b := make([]byte, l)
			for k := range b {
				b[k] = alphabet[g.Rng.Intn(len(alphabet))]
			}
			g.Emit("parse", b)
			continue
		}
		g.Emit("parse", []byte(randString(g.Rng)))
	}
	// round trips
	for n := g.ShareOf(200000, 5000000); n > 0; n-- {
		l := g.Rng.Intn(21)
		if n%500 == 0 { // long paths: component counts beyond 255 and 65535 (counters narrower than int)
			l = []int{255, 256, 257, 300, 1000, 40000, 65535, 65536}[g.Rng.Intn(8)]
			if g.Quick() && l > 1000 && n%4000 != 0 {
				l = 256 + g.Rng.Intn(50)
			}
		}
		p := make([]uint32, l)
		for k := range p {
			if g.Rng.Intn(2) == 0 {
				p[k] = indexPool[g.Rng.Intn(len(indexPool))]
			} else {
				p[k] = g.Rng.Uint32()
			}
		}
		g.Emit("roundtrip", encPath(p))
	}
}
