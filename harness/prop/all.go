// Package prop links all property checks into the vmon binary.
package prop

import (
	_ "verif/harness/prop/c01"
	_ "verif/harness/prop/c02"
	_ "verif/harness/prop/c03"
	_ "verif/harness/prop/c04"
	_ "verif/harness/prop/c05"
	_ "verif/harness/prop/c06"
	_ "verif/harness/prop/c07"
	_ "verif/harness/prop/c08"
	_ "verif/harness/prop/c09"
	_ "verif/harness/prop/c10"
	_ "verif/harness/prop/c11"
	_ "verif/harness/prop/c12"
	_ "verif/harness/prop/c13"
	_ "verif/harness/prop/c14"
	_ "verif/harness/prop/c15"
	_ "verif/harness/prop/c16"
	_ "verif/harness/prop/c17"
	_ "verif/harness/prop/c18"
	_ "verif/harness/prop/c19"
	_ "verif/harness/prop/c20"
)
