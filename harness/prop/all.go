// Package prop links all property checks into the vmon binary.
package prop

import (
	_ "verif/harness/prop/c10"
)
