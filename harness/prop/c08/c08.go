// Package c08 monitors that public and private SLIP-10 child derivation
// commute, at the level of DeriveChild and of the two Shift methods.
package c08

import (
	"bytes"
	"encoding/binary"
	"errors"
	"fmt"
	"math/big"
	"sync"

	"github.com/wollac/iota-crypto-demo/pkg/slip10"
	"github.com/wollac/iota-crypto-demo/pkg/slip10/elliptic"

	"verif/harness/fw"
	"verif/harness/oracle/weier"
)

func init() {
	fw.Register(&fw.Prop{
		ID:                  "C08",
		DeadlockIsViolation: true,                       // the calls of this property are synchronous functions of their inputs: a call blocked for good inside the library is a violation
		Builds:              []string{"default", "386"}, // the 386 build runs 1/6 of the random classes on a 32-bit target
		Scale386:            6,
		Parallel:            4, // cases are judged on 4 goroutines per shard: the library functions are stateless, shared state inside them shows up as wrong verdicts
		Rule: "commute: (curve in {secp256k1, P-256}, seed, path, non-hardened index from {0, 1, 2^31-1, random}, plus the published P-256 vector whose child needs a retry): four children (idx, a sibling, idx again, another sibling) are derived from the SAME extended private key object and from the SAME Public() object; for each, DeriveChild then Public() vs. DeriveChild on Public(): key bytes, chain code, fingerprint. shift also includes secp256k1 shifts lambda*k and lambda^2*k (the shifted point has the same y as the key and another x). shift: (curve, scalar k, 32-byte shift) with shift in {0, 1, k, n-k, n-k+-1, n-1, n, n+1, 2^256-1, random < n, random >= n, values made of 8..64-bit words that are zero / all ones / one / random} and k in {1, 2, n-1, (n+-1)/2, random, and unreduced scalars in (n, 2^256) — n+1, n+2, random, 2^256-1 — for which the key is built directly from the exported fields of elliptic.PrivateKey (multiples of n have no public key and are skipped)}: PrivateKey.Shift and PublicKey.Shift must both report ErrInvalidKey or both succeed with pub' = point(priv') (the point computed by the affine model for the returned private scalar); no panic. Whether the common verdict/value is the one SLIP-0010 prescribes is counted here and judged by C02. " +
			"Non-trivial: distinct shift cases in a named corner class and all commute cases.",
		Assumptions: []string{"math/big", "the affine model in harness/oracle/weier (self-tested)"},
		SelfTest:    weier.SelfTest,
		Gen:         gen,
		Judge:       judge,
		Render: func(class string, key []byte) interface{} {
			p := fw.Unpack(key)
			if class == "commute" {
				return map[string]interface{}{"curve": cname(p[0][0]), "seed": fw.Hex(p[1]), "path": decPath(p[2]), "index": fw.GetU32(p[3])}
			}
			return map[string]interface{}{"curve": cname(p[0][0]), "scalar": fw.Hex(p[1]), "shift": fw.Hex(p[2])}
		},
		Required: []string{"commute ok", "shift both succeed", "shift both invalid", "shift: sum is identity", "shift: shift == scalar (P+P)", "shift: shift == 0", "shift: scalar outside [1, n-1], key built directly from the exported fields", "shift: [shift]G has the same y as the public key (endomorphism)"},
	})
}

func cname(b byte) string {
	if b == 0 {
		return "secp256k1"
	}
	return "nist256p1"
}

func curve(b byte) (slip10.Curve, *weier.Curve) {
	if b == 0 {
		return elliptic.Secp256k1(), weier.Secp256k1()
	}
	return elliptic.Nist256p1(), weier.P256()
}

func decPath(b []byte) []uint32 {
	p := make([]uint32, len(b)/4)
	for i := range p {
		p[i] = binary.LittleEndian.Uint32(b[4*i:])
	}
	return p
}

func judge(class string, key []byte, o *fw.Obs) {
	p := fw.Unpack(key)
	c, mc := curve(p[0][0])
	o.Nontrivial()
	if class == "commute" {
		seed, path, idx := p[1], decPath(p[2]), fw.GetU32(p[3])
		// several children from the SAME two parent objects: idx, a sibling, idx again, another sibling. Each
		// pair (private child, public child) must commute, also those derived after earlier ones.
		idxs := []uint32{idx, idx ^ 1, idx, (idx + 7) &^ (1 << 31)}
		type pair struct {
			priv, pub, via *slip10.ExtendedKey
			e1, e2         error
			snap           [][]byte // chain codes and key bytes as they were right after the derivation
		}
		pairs := make([]pair, len(idxs))
		var parent *slip10.ExtendedKey
		var err error
		if !o.Try("DeriveKeyFromPath/DeriveChild/Public", func() {
			parent, err = slip10.DeriveKeyFromPath(seed, c, path)
			if err != nil {
				return
			}
			pubParent := parent.Public()
			for i, ix := range idxs {
				pairs[i].priv, pairs[i].e1 = parent.DeriveChild(ix)
				pairs[i].pub, pairs[i].e2 = pubParent.DeriveChild(ix)
				if pairs[i].e1 == nil && pairs[i].e2 == nil {
					for _, b := range [][]byte{pairs[i].priv.ChainCode, pairs[i].pub.ChainCode, pairs[i].priv.Key.Bytes(), pairs[i].pub.Key.Bytes()} {
						pairs[i].snap = append(pairs[i].snap, append([]byte(nil), b...))
					}
				}
				if i == 1 {
					_, _ = parent.DeriveChild((idx ^ 2) | 1<<31) // a hardened one in between
				}
			}
			// further derivations, different on the two sides, after everything was handed out
			_, _ = parent.DeriveChild((idx ^ 4) | 1<<31)
			_, _ = pubParent.DeriveChild((idx + 13) &^ (1 << 31))
			for i := range pairs {
				if pairs[i].e1 == nil {
					pairs[i].via = pairs[i].priv.Public()
				}
			}
		}) {
			return
		}
		if err != nil {
			o.Fail("error", "deriving the parent failed: %v", err)
			return
		}
		for i, pr := range pairs {
			what := fmt.Sprintf("child %d (derivation %d of %d from the same parent objects)", idxs[i], i+1, len(idxs))
			if pr.e1 != nil || pr.e2 != nil {
				o.Fail("error", "non-hardened %s: private side err=%v, public side err=%v", what, pr.e1, pr.e2)
				return
			}
			now := [][]byte{pr.priv.ChainCode, pr.pub.ChainCode, pr.priv.Key.Bytes(), pr.pub.Key.Bytes()}
			for k := range now {
				if !bytes.Equal(now[k], pr.snap[k]) {
					o.Fail("aliasing", "%s: a chain code / key handed out earlier was changed by later derivations from the same parent object: it was %x and is %x now", what, pr.snap[k], now[k])
					return
				}
			}
			var kb1, kb2, fp1, fp2, fp0 []byte
			if !o.Try("Bytes/Fingerprint", func() {
				kb1, kb2 = pr.via.Key.Bytes(), pr.pub.Key.Bytes()
				fp1, fp2, fp0 = pr.via.Fingerprint(), pr.pub.Fingerprint(), pr.priv.Fingerprint()
			}) {
				return
			}
			if pr.via.IsPrivate() || pr.pub.IsPrivate() || !pr.priv.IsPrivate() {
				o.Fail("kind", "wrong key kinds after derivation")
				return
			}
			if !bytes.Equal(kb1, kb2) || !bytes.Equal(pr.via.ChainCode, pr.pub.ChainCode) || !bytes.Equal(fp1, fp2) {
				o.Fail("commute", "%s: public key of the private child (%x, cc %x, fp %x) differs from the child of the public key (%x, cc %x, fp %x)",
					what, kb1, pr.via.ChainCode, fp1, kb2, pr.pub.ChainCode, fp2)
				return
			}
			if !bytes.Equal(fp0, fp1) || !bytes.Equal(pr.priv.ChainCode, pr.pub.ChainCode) {
				o.Fail("commute", "%s: fingerprint/chain code of the private child differ from the public child", what)
				return
			}
		}
		// the same index derived twice gives the same child
		if !bytes.Equal(pairs[0].pub.Key.Bytes(), pairs[2].pub.Key.Bytes()) || !bytes.Equal(pairs[0].priv.Key.Bytes(), pairs[2].priv.Key.Bytes()) || !bytes.Equal(pairs[0].pub.ChainCode, pairs[2].pub.ChainCode) {
			o.Fail("commute", "child %d derived twice from the same parent objects gives different keys", idx)
			return
		}
		o.Count("commute ok")
		return
	}
	// shift
	kb, sb := p[1], p[2]
	k, s := new(big.Int).SetBytes(kb), new(big.Int).SetBytes(sb)
	n := mc.N
	var priv slip10.Key
	var err error
	if !o.Try("NewPrivateKey", func() { priv, err = c.NewPrivateKey(kb) }) {
		return
	}
	if k.Sign() == 0 || k.Cmp(n) >= 0 || err != nil {
		// NewPrivateKey refuses the scalar (key validity itself is C02's subject). The property quantifies over
		// all scalars in [0, 2^256), and PrivateKey has exported fields: the key is built directly from them —
		// unless the scalar is a multiple of n: then there is no public key (its "point" is the neutral
		// element, not a curve point), and what either side does with it is outside the statement.
		if new(big.Int).Mod(k, n).Sign() == 0 {
			o.Count("scalar is a multiple of n: no public key exists (skipped)")
			return
		}
		var base slip10.Key
		one := make([]byte, 32)
		one[31] = 1
		if !o.Try("NewPrivateKey(1)", func() { base, err = c.NewPrivateKey(one) }) {
			return
		}
		bp, isEC := base.(*elliptic.PrivateKey)
		if err != nil || !isEC {
			o.Count("scalar is not a private key and the key type has no exported fields (skipped)")
			return
		}
		priv = &elliptic.PrivateKey{K: new(big.Int).Set(k), Curve: bp.Curve}
		o.Count("shift: scalar outside [1, n-1], key built directly from the exported fields")
	}
	sum := new(big.Int).Add(k, s)
	sum.Mod(sum, n)
	valid := s.Cmp(n) < 0 && sum.Sign() != 0
	switch {
	case s.Sign() == 0:
		o.Count("shift: shift == 0")
	case s.Cmp(k) == 0:
		o.Count("shift: shift == scalar (P+P)")
	case s.Cmp(n) < 0 && sum.Sign() == 0:
		o.Count("shift: sum is identity")
	case s.Cmp(n) >= 0:
		o.Count("shift: shift >= n")
	}
	if p[0][0] == 0 {
		l := secpLambda()
		lk := new(big.Int).Mod(new(big.Int).Mul(l, k), n)
		llk := new(big.Int).Mod(new(big.Int).Mul(l, lk), n)
		if lk.Cmp(s) == 0 || llk.Cmp(s) == 0 {
			o.Count("shift: [shift]G has the same y as the public key (endomorphism)")
		}
	}
	var pub, r1, r2 slip10.Key
	var e1, e2 error
	var pb0 []byte
	if !o.Try("Public/PrivateKey.Shift/PublicKey.Shift", func() {
		pub = priv.Public()
		pb0 = pub.Bytes()
		r1, e1 = priv.Shift(sb)
		r2, e2 = pub.Shift(sb)
	}) {
		return
	}
	if km := new(big.Int).Mod(k, n); km.Sign() != 0 {
		if want := mc.Compress(mc.BaseMul(km)); !bytes.Equal(pb0, want) {
			o.Count("Public() differs from the model's point(k) (C02/C17 judge that)")
		}
	}
	inv1, inv2 := errors.Is(e1, slip10.ErrInvalidKey), errors.Is(e2, slip10.ErrInvalidKey)
	if (e1 != nil && !inv1) || (e2 != nil && !inv2) {
		o.Fail("error", "unexpected error kind: private %v, public %v", e1, e2)
		return
	}
	if inv1 != inv2 {
		o.Fail("disagree", "scalar %x shift %x: PrivateKey.Shift err=%v but PublicKey.Shift err=%v", kb, sb, e1, e2)
		return
	}
	if inv1 == valid {
		// both sides agree with each other, which is all this property demands; whether the common
		// verdict is the one SLIP-0010 prescribes is judged by C02
		o.Count("both sides agree on a validity verdict that differs from SLIP-0010 (judged by C02)")
	}
	if inv1 {
		if r1 != nil || r2 != nil {
			o.Fail("errorvalue", "ErrInvalidKey returned together with a key")
			return
		}
		o.Count("shift both invalid")
		return
	}
	var b1, b1p, b2 []byte
	if !o.Try("Bytes/Public", func() { b1, b1p, b2 = r1.Bytes(), r1.Public().Bytes(), r2.Bytes() }) {
		return
	}
	// matching results: the public key of the shifted private key is the shifted public key, and it
	// is the point the model computes for the returned private scalar
	if !bytes.Equal(b1p, b2) {
		o.Fail("mismatch", "scalar %x shift %x: the shifted private key %x has public key %x but the shifted public key is %x", kb, sb, b1, b1p, b2)
		return
	}
	if got := new(big.Int).SetBytes(b1); got.Sign() != 0 && got.Cmp(n) < 0 {
		if wantPub := mc.Compress(mc.BaseMul(got)); !bytes.Equal(b2, wantPub) {
			o.Fail("mismatch", "scalar %x shift %x: the shifted public key %x is not the point of the shifted private key %x (model: %x)", kb, sb, b2, b1, wantPub)
			return
		}
	}
	if wantPriv := sum.FillBytes(make([]byte, 32)); !bytes.Equal(b1, wantPriv) {
		o.Count("both sides agree on a key that differs from (k + shift) mod n (judged by C02)")
	}
	// the receiver must not be modified
	var privAfter, pubAfter []byte
	if !o.Try("Bytes() of the receivers after Shift", func() { privAfter, pubAfter = priv.Bytes(), pub.Bytes() }) {
		return
	}
	if !bytes.Equal(privAfter, k.FillBytes(make([]byte, 32))) || !bytes.Equal(pubAfter, pb0) {
		o.Fail("mutation", "Shift modified its receiver: private key %x (was %x), public key %x (was %x)", privAfter, kb, pubAfter, pb0)
		return
	}
	o.Count("shift both succeed")
}

func fill(v *big.Int) []byte { return v.FillBytes(make([]byte, 32)) }

// lambda is a non-trivial cube root of unity modulo the secp256k1 group order: [lambda](x, y) = (beta*x, y),
// a point with the SAME y and a different x. Computed, not quoted: z^((n-1)/3) for the first z that gives a value != 1.
var lambdaOnce sync.Once
var lambda *big.Int

func secpLambda() *big.Int {
	lambdaOnce.Do(func() {
		n := weier.Secp256k1().N
		e := new(big.Int).Div(new(big.Int).Sub(n, big.NewInt(1)), big.NewInt(3))
		for z := int64(2); ; z++ {
			l := new(big.Int).Exp(big.NewInt(z), e, n)
			if l.Cmp(big.NewInt(1)) != 0 {
				lambda = l
				return
			}
		}
	})
	return lambda
}

func gen(g *fw.Gen) {
	// the published SLIP-0010 P-256 vector whose non-hardened child m/28578H/33941 needs a retry, and its siblings
	if g.Shard == 0 {
		seed := []byte{0, 1, 2, 3, 4, 5, 6, 7, 8, 9, 10, 11, 12, 13, 14, 15}
		path := make([]byte, 4)
		binary.LittleEndian.PutUint32(path, 28578|1<<31)
		for _, ix := range []uint32{33941, 33940, 33942, 33934} {
			g.Emit("commute", fw.Pack([]byte{1}, seed, path, fw.U32(ix)))
		}
	}
	// secp256k1 shifts lambda*k and lambda^2*k: [shift]G has the same y as the public key and another x
	for n := g.ShareOf(160, 8000); n > 0; n-- {
		N := weier.Secp256k1().N
		k := new(big.Int).SetBytes(g.Bytes(32))
		k.Mod(k, new(big.Int).Sub(N, big.NewInt(1))).Add(k, big.NewInt(1))
		if g.Rng.Intn(4) == 0 {
			k = big.NewInt(int64(1 + g.Rng.Intn(3)))
		}
		l := secpLambda()
		sft := new(big.Int).Mul(l, k)
		if g.Rng.Intn(2) == 0 {
			sft.Mul(sft, l)
		}
		sft.Mod(sft, N)
		g.Emit("shift", fw.Pack([]byte{0}, fill(k), fill(sft)))
	}
	for n := g.ShareOf(2400, 80000); n > 0; n-- {
		cid := byte(g.Rng.Intn(2))
		l := g.Rng.Intn(4)
		path := make([]byte, 4*l)
		for i := 0; i < l; i++ {
			v := g.Rng.Uint32()
			if g.Rng.Intn(2) == 0 {
				v &^= 1 << 31
			}
			binary.LittleEndian.PutUint32(path[4*i:], v)
		}
		var idx uint32
		switch g.Rng.Intn(4) {
		case 0:
			idx = 0
		case 1:
			idx = 1
		case 2:
			idx = 1<<31 - 1
		default:
			idx = g.Rng.Uint32() &^ (1 << 31)
		}
		g.Emit("commute", fw.Pack([]byte{cid}, g.Bytes(16+g.Rng.Intn(49)), path, fw.U32(idx)))
	}
	one := big.NewInt(1)
	max := new(big.Int).Sub(new(big.Int).Lsh(one, 256), one)
	for n := g.ShareOf(4000, 160000); n > 0; n-- {
		cid := byte(g.Rng.Intn(2))
		_, mc := curve(cid)
		N := mc.N
		var k *big.Int
		switch g.Rng.Intn(8) {
		case 0:
			k = big.NewInt(1)
		case 1:
			k = big.NewInt(2)
		case 2:
			k = new(big.Int).Sub(N, one)
		case 3:
			k = new(big.Int).Rsh(new(big.Int).Add(N, one), 1)
		case 4:
			k = new(big.Int).Rsh(new(big.Int).Sub(N, one), 1)
		default:
			k = new(big.Int).SetBytes(g.Bytes(32))
			k.Mod(k, new(big.Int).Sub(N, one)).Add(k, one)
		}
		switch g.Rng.Intn(48) { // scalars outside [1, n-1]: refused by NewPrivateKey, built directly by the monitor
		case 0:
			k = big.NewInt(0)
		case 1:
			k = new(big.Int).Add(N, big.NewInt(int64(g.Rng.Intn(3))))
		case 2:
			k = new(big.Int).Set(max)
		case 3, 4: // random in (n, 2^256)
			k = new(big.Int).SetBytes(g.Bytes(32))
			k.Mod(k, new(big.Int).Sub(max, N)).Add(k, N).Add(k, one)
			if k.BitLen() > 256 {
				k = new(big.Int).Set(max)
			}
		}
		if g.Rng.Intn(8) == 0 { // a scalar with zero / all-ones / one-valued words (word-wise scalar multiplication)
			k = chunky(g)
			if k.Cmp(N) >= 0 {
				k.SetBit(k, 255, 0)
			}
			if k.Sign() == 0 {
				k = big.NewInt(1)
			}
		}
		nk := new(big.Int).Sub(N, k)
		nk.Mod(nk, N)
		var s *big.Int
		switch g.Rng.Intn(14) {
		case 12, 13:
			s = chunky(g)
		case 0:
			s = big.NewInt(0)
		case 1:
			s = big.NewInt(1)
		case 2:
			s = new(big.Int).Set(k)
		case 3:
			s = nk
		case 4:
			s = new(big.Int).Add(nk, one)
		case 5:
			s = new(big.Int).Sub(nk, one)
			if s.Sign() < 0 {
				s = big.NewInt(0)
			}
		case 6:
			s = new(big.Int).Sub(N, one)
		case 7:
			s = new(big.Int).Set(N)
		case 8:
			s = new(big.Int).Add(N, one)
		case 9:
			s = max
		case 10:
			s = new(big.Int).SetBytes(g.Bytes(32))
			s.Mod(s, N)
		default:
			// random >= n (when it fits)
			s = new(big.Int).SetBytes(g.Bytes(32))
			s.Mod(s, new(big.Int).Sub(max, N)).Add(s, N)
		}
		if k.BitLen() > 256 || s.BitLen() > 256 {
			continue
		}
		g.Emit("shift", fw.Pack([]byte{cid}, fill(k), fill(s)))
	}
}

// chunky returns a 256-bit value made of 8/16/32/64-bit words that are zero, all ones, one, or random.
func chunky(g *fw.Gen) *big.Int {
	w := []int{8, 4, 2, 1}[g.Rng.Intn(4)]
	b := make([]byte, 32)
	for c := 0; c < 32; c += w {
		switch g.Rng.Intn(6) {
		case 0, 1:
		case 2:
			for i := 0; i < w; i++ {
				b[c+i] = 0xff
			}
		case 3:
			b[c+w-1] = 1
		default:
			copy(b[c:c+w], g.Bytes(w))
		}
	}
	return new(big.Int).SetBytes(b)
}

var _ = fmt.Sprintf
