// Package c07 monitors key generation and signing of pkg/ed25519 against
// crypto/ed25519 and the model's own RFC 8032 signer.
package c07

import (
	"bytes"
	"crypto"
	stded "crypto/ed25519"
	cryptorand "crypto/rand"
	"crypto/sha512"
	"fmt"
	"io"
	"sync"
	"testing/iotest"

	"github.com/wollac/iota-crypto-demo/pkg/ed25519"

	"verif/harness/fw"
	"verif/harness/oracle/ed"
)

func init() {
	fw.Register(&fw.Prop{
		ID:                  "C07",
		DeadlockIsViolation: true,                       // the calls of this property are synchronous functions of their inputs: a call blocked for good inside the library is a violation
		Builds:              []string{"default", "386"}, // the 386 build runs 1/4 of the random classes on a 32-bit target
		Scale386:            4,
		Parallel:            4, // cases are judged on 4 goroutines per shard: the library functions are stateless, shared state inside them shows up as wrong verdicts
		Rule: "(seed, message) pairs: seeds random / all-zero / all-0xff / single-bit; messages of every length 0..2400 (both SHA-512 padding regimes of prefix||M and R||A||M, and beyond any plausible fixed-size buffer), lengths around 2^10..2^17 and around 2x / 3x 2^12..2^17, and random 1..64 KiB. For each pair the monitor compares NewKeyFromSeed, Public, Seed, Sign (twice), PrivateKey.Sign(Hash(0)), GenerateKey(reader) byte for byte with crypto/ed25519 and with the big-integer RFC 8032 signer, checks Verify accepts, pre-hashed options are refused for every hash identifier 1..24, 100, 255 and 65536 (linked into the binary or not), PrivateKey.Sign with a non-nil rand source (fixed bytes, crypto/rand) gives the same deterministic signature, short readers fail; GenerateKey(nil) is called with crypto/rand.Reader replaced (under a lock) by a source delivering known bytes, or failing early, the returned pair must be the RFC 8032 key pair of its own seed half and an error comes without a key (which source a nil reader stands for is observed, not judged: the statement does not fix it). The seed and message are passed as windows into larger buffers (pattern behind the length must survive; the buffers are wiped afterwards and every result handed out must stay what it was), and unrelated Verify calls that are rejected at every stage (undecodable R, undecodable key, S>=L, wrong length) or accepted are interleaved on the same goroutine between the calls. " +
			"Non-trivial: distinct (seed, len(msg)) pairs (all cases).",
		Assumptions: []string{"crypto/ed25519 and SHA-512 of the Go standard library", "the RFC 8032 model in harness/oracle/ed (self-tested against RFC 8032 vectors)"},
		SelfTest:    ed.SelfTest,
		Gen:         gen,
		Judge:       judge,
		Render: func(class string, key []byte) interface{} {
			p := fw.Unpack(key)
			m := map[string]interface{}{"seed_or_reader_bytes": fw.Hex(p[0])}
			if len(p) > 1 {
				m["message_len"] = len(p[1])
				if len(p[1]) <= 64 {
					m["message"] = fw.Hex(p[1])
				} else {
					m["message_sha512"] = fmt.Sprintf("%x", sha512.Sum512(p[1]))
				}
			}
			return m
		},
		Required: []string{"unrelated Verify calls interleaved (rejected at every stage, and accepted)", "sign ok", "model signer compared", "short reader refused", "prehash refused"},
	})
}

var kept fw.Keeper

// randMu serialises the cases that replace the process-wide crypto/rand.Reader (no other case reads it).
var randMu sync.Mutex

type hashOpt crypto.Hash

func (h hashOpt) HashFunc() crypto.Hash { return crypto.Hash(h) }

func judge(class string, key []byte, o *fw.Obs) {
	p := fw.Unpack(key)
	o.Nontrivial()
	switch class {
	case "nil_reader":
		// GenerateKey(nil) reads crypto/rand.Reader, as crypto/ed25519 does: the source in force AT THE CALL
		// (a test harness, an HSM or DRBG installed after start-up), and its errors, must be honoured.
		randMu.Lock()
		defer randMu.Unlock()
		saved := cryptorand.Reader
		defer func() { cryptorand.Reader = saved }()
		seed := p[0]
		var pub ed25519.PublicKey
		var priv ed25519.PrivateKey
		var err error
		if len(seed) == 32 {
			cryptorand.Reader = bytes.NewReader(append(append([]byte(nil), seed...), 9, 9, 9))
			if !o.Try("GenerateKey(nil)", func() { pub, priv, err = ed25519.GenerateKey(nil) }) {
				return
			}
			if err != nil || len(priv) != 64 || len(pub) != 32 {
				o.Fail("genkey", "GenerateKey(nil) returned %x / %x err=%v", []byte(pub), []byte(priv), err)
				return
			}
			// whatever the entropy was: the key must be the RFC 8032 key of its own seed half
			if own := stded.NewKeyFromSeed(priv[:32]); !bytes.Equal(priv, own) || !bytes.Equal(pub, own[32:]) {
				o.Fail("genkey", "GenerateKey(nil) returned %x / %x, which is not the RFC 8032 key pair of the seed half %x (that is %x)", []byte(pub), []byte(priv), []byte(priv[:32]), []byte(own))
				return
			}
			// which source a nil reader stands for is not part of the statement: observed, not judged
			if want := stded.NewKeyFromSeed(seed); bytes.Equal(priv, want) {
				o.Count("GenerateKey(nil) used the crypto/rand.Reader in force at the call")
			} else {
				o.Count("GenerateKey(nil) did not read the crypto/rand.Reader in force at the call (not judged)")
			}
			return
		}
		cryptorand.Reader = bytes.NewReader(seed) // fewer than 32 bytes: the source fails
		if !o.Try("GenerateKey(nil)", func() { pub, priv, err = ed25519.GenerateKey(nil) }) {
			return
		}
		if err == nil {
			o.Count("GenerateKey(nil) did not read the crypto/rand.Reader in force at the call (not judged)")
			return
		}
		if pub != nil || priv != nil {
			o.Fail("genkey", "GenerateKey(nil) with a crypto/rand.Reader that fails after %d bytes returned err=%v together with pub=%x priv=%x", len(seed), err, []byte(pub), []byte(priv))
			return
		}
		o.Count("short reader refused")
		return
	case "short_reader":
		var pub ed25519.PublicKey
		var priv ed25519.PrivateKey
		var err error
		if !o.Try("GenerateKey", func() { pub, priv, err = ed25519.GenerateKey(bytes.NewReader(p[0])) }) {
			return
		}
		if err == nil || pub != nil || priv != nil {
			o.Fail("genkey", "GenerateKey with a %d-byte reader returned err=%v pub=%x priv=%x", len(p[0]), err, pub, priv)
			return
		}
		o.Count("short reader refused")
		return
	}
	seed, msg := p[0], p[1]
	seedCopy, msgCopy := append([]byte(nil), seed...), append([]byte(nil), msg...)
	stdPriv := stded.NewKeyFromSeed(seed)
	stdSig := stded.Sign(stdPriv, msg)

	var priv ed25519.PrivateKey
	var sig1, sig2, sig3 []byte
	var pubI crypto.PublicKey
	var seedBack []byte
	var ok bool
	var err3 error
	// The caller's seed and message are windows into larger buffers (spare capacity behind the length,
	// filled with a pattern): a callee that appends to its argument writes into memory it does not own.
	// In between the calls the same goroutine verifies unrelated signatures that are rejected at every stage
	// (undecodable R, undecodable key, S >= L, wrong length) or accepted: what the package computes for
	// (seed, msg) must not depend on that history.
	seedIn, msgIn := fw.Spare(seed, 96), fw.NilIfEmpty(fw.Spare(msg, 200), seed[4]) // an empty message is nil in half of the cases
	dist := disturbances(seed, stdPriv, msg, stdSig)
	dOK := true
	disturb := func(i int) {
		d := dist[i%len(dist)]
		if got := ed25519.Verify(ed25519.PublicKey(d.pub), d.msg, d.sig); got != d.want {
			dOK = false
		}
	}
	if !o.Try("NewKeyFromSeed/Sign/Verify", func() {
		disturb(0)
		priv = ed25519.NewKeyFromSeed(seedIn)
		disturb(1)
		sig1 = ed25519.Sign(priv, msgIn)
		disturb(2)
		sig2 = ed25519.Sign(priv, msgIn)
		disturb(3)
		sig3, err3 = priv.Sign(nil, msgIn, crypto.Hash(0))
		pubI = priv.Public()
		seedBack = priv.Seed()
		disturb(4)
		ok = ed25519.Verify(ed25519.PublicKey(priv[32:]), msgIn, sig1)
	}) {
		return
	}
	o.Count("unrelated Verify calls interleaved (rejected at every stage, and accepted)")
	if !dOK {
		o.Fail("verify", "an interleaved Verify call on unrelated material (undecodable R / undecodable key / S >= L / wrong length / genuine signature) gave the wrong verdict")
		return
	}
	if !fw.SpareIntact(seedIn) || !fw.SpareIntact(msgIn) {
		o.Fail("mutation", "NewKeyFromSeed/Sign wrote into the caller's buffer behind the end of the seed or message slice it was given (spare capacity of the argument): seed buffer %x", seedIn[:cap(seedIn)])
		return
	}
	// the caller wipes its buffers after use: nothing handed out before may change
	for i, b := 0, seedIn[:cap(seedIn)]; i < len(b); i++ {
		b[i] = 0
	}
	for i, b := 0, msgIn[:cap(msgIn)]; i < len(b); i++ {
		b[i] = 0
	}
	kept.Keep("signature returned by Sign", sig1)
	kept.Keep("private key returned by NewKeyFromSeed", priv)
	kept.Keep("seed returned by PrivateKey.Seed", seedBack)
	defer kept.Check(o)
	if !bytes.Equal(priv, stdPriv) {
		o.Fail("key", "NewKeyFromSeed = %x, crypto/ed25519 gives %x", []byte(priv), []byte(stdPriv))
		return
	}
	if !bytes.Equal(sig1, stdSig) {
		o.Fail("signature", "Sign = %x, crypto/ed25519 gives %x", sig1, stdSig)
		return
	}
	if !bytes.Equal(sig1, sig2) {
		o.Fail("determinism", "two Sign calls gave %x and %x", sig1, sig2)
		return
	}
	if err3 != nil || !bytes.Equal(sig3, sig1) {
		o.Fail("signer", "PrivateKey.Sign(nil, msg, Hash(0)) = %x, err=%v; Sign gives %x", sig3, err3, sig1)
		return
	}
	pk, isPK := pubI.(ed25519.PublicKey)
	if !isPK || !bytes.Equal(pk, stdPriv[32:]) || !bytes.Equal(seedBack, seedCopy) {
		o.Fail("key", "Public()/Seed() mismatch: %x / %x", []byte(pk), seedBack)
		return
	}
	if !ok {
		o.Fail("verify", "Verify rejects the package's own signature")
		return
	}
	if !bytes.Equal(seed, seedCopy) || !bytes.Equal(msg, msgCopy) {
		o.Fail("mutation", "seed or message modified by the call")
		return
	}
	// independent RFC 8032 signer (expensive: on a subset chosen by the key bytes)
	if len(msg) <= 400 && (len(msg)%4 == 0 || seed[0]%4 == 0) {
		mp, _, _ := ed.PublicFromSeed(seed)
		ms := ed.Sign(seed, msg)
		o.Count("model signer compared")
		if !bytes.Equal(mp, priv[32:]) || !bytes.Equal(ms, sig1) {
			o.Fail("rfc8032", "RFC 8032 model gives public key %x signature %x, package gives %x / %x", mp, ms, []byte(priv[32:]), sig1)
			return
		}
	}
	// pre-hashed input refused
	// every hash identifier the standard library knows (whether or not its implementation is linked into this
	// binary) and a few it does not know
	var hashIDs []crypto.Hash
	for h := crypto.Hash(1); h <= 24; h++ {
		hashIDs = append(hashIDs, h)
	}
	hashIDs = append(hashIDs, 100, 255, 1<<16)
	for _, h := range hashIDs {
		var s []byte
		var err error
		if !o.Try("PrivateKey.Sign(prehash)", func() { s, err = priv.Sign(nil, msg, hashOpt(h)) }) {
			return
		}
		if err == nil || s != nil {
			o.Fail("prehash", "PrivateKey.Sign with opts %v returned sig=%x err=%v", h, s, err)
			return
		}
	}
	o.Count("prehash refused")
	// the rand argument of the Signer interface is not used by Ed25519 (RFC 8032 signing is deterministic):
	// with a non-nil source the signature must be the same one
	for _, rd := range []io.Reader{bytes.NewReader(bytes.Repeat([]byte{0x5a}, 256)), cryptorand.Reader} {
		var s []byte
		var err error
		if !o.Try("PrivateKey.Sign(rand)", func() { s, err = priv.Sign(rd, msg, crypto.Hash(0)) }) {
			return
		}
		if err != nil || !bytes.Equal(s, stdSig) {
			o.Fail("signer", "PrivateKey.Sign with a non-nil rand source = %x, err=%v; the signature of RFC 8032 / crypto/ed25519 (which ignore the source) is %x", s, err, stdSig)
			return
		}
	}
	// GenerateKey from a reader delivering seed || extra
	var gpub ed25519.PublicKey
	var gpriv ed25519.PrivateKey
	var gerr error
	rd := bytes.NewReader(append(append([]byte(nil), seed...), msg...))
	if !o.Try("GenerateKey", func() { gpub, gpriv, gerr = ed25519.GenerateKey(rd) }) {
		return
	}
	if gerr != nil || !bytes.Equal(gpriv, stdPriv) || !bytes.Equal(gpub, stdPriv[32:]) {
		o.Fail("genkey", "GenerateKey(reader) = %x / %x err=%v, expected key of the first 32 bytes", []byte(gpub), []byte(gpriv), gerr)
		return
	}
	// readers that deliver the seed in small pieces
	for _, mk := range []func(io.Reader) io.Reader{iotest.OneByteReader, iotest.HalfReader, iotest.DataErrReader} {
		rd := mk(bytes.NewReader(append(append([]byte(nil), seed...), 1, 2, 3)))
		if !o.Try("GenerateKey(chunked reader)", func() { gpub, gpriv, gerr = ed25519.GenerateKey(rd) }) {
			return
		}
		if gerr != nil || !bytes.Equal(gpriv, stdPriv) || !bytes.Equal(gpub, stdPriv[32:]) {
			o.Fail("genkey", "GenerateKey with a reader that delivers the bytes in pieces = %x / %x err=%v, expected the key of the first 32 bytes", []byte(gpub), []byte(gpriv), gerr)
			return
		}
	}
	// the caller reuses its buffers: sign from a private key and a message held in buffers that are then
	// overwritten; the results handed out before must not change (fw.Keeper), and a second signature over
	// new contents of the same buffers must be the one of the new contents
	{
		keyBuf := append([]byte(nil), priv...)
		msgBuf := append([]byte(nil), msg...)
		var s1, s2 []byte
		if !o.Try("Sign (reused buffers)", func() { s1 = ed25519.Sign(ed25519.PrivateKey(keyBuf), msgBuf) }) {
			return
		}
		seed2 := append([]byte(nil), seed...)
		seed2[0] ^= 0x55
		std2 := stded.NewKeyFromSeed(seed2)
		copy(keyBuf, std2)
		for i := range msgBuf {
			msgBuf[i] ^= 0x33
		}
		if !o.Try("Sign (reused buffers)", func() { s2 = ed25519.Sign(ed25519.PrivateKey(keyBuf), msgBuf) }) {
			return
		}
		if !bytes.Equal(s1, stdSig) || !bytes.Equal(s2, stded.Sign(std2, msgBuf)) {
			o.Fail("signature", "signing from buffers that are overwritten in place between the calls: first %x (expected %x), second %x (expected %x)", s1, stdSig, s2, stded.Sign(std2, msgBuf))
			return
		}
	}
	o.Count("sign ok")
}

type distCall struct {
	pub, msg, sig []byte
	want          bool
}

// undecodable returns 32-byte strings that are not point encodings (decided by the model).
var (
	undecodableOnce sync.Once
	undecodableTab  [][]byte
)

func undecodable() [][]byte {
	undecodableOnce.Do(func() {
		rng := fw.SubRng(7, "c07-undecodable")
		for len(undecodableTab) < 32 {
			b := make([]byte, 32)
			rng.Read(b)
			if _, ok := ed.Decode(b, false); !ok {
				undecodableTab = append(undecodableTab, b)
			}
		}
	})
	return undecodableTab
}

// disturbances builds Verify calls on material unrelated to (or derived from) the case, with verdicts
// known by construction.
func disturbances(seed []byte, stdPriv stded.PrivateKey, msg, stdSig []byte) []distCall {
	und := undecodable()
	sel := int(seed[3]) + len(msg)
	otherSeed := append([]byte(nil), seed...)
	otherSeed[5] ^= 0x80
	oPriv := stded.NewKeyFromSeed(otherSeed)
	oMsg := append([]byte("unrelated "), msg...)
	if len(oMsg) > 300 {
		oMsg = oMsg[:300]
	}
	oSig := stded.Sign(oPriv, oMsg)
	oPub := []byte(oPriv[32:])
	badR := append(append([]byte(nil), und[sel%len(und)]...), oSig[32:]...)
	sPlusL := ed.LE(oSig[32:])
	sPlusL.Add(sPlusL, ed.L) // S + L < 2^253: passes any top-bits pre-check, is not canonical
	highS := append(append([]byte(nil), oSig[:32]...), ed.ToLE(sPlusL, 32)...)
	all := []distCall{
		{oPub, oMsg, badR, false},
		{und[(sel+1)%len(und)], oMsg, oSig, false},
		{oPub, oMsg, highS, false},
		{oPub, oMsg, oSig[:63], false},
		{oPub, oMsg, oSig, true},
		{oPub, msg, stdSig, false},
		{[]byte(stdPriv[32:]), msg, append(append([]byte(nil), und[(sel+2)%len(und)]...), stdSig[32:]...), false},
	}
	// rotate so that every kind is seen at every position over the cases
	r := sel % len(all)
	return append(all[r:], all[:r]...)
}

func gen(g *fw.Gen) {
	seeds := func() []byte {
		switch g.Rng.Intn(8) {
		case 0:
			return make([]byte, 32)
		case 1:
			return bytes.Repeat([]byte{0xff}, 32)
		case 2:
			s := make([]byte, 32)
			s[g.Rng.Intn(32)] = 1 << uint(g.Rng.Intn(8))
			return s
		default:
			return g.Bytes(32)
		}
	}
	// every message length 0..300
	reps := g.Pick(3, 150)
	i := 0
	for rep := 0; rep < reps; rep++ {
		for l := 0; l <= 300; l++ {
			i++
			if g.Own(i) {
				g.Emit("sign", fw.Pack(seeds(), g.Bytes(l)))
			}
		}
	}
	for n := g.ShareOf(12000, 700000); n > 0; n-- {
		g.Emit("sign", fw.Pack(seeds(), g.Bytes(g.Rng.Intn(301))))
	}
	for n := g.ShareOf(100, 3000); n > 0; n-- {
		g.Emit("sign", fw.Pack(seeds(), g.Bytes(1024+g.Rng.Intn(64*1024))))
	}
	// dense sweep of message lengths beyond any plausible fixed-size buffer, and around powers of two
	for l := 301; l <= g.Pick(2400, 9000); l++ {
		i++
		if g.Own(i) {
			g.Emit("sign", fw.Pack(seeds(), g.Bytes(l)))
		}
	}
	for k := 10; k <= 17; k++ {
		for d := -70; d <= 70; d++ {
			i++
			if g.Own(i) && (d >= -2 && d <= 2 || d%8 == 0 || !g.Quick()) {
				g.Emit("sign", fw.Pack(seeds(), g.Bytes(1<<uint(k)+d)))
			}
		}
	}
	// next to multiples (2x, 3x) of powers of two up to 400 KiB: chunked hashing with a wrong last partial chunk
	for n := g.ShareOf(160, 8000); n > 0; n-- {
		g.Emit("sign", fw.Pack(seeds(), g.Bytes((2+g.Rng.Intn(2))<<uint(12+g.Rng.Intn(6))+g.Rng.Intn(145)-72)))
	}
	for l := 0; l < 32; l++ {
		if g.Own(l) {
			g.Emit("short_reader", fw.Pack(g.Bytes(l)))
		}
	}
	for n := g.ShareOf(64, 3200); n > 0; n-- {
		if n%8 == 0 {
			g.Emit("nil_reader", fw.Pack(g.Bytes(g.Rng.Intn(32))))
		} else {
			g.Emit("nil_reader", fw.Pack(g.Bytes(32)))
		}
	}
}
