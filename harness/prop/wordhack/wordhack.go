// Package wordhack builds hostile "words" for the BIP-39 monitors: non-words that collide with a list word
// under common 32-bit digests, and unique four-letter prefixes of list words.
package wordhack

import (
	"crypto/sha256"
	"encoding/binary"
	"hash/adler32"
	"hash/crc32"
	"math/rand"
	"unicode/utf8"

	"verif/harness/oracle/bip39m"
)

// Digest is a named 32-bit digest function.
type Digest struct {
	Name string
	F    func([]byte) uint32
}

// Digests are the digest functions searched for collisions.
var Digests = []Digest{
	{"FNV-1a/32", func(b []byte) uint32 {
		h := uint32(2166136261)
		for _, c := range b {
			h = (h ^ uint32(c)) * 16777619
		}
		return h
	}},
	{"FNV-1/32", func(b []byte) uint32 {
		h := uint32(2166136261)
		for _, c := range b {
			h = h*16777619 ^ uint32(c)
		}
		return h
	}},
	{"CRC-32 (IEEE)", crc32.ChecksumIEEE},
	{"CRC-32C (Castagnoli)", func(b []byte) uint32 { return crc32.Checksum(b, castagnoli) }},
	{"Adler-32", adler32.Checksum},
	{"h*31+c (Java hashCode)", func(b []byte) uint32 {
		h := uint32(0)
		for _, c := range b {
			h = h*31 + uint32(c)
		}
		return h
	}},
	{"h*33+c (djb2)", func(b []byte) uint32 {
		h := uint32(5381)
		for _, c := range b {
			h = h*33 + uint32(c)
		}
		return h
	}},
	{"FNV-1a/64 folded to 32 bits", func(b []byte) uint32 {
		h := uint64(14695981039346656037)
		for _, c := range b {
			h = (h ^ uint64(c)) * 1099511628211
		}
		return uint32(h>>32) ^ uint32(h)
	}},
	{"first 4 bytes of SHA-256", func(b []byte) uint32 {
		d := sha256.Sum256(b)
		return binary.BigEndian.Uint32(d[:4])
	}},
}

var castagnoli = crc32.MakeTable(crc32.Castagnoli)

// RandomNonWord draws a short string in the script of the list (lower-case letters / hiragana incl. the
// combining voicing marks).
func RandomNonWord(r *rand.Rand, l byte) []byte {
	if l == 0 {
		b := make([]byte, 4+r.Intn(5))
		for i := range b {
			b[i] = byte('a' + r.Intn(26))
		}
		return b
	}
	var out []byte
	for n := 2 + r.Intn(5); n > 0; n-- {
		out = utf8.AppendRune(out, rune(0x3042+r.Intn(0x52)))
		if r.Intn(6) == 0 {
			out = utf8.AppendRune(out, 0x3099)
		}
	}
	return out
}

// FindCollision searches for a non-word whose digest under d equals the digest of some word of the list
// (l: 0 english, 1 japanese). It returns the non-word and the index of the list word it collides with.
func FindCollision(r *rand.Rand, list *bip39m.List, l byte, d Digest, maxTries int) (nonWord string, idx int, ok bool) {
	table := make(map[uint32]int, 2048)
	for i, w := range list.Words {
		table[d.F([]byte(w))] = i
	}
	for tries := 0; tries < maxTries; tries++ {
		cand := RandomNonWord(r, l)
		i, hit := table[d.F(cand)]
		if !hit {
			continue
		}
		if _, isWord := list.Index[string(cand)]; isWord {
			continue
		}
		return string(cand), i, true
	}
	return "", 0, false
}

// Prefix4 returns the first four characters (runes) of the word if that prefix is shorter than the word, is
// not itself a list word and no other list word starts with it (the well-known BIP-39 abbreviation).
func Prefix4(list *bip39m.List, w string) (string, bool) {
	n := 0
	cut := -1
	for i := range w {
		if n == 4 {
			cut = i
			break
		}
		n++
	}
	if cut < 0 {
		return "", false
	}
	p := w[:cut]
	if _, isWord := list.Index[p]; isWord {
		return "", false
	}
	cnt := 0
	for _, x := range list.Words {
		if len(x) >= len(p) && x[:len(p)] == p {
			cnt++
		}
	}
	return p, cnt == 1
}
