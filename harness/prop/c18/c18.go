// Package c18 monitors pkg/vrf against the RFC 9381 model.
package c18

import (
	"bytes"
	"fmt"
	"math/big"
	"sync"
	"sync/atomic"

	"github.com/wollac/iota-crypto-demo/pkg/ed25519"
	"github.com/wollac/iota-crypto-demo/pkg/vrf"

	"verif/harness/fw"
	"verif/harness/oracle/ecvrf"
	"verif/harness/oracle/ed"
)

func init() {
	fw.Register(&fw.Prop{
		ID:                  "C18",
		DeadlockIsViolation: true,                               // the calls of this property are synchronous functions of their inputs: a call blocked for good inside the library is a violation
		Builds:              []string{"default", "386", "race"}, // the 386 build runs 1/12 of the random classes on a 32-bit target
		// race build: only the classes in which several goroutines are inside the library at once, under the race detector
		RaceClasses: []string{"concurrent"},
		Scale386:    12,
		Parallel:    4, // cases are judged on 4 goroutines per shard: the library functions are stateless, shared state inside them shows up as wrong verdicts
		Rule: "prove: (seed, alpha) with alpha of every length 0..700 (thorough 0..2200) and around 2^10..2^13, proof bytes compared with the RFC 9381 model, then Verify/ProofToHash/Proof.Hash/SetBytes/MarshalBinary agreement; verify: (key, alpha, proof) triples judged two-sidedly against the model: honest, every single-bit flip of honest proofs, Gamma+T for the 8 torsion points, proofs crafted by the key owner around Gamma' = x*H+T with the nonce drawn until c*T is (valid per RFC 9381) or is not (invalid) the neutral element, non-canonical and undecodable Gamma, s+L / s in {L-1, L, L+1}, random 80-byte strings, lengths 0..100 and 80+256j / 80+65536 (a valid proof with a tail), wrong keys, every small-order key encoding (canonical and not), all 38 y>=p key encodings, undecodable keys, and forged proofs that would verify for small-order keys if validate_key were dropped; decode: SetBytes/UnmarshalBinary/ProofToHash succeed iff the model decodes, and re-encode to the input; unique: all accepted proofs for one (key, alpha) give one hash. reuse: eight decodes into ONE Proof object (SetBytes/UnmarshalBinary mixed, undecodable inputs in between): Bytes() and Hash() must describe the bytes decoded last, and the slices handed out after earlier decodes must keep their contents. Keys, alphas and proofs of the prove class are passed as windows into larger buffers whose pattern behind the slice must survive. related: back-to-back Prove/Verify on equal-length alphas that share a long prefix. concurrent: 16 goroutines call Verify/Prove at once against precomputed expectations. " +
			"Non-trivial: distinct cases outside the purely random classes.",
		Assumptions: []string{"SHA-512 of the Go standard library", "math/big", "the RFC 9381 model in harness/oracle/ecvrf (self-tested against the three RFC 9381 ECVRF-EDWARDS25519-SHA512-TAI examples)"},
		SelfTest:    ecvrf.SelfTest,
		Gen:         gen,
		Judge:       judge,
		Render: func(class string, key []byte) interface{} {
			p := fw.Unpack(key)
			switch class {
			case "prove", "unique":
				return map[string]string{"seed": fw.Hex(p[0]), "alpha": fw.Hex(p[1])}
			case "decode":
				return map[string]string{"proof_bytes": fw.Hex(p[0])}
			case "reuse", "related", "concurrent":
				return map[string]interface{}{"seed": fw.GetU64(p[0]), "scenario": map[string]string{"reuse": "eight decodes into one reused Proof object (SetBytes / UnmarshalBinary mixed)", "related": "four back-to-back Prove/Verify calls on equal-length alphas sharing a long prefix", "concurrent": "16 goroutines call Verify and Prove at once"}[class]}
			}
			return map[string]string{"public_key": fw.Hex(p[0]), "alpha": fw.Hex(p[1]), "proof": fw.Hex(p[2])}
		},
		Required: []string{"gamma_torsion_crafted model=accept", "gamma_torsion_crafted model=reject", "prove ok", "inputs passed with spare capacity stayed intact", "verify model=accept impl=accept", "verify model=reject impl=reject", "decode model=ok impl=ok", "decode model=fail impl=fail", "unique checked", "reuse executions", "related executions", "concurrent executions"},
	})
}

var kept fw.Keeper

func yn(b bool, y, n string) string {
	if b {
		return y
	}
	return n
}

func judge(class string, key []byte, o *fw.Obs) {
	p := fw.Unpack(key)
	switch class {
	case "prove":
		judgeProve(p[0], p[1], o)
	case "decode":
		judgeDecode(p[0], o)
	case "unique":
		judgeUnique(p[0], p[1], p[2], o)
	case "reuse":
		judgeReuse(fw.GetU64(p[0]), o)
	case "related":
		judgeRelated(fw.GetU64(p[0]), o)
	case "concurrent":
		judgeConcurrent(fw.GetU64(p[0]), o)
	default:
		judgeVerify(class, p[0], p[1], p[2], o)
	}
}

func judgeProve(seed, alpha []byte, o *fw.Obs) {
	o.Nontrivial()
	want := ecvrf.Prove(seed, alpha)
	mpub, _, _ := ed.PublicFromSeed(seed)
	_, ctr := ecvrf.EncodeToCurve(mpub, alpha)
	o.Count(fmt.Sprintf("tai_rounds=%s", yn(ctr >= 3, ">=4", fmt.Sprint(ctr+1))))
	var pi, mb, beta, beta2, beta3 []byte
	var ok bool
	var err2, err3 error
	var priv ed25519.PrivateKey
	// the caller's key, alpha and proof are windows into larger buffers (a key ring, a wire message): the
	// pattern behind each slice's length must survive the calls
	var privIn, pubIn, alphaIn, piIn []byte
	if !o.Try("Prove/Verify/ProofToHash", func() {
		priv = vrf.NewKeyFromSeed(fw.Spare(seed, 96))
		privIn, alphaIn = fw.Spare(priv, 160), fw.NilIfEmpty(fw.Spare(alpha, 160), seed[0])
		pr := vrf.Prove(ed25519.PrivateKey(privIn), alphaIn)
		pi = pr.Bytes()
		mb, err3 = pr.MarshalBinary()
		beta3 = pr.Hash()
		pubIn, piIn = fw.Spare(priv[32:], 160), fw.Spare(pi, 160)
		ok, beta = vrf.Verify(vrf.PublicKey(pubIn), alphaIn, piIn)
		beta2, err2 = vrf.ProofToHash(piIn)
	}) {
		return
	}
	if !fw.SpareIntact(privIn) || !fw.SpareIntact(alphaIn) || !fw.SpareIntact(pubIn) || !fw.SpareIntact(piIn) {
		o.Fail("mutation", "Prove/Verify/ProofToHash wrote into the caller's memory behind the end of a slice it was given (spare capacity of the private key, alpha, public key or proof): key buffer %x, alpha buffer %x, public key buffer %x, proof buffer %x", privIn[:cap(privIn)], alphaIn[:cap(alphaIn)], pubIn[:cap(pubIn)], piIn[:cap(piIn)])
		return
	}
	o.Count("inputs passed with spare capacity stayed intact")
	kept.Keep("proof bytes returned by Proof.Bytes", pi)
	kept.Keep("hash returned by Verify", beta)
	kept.Keep("hash returned by ProofToHash", beta2)
	kept.Keep("hash returned by Proof.Hash", beta3)
	defer kept.Check(o)
	if !bytes.Equal(priv[32:], mpub) {
		o.Fail("key", "public key %x differs from RFC 8032 key %x", []byte(priv[32:]), mpub)
		return
	}
	if !bytes.Equal(pi, want) {
		o.Fail("proof", "Prove = %x, RFC 9381 model gives %x", pi, want)
		return
	}
	if err3 != nil || !bytes.Equal(mb, pi) {
		o.Fail("proof", "MarshalBinary = %x err=%v differs from Bytes %x", mb, err3, pi)
		return
	}
	mok, mbeta := ecvrf.Verify(mpub, alpha, want)
	if !mok {
		panic("model rejects its own proof")
	}
	if !ok {
		o.Fail("complete", "Verify rejects the proof returned by Prove")
		return
	}
	if !bytes.Equal(beta, mbeta) || err2 != nil || !bytes.Equal(beta2, mbeta) || !bytes.Equal(beta3, mbeta) {
		o.Fail("hash", "hash outputs differ: Verify %x ProofToHash %x (err=%v) Proof.Hash %x model %x", beta, beta2, err2, beta3, mbeta)
		return
	}
	o.Count("prove ok")
}

func judgeVerify(class string, pub, alpha, pi []byte, o *fw.Obs) {
	if class != "random" {
		o.Nontrivial()
	}
	mok, mbeta := ecvrf.Verify(pub, alpha, pi)
	var ok bool
	var beta []byte
	if !o.Try("vrf.Verify", func() { ok, beta = vrf.Verify(vrf.PublicKey(pub), alpha, pi) }) {
		return
	}
	o.Count(fmt.Sprintf("verify model=%s impl=%s", yn(mok, "accept", "reject"), yn(ok, "accept", "reject")))
	o.Count(fmt.Sprintf("%s model=%s", class, yn(mok, "accept", "reject")))
	if mok && !ok && class != "honest" {
		// the statement demands acceptance of what Prove returns (class honest and the prove class);
		// a verifier that is stricter than RFC 9381 on other valid proofs (e.g. Gamma with a torsion
		// component) still satisfies it
		o.Count("valid-by-RFC proof not produced by Prove refused (allowed by the statement)")
		return
	}
	if mok != ok {
		o.Fail("verdict", "Verify = %v, RFC 9381 model says %v (class %s)", ok, mok, class)
		return
	}
	if ok {
		var b2 []byte
		var err error
		if !o.Try("ProofToHash", func() { b2, err = vrf.ProofToHash(pi) }) {
			return
		}
		if !bytes.Equal(beta, mbeta) || err != nil || !bytes.Equal(b2, mbeta) {
			o.Fail("hash", "accepted proof: Verify hash %x, ProofToHash %x err=%v, model %x", beta, b2, err, mbeta)
		}
	} else if beta != nil {
		o.Fail("hash", "rejected proof but a hash %x was returned", beta)
	}
}

func judgeDecode(x []byte, o *fw.Obs) {
	o.Nontrivial()
	_, _, _, mok := ecvrf.DecodeProof(x)
	var pr, pr2 *vrf.Proof
	var err, err2, err3 error
	var back, h []byte
	if !o.Try("Proof.SetBytes/UnmarshalBinary/ProofToHash", func() {
		pr, err = new(vrf.Proof).SetBytes(x)
		pr2 = new(vrf.Proof)
		err2 = pr2.UnmarshalBinary(x)
		h, err3 = vrf.ProofToHash(x)
		if err == nil {
			back = pr.Bytes()
		}
	}) {
		return
	}
	ok := err == nil
	o.Count(fmt.Sprintf("decode model=%s impl=%s", yn(mok, "ok", "fail"), yn(ok, "ok", "fail")))
	if mok && (!ok || err2 != nil || err3 != nil) {
		// "decoding succeeds only for inputs that re-encode to themselves" is one-sided: a decoder that
		// refuses some canonical encodings (that Prove never produces) still satisfies the statement
		o.Count("canonical encoding refused by the decoder (allowed by the statement)")
		return
	}
	if ok != mok || (err2 == nil) != mok || (err3 == nil) != mok {
		o.Fail("decode", "decoding %x: model %v, SetBytes err=%v, UnmarshalBinary err=%v, ProofToHash err=%v", x, mok, err, err2, err3)
		return
	}
	if !ok {
		if pr != nil || h != nil {
			o.Fail("decode", "failed decoding returned a value (proof %v, hash %x)", pr, h)
		}
		return
	}
	if !bytes.Equal(back, x) {
		o.Fail("canonical", "SetBytes accepted %x but re-encodes to %x", x, back)
		return
	}
	mh, _ := ecvrf.ProofToHash(x)
	if !bytes.Equal(h, mh) || !bytes.Equal(pr2.Hash(), mh) {
		o.Fail("hash", "ProofToHash(%x) = %x, model %x", x, h, mh)
	}
}

// judgeReuse: ONE Proof object is decoded into again and again (SetBytes and UnmarshalBinary mixed, with
// undecodable inputs in between); after every successful decode Bytes() and Hash() must describe the bytes
// decoded last, as Verify and ProofToHash do.
func judgeReuse(seed uint64, o *fw.Obs) {
	o.Nontrivial()
	r := fw.SubRng(int64(seed), "c18-reuse")
	sk := make([]byte, 32)
	r.Read(sk)
	var priv ed25519.PrivateKey
	if !o.Try("NewKeyFromSeed", func() { priv = vrf.NewKeyFromSeed(sk) }) {
		return
	}
	obj := new(vrf.Proof)
	var handedOut fw.Keeper // hashes and encodings returned in earlier steps must not change when the object is reused
	for step := 0; step < 8; step++ {
		alpha := make([]byte, r.Intn(40))
		r.Read(alpha)
		var pi []byte
		if !o.Try("Prove", func() { pi = vrf.Prove(priv, alpha).Bytes() }) {
			return
		}
		if r.Intn(4) == 0 { // an undecodable input in between
			bad := append([]byte(nil), pi...)
			bad[79] |= 0xf0
			o.Try("UnmarshalBinary(invalid)", func() { _ = obj.UnmarshalBinary(bad) })
		}
		var err error
		var back, h []byte
		how := "SetBytes"
		if !o.Try("decode into a reused Proof", func() {
			if r.Intn(2) == 0 {
				how = "UnmarshalBinary"
				err = obj.UnmarshalBinary(pi)
			} else {
				_, err = obj.SetBytes(pi)
			}
			if err == nil {
				h = obj.Hash() // first Hash call after the decode
				back = obj.Bytes()
				h = obj.Hash()
			}
		}) {
			return
		}
		want, _ := ecvrf.ProofToHash(pi)
		if want == nil {
			// the library produced a proof the model cannot decode: the prove class reports that
			return
		}
		if err != nil || !bytes.Equal(back, pi) || !bytes.Equal(h, want) {
			o.Fail("reuse", "decode %d into one reused Proof object via %s: err=%v, Bytes()=%x, Hash()=%x; the bytes decoded last are %x with hash %x", step+1, how, err, back, h, pi, want)
			return
		}
		if !handedOut.Check(o) {
			return
		}
		handedOut.Keep(fmt.Sprintf("Hash() returned after decode %d into the reused Proof object", step+1), h)
		handedOut.Keep(fmt.Sprintf("Bytes() returned after decode %d into the reused Proof object", step+1), back)
		o.Count("reuse: decodes into one Proof object checked")
	}
	if !handedOut.Check(o) {
		return
	}
	o.Count("reuse executions")
}

// judgeRelated: consecutive Prove/Verify calls under one key on alphas of equal length that share a long
// prefix (they differ in one late byte): results must not leak from one call to the next.
func judgeRelated(seed uint64, o *fw.Obs) {
	o.Nontrivial()
	r := fw.SubRng(int64(seed), "c18-related")
	sk := make([]byte, 32)
	r.Read(sk)
	mpub, _, _ := ed.PublicFromSeed(sk)
	lens := []int{17, 33, 65, 66, 100, 129, 130, 200, 257, 300}
	n := lens[r.Intn(len(lens))]
	base := make([]byte, n)
	r.Read(base)
	var priv ed25519.PrivateKey
	if !o.Try("NewKeyFromSeed", func() { priv = vrf.NewKeyFromSeed(sk) }) {
		return
	}
	var prevPi []byte
	for step := 0; step < 4; step++ {
		alpha := append([]byte(nil), base...)
		if step > 0 {
			alpha[n-1-r.Intn(1+n/8)] ^= byte(1 + r.Intn(255)) // differs from the base only near the end
		}
		want := ecvrf.Prove(sk, alpha)
		var pi []byte
		var ok, okPrev bool
		var beta []byte
		if !o.Try("Prove/Verify", func() {
			pi = vrf.Prove(priv, alpha).Bytes()
			ok, beta = vrf.Verify(vrf.PublicKey(priv[32:]), alpha, pi)
			if prevPi != nil {
				okPrev, _ = vrf.Verify(vrf.PublicKey(priv[32:]), alpha, prevPi)
			}
		}) {
			return
		}
		if !bytes.Equal(pi, want) {
			o.Fail("proof", "call %d on alphas of length %d sharing a long prefix: Prove = %x, RFC 9381 model gives %x", step+1, n, pi, want)
			return
		}
		_, mbeta := ecvrf.Verify(mpub, alpha, want)
		if !ok || !bytes.Equal(beta, mbeta) {
			o.Fail("verdict", "call %d on alphas sharing a long prefix: Verify of the fresh proof = %v, hash %x; model accepts with %x", step+1, ok, beta, mbeta)
			return
		}
		if prevPi != nil {
			if mok, _ := ecvrf.Verify(mpub, alpha, prevPi); mok != okPrev {
				o.Fail("verdict", "the proof of the previous alpha (same length, differs near the end) verified against this alpha: Verify = %v, model %v", okPrev, mok)
				return
			}
		}
		prevPi = pi
		o.Count("related: back-to-back calls on prefix-sharing alphas checked")
	}
	o.Count("related executions")
}

// judgeConcurrent: Verify and Prove from many goroutines at once; expectations are computed beforehand.
func judgeConcurrent(seed uint64, o *fw.Obs) {
	o.Nontrivial()
	r := fw.SubRng(int64(seed), "c18-concurrent")
	type item struct {
		priv       ed25519.PrivateKey
		pub, alpha []byte
		pi, beta   []byte
		valid      bool
	}
	var items []item
	for i := 0; i < 6; i++ {
		sk := make([]byte, 32)
		r.Read(sk)
		alpha := make([]byte, r.Intn(60))
		r.Read(alpha)
		pi := ecvrf.Prove(sk, alpha)
		pub, _, _ := ed.PublicFromSeed(sk)
		_, beta := ecvrf.Verify(pub, alpha, pi)
		var priv ed25519.PrivateKey
		if !o.Try("NewKeyFromSeed", func() { priv = vrf.NewKeyFromSeed(sk) }) {
			return
		}
		items = append(items, item{priv, pub, alpha, pi, beta, true})
		bad := append([]byte(nil), pi...)
		bad[40] ^= 1
		if ok, _ := ecvrf.Verify(pub, alpha, bad); !ok {
			items = append(items, item{priv, pub, alpha, bad, nil, false})
		}
	}
	const G = 16
	var wg sync.WaitGroup
	var bad atomic.Value
	for g := 0; g < G; g++ {
		wg.Add(1)
		go func(g int) {
			defer wg.Done()
			defer func() {
				if x := recover(); x != nil {
					bad.Store(fmt.Sprintf("panic in a concurrent call: %v", x))
				}
			}()
			for n := 0; n < 400 && bad.Load() == nil; n++ {
				it := items[(n*(g+1)+g)%len(items)]
				ok, beta := vrf.Verify(vrf.PublicKey(it.pub), it.alpha, it.pi)
				if ok != it.valid || (ok && !bytes.Equal(beta, it.beta)) {
					bad.Store(fmt.Sprintf("with %d goroutines verifying at once, Verify(%x, %x, %x) = %v hash %x; expected %v hash %x", G, it.pub, it.alpha, it.pi, ok, beta, it.valid, it.beta))
					return
				}
				if it.valid && n%8 == 0 {
					if pi := vrf.Prove(it.priv, it.alpha).Bytes(); !bytes.Equal(pi, it.pi) {
						bad.Store(fmt.Sprintf("with %d goroutines at work, Prove = %x, expected %x", G, pi, it.pi))
						return
					}
				}
			}
		}(g)
	}
	wg.Wait()
	if b := bad.Load(); b != nil {
		o.Fail("concurrent", "%s", b.(string))
		return
	}
	o.Count("concurrent executions")
}

// judgeUnique: for one (key, alpha) every proof variant the implementation
// accepts must yield the hash of the honest proof.
func judgeUnique(seed, alpha, mseed []byte, o *fw.Obs) {
	o.Nontrivial()
	r := fw.SubRng(int64(fw.GetU64(mseed)), "c18-unique")
	var priv ed25519.PrivateKey
	var pi, beta0 []byte
	var ok bool
	if !o.Try("Prove/Verify", func() {
		priv = vrf.NewKeyFromSeed(seed)
		pi = vrf.Prove(priv, alpha).Bytes()
		ok, beta0 = vrf.Verify(vrf.PublicKey(priv[32:]), alpha, pi)
	}) {
		return
	}
	if !ok {
		o.Fail("complete", "Verify rejects the proof returned by Prove")
		return
	}
	pub := []byte(priv[32:])
	variants := variantsOf(pi, r, 24)
	// proofs with a small-order component added to Gamma that a correct verifier accepts:
	// Gamma' = x*H + T, k ground until c*T = O, s = k + c*x. Their hash must be the honest one.
	for _, ti := range []int{4, 1 + r.Intn(7)} {
		if m := malleable(seed, alpha, ti, r); m != nil {
			variants = append(variants, m)
		}
	}
	accepted := 0
	for _, v := range variants {
		var vok bool
		var vb []byte
		if !o.Try("vrf.Verify", func() { vok, vb = vrf.Verify(vrf.PublicKey(pub), alpha, v) }) {
			return
		}
		if vok {
			accepted++
			if !bytes.Equal(vb, beta0) {
				o.Fail("unique", "two accepted proofs for one (key, alpha) give different hashes: %x -> %x and %x -> %x", pi, beta0, v, vb)
				return
			}
		}
	}
	o.Add("unique variants tried", int64(len(variants)))
	o.Add("unique variants accepted", int64(accepted))
	o.Count("unique checked")
}

// malleable builds a valid proof whose Gamma carries the torsion component T[ti] (nil if the grind fails).
func malleable(seed, alpha []byte, ti int, r interface{ Intn(int) int }) []byte {
	pub, x, _ := ed.PublicFromSeed(seed)
	H, _ := ecvrf.EncodeToCurve(pub, alpha)
	T := ed.Torsion()[ti]
	g2 := H.Mul(x).Add(T)
	for tries := 0; tries < 40; tries++ {
		kb := make([]byte, 40)
		for i := range kb {
			kb[i] = byte(r.Intn(256))
		}
		k := ed.LE(kb)
		k.Mod(k, ed.L)
		c := ecvrf.Challenge(pub, H.Encode(), g2.Encode(), ed.BaseMul(k).Encode(), H.Mul(k).Encode())
		if !T.Mul(c).IsIdentity() {
			continue
		}
		s := new(big.Int).Mul(c, x)
		s.Add(s, k).Mod(s, ed.L)
		return append(append(append([]byte(nil), g2.Encode()...), ed.ToLE(c, 16)...), ed.ToLE(s, 32)...)
	}
	return nil
}

// variantsOf builds structured mutations of an honest proof.
func variantsOf(pi []byte, r interface{ Intn(int) int }, nflips int) [][]byte {
	var out [][]byte
	gamma, ok := ed.Decode(pi[:32], true)
	if ok {
		for _, t := range ed.Torsion()[1:] {
			g2 := gamma.Add(t).Encode()
			out = append(out, append(append([]byte(nil), g2...), pi[32:]...))
		}
		// negated Gamma, Gamma with flipped sign bit
		out = append(out, append(append([]byte(nil), gamma.Neg().Encode()...), pi[32:]...))
	}
	s := ed.LE(pi[48:])
	for _, d := range []*big.Int{ed.L, new(big.Int).Lsh(ed.L, 1), new(big.Int).Lsh(ed.L, 2)} {
		s2 := new(big.Int).Add(s, d)
		if s2.BitLen() <= 256 {
			out = append(out, append(append([]byte(nil), pi[:48]...), ed.ToLE(s2, 32)...))
		}
	}
	for i := 0; i < nflips; i++ {
		v := append([]byte(nil), pi...)
		v[r.Intn(80)] ^= 1 << uint(r.Intn(8))
		out = append(out, v)
	}
	return out
}

// ---------------------------------------------------------------------------

func randAlpha(g *fw.Gen) []byte {
	switch g.Rng.Intn(8) {
	case 0:
		return []byte{}
	case 1:
		return g.Bytes(1)
	default:
		return g.Bytes(g.Rng.Intn(201))
	}
}

func honest(g *fw.Gen) (pub, alpha, pi []byte, seed []byte) {
	seed = g.Bytes(32)
	alpha = randAlpha(g)
	priv := vrf.NewKeyFromSeed(seed)
	var out []byte
	if r := fw.TryPanics(func() { out = vrf.Prove(priv, alpha).Bytes() }); r != nil || len(out) != 80 {
		// the implementation cannot produce material; fall back to the model (the prove class reports the defect)
		out = ecvrf.Prove(seed, alpha)
	}
	return []byte(priv[32:]), alpha, out, seed
}

func undecodable(g *fw.Gen) []byte {
	for {
		b := g.Bytes(32)
		if _, ok := ed.Decode(b, false); !ok {
			return b
		}
	}
}

func gen(g *fw.Gen) {
	if g.Build == "race" {
		// race build: only the class in which several goroutines are inside the library at once is generated
		// (the generator of the other classes is expensive under the race detector's instrumentation)
		for n := g.ShareOf(8, 400); n > 0; n-- {
			g.Emit("concurrent", fw.Pack(fw.U64(g.Rng.Uint64())))
		}
		return
	}
	tors := ed.Torsion()
	var smallEnc [][]byte
	for _, t := range tors {
		smallEnc = append(smallEnc, ed.Encodings(t)...)
	}
	emitV := func(class string, pub, alpha, pi []byte) { g.Emit(class, fw.Pack(pub, alpha, pi)) }

	// prove
	for n := g.ShareOf(800, 20000); n > 0; n-- {
		g.Emit("prove", fw.Pack(g.Bytes(32), randAlpha(g)))
	}
	// dense sweep of alpha lengths beyond any plausible fixed-size buffer, and around powers of two
	{
		var lens []int
		for l := 201; l <= g.Pick(700, 2200); l++ {
			lens = append(lens, l)
		}
		for _, c := range []int{1024, 2048, 4096, 8192} {
			for d := -2; d <= 2; d++ {
				lens = append(lens, c+d)
			}
		}
		for i, l := range lens {
			if g.Own(i) {
				g.Emit("prove", fw.Pack(g.Bytes(32), g.Bytes(l)))
			}
		}
	}
	// alpha values that need many try-and-increment rounds: search with the model
	for n := g.ShareOf(48, 2000); n > 0; n-- {
		seed := g.Bytes(32)
		pub, _, _ := ed.PublicFromSeed(seed)
		for {
			alpha := randAlpha(g)
			if _, ctr := ecvrf.EncodeToCurve(pub, alpha); ctr >= 2 {
				g.Emit("prove", fw.Pack(seed, alpha))
				break
			}
		}
	}

	// verify: honest and structured mutations
	for n := g.ShareOf(320, 8000); n > 0; n-- {
		pub, alpha, pi, seed := honest(g)
		emitV("honest", pub, alpha, pi)
		// wrong key / wrong alpha
		pub2, _, _, _ := honest(g)
		emitV("wrong_key", pub2, alpha, pi)
		emitV("wrong_alpha", pub, append(append([]byte(nil), alpha...), 0), pi)
		for _, v := range variantsOf(pi, g.Rng, 4) {
			emitV("mutated", pub, alpha, v)
		}
		if n%4 == 0 {
			if m := malleable(seed, alpha, 1+g.Rng.Intn(7), g.Rng); m != nil {
				emitV("malleable_gamma", pub, alpha, m)
			}
		}
		// s boundary values
		for _, sv := range []*big.Int{new(big.Int).Sub(ed.L, big.NewInt(1)), ed.L, new(big.Int).Add(ed.L, big.NewInt(1)), big.NewInt(0)} {
			if g.Rng.Intn(4) == 0 {
				emitV("s_boundary", pub, alpha, append(append([]byte(nil), pi[:48]...), ed.ToLE(sv, 32)...))
			}
		}
		// Gamma replaced
		switch g.Rng.Intn(3) {
		case 0:
			emitV("gamma_undecodable", pub, alpha, append(undecodable(g), pi[32:]...))
		case 1:
			e := smallEnc[g.Rng.Intn(len(smallEnc))]
			emitV("gamma_smallorder", pub, alpha, append(append([]byte(nil), e...), pi[32:]...))
		default:
			nc := ed.NonCanonicalY()
			e := nc[g.Rng.Intn(len(nc))]
			emitV("gamma_noncanonical", pub, alpha, append(append([]byte(nil), e...), pi[32:]...))
		}
		// lengths
		if n%4 == 0 {
			l := g.Rng.Intn(101)
			v := append(append([]byte(nil), pi...), g.Bytes(21)...)[:l]
			emitV("length", pub, alpha, v)
		}
		if n%16 == 0 {
			// a valid proof followed by 256*j or 65536 further bytes (a length kept in 8 or 16 bits reads 80)
			extra := []int{256, 512, 768, 1024, 65536}[g.Rng.Intn(5)]
			tail := make([]byte, extra)
			if g.Rng.Intn(2) == 0 {
				g.Rng.Read(tail)
			}
			emitV("length", pub, alpha, append(append([]byte(nil), pi...), tail...))
			g.Emit("decode", fw.Pack(append(append([]byte(nil), pi...), tail...)))
		}
	}
	// every single-bit flip of a few honest proofs
	nfull := g.Pick(2, 40)
	for k := 0; k < nfull; k++ {
		if !g.Own(k) {
			continue
		}
		pub, alpha, pi, _ := honest(g)
		for bit := 0; bit < 640; bit++ {
			v := append([]byte(nil), pi...)
			v[bit/8] ^= 1 << uint(bit%8)
			emitV("bitflip", pub, alpha, v)
		}
	}
	// keys: every small-order encoding, every y >= p encoding, undecodable
	keyList := append(append([][]byte(nil), smallEnc...), ed.NonCanonicalY()...)
	for rep := 0; rep < g.Pick(1, 10); rep++ {
		for i, k := range keyList {
			if !g.Own(i + rep) {
				continue
			}
			_, alpha, pi, _ := honest(g)
			emitV("key_smallorder_or_noncanonical", k, alpha, pi)
		}
	}
	for n := g.ShareOf(64, 2000); n > 0; n-- {
		_, alpha, pi, _ := honest(g)
		emitV("key_undecodable", undecodable(g), alpha, pi)
	}
	// forged proofs for small-order keys: with Y of small order, Gamma of small order,
	// s = k and c = challenge(Y, H, Gamma, kB, kH) with c*Y = c*Gamma = O the verification
	// equations hold, so only validate_key (and canonical decoding) reject them.
	for n := g.ShareOf(64, 3000); n > 0; n-- {
		ti, tj := g.Rng.Intn(8), g.Rng.Intn(8)
		Y, Gm := tors[ti], tors[tj]
		yEnc, gEnc := Y.Encode(), Gm.Encode()
		alpha := randAlpha(g)
		H, _ := ecvrf.EncodeToCurve(yEnc, alpha)
		for tries := 0; tries < 64; tries++ {
			k := ed.LE(g.Bytes(40))
			k.Mod(k, ed.L)
			c := ecvrfChallenge(yEnc, H.Encode(), gEnc, ed.BaseMul(k).Encode(), H.Mul(k).Encode())
			if Y.Mul(c).IsIdentity() && Gm.Mul(c).IsIdentity() {
				pi := append(append(append([]byte(nil), gEnc...), ed.ToLE(c, 16)...), ed.ToLE(k, 32)...)
				emitV("forged_smallorder_key", yEnc, alpha, pi)
				break
			}
		}
	}
	// proofs crafted by the key owner with a torsion component in Gamma: Gamma' = x*H + T, nonce k, and
	// c = challenge(Y, H, Gamma', kB, kH), s = k + c*x. The verification recomputes V = s*H - c*Gamma' =
	// kH - c*T, so the proof is valid per RFC 9381 exactly when c*T = O (k is drawn until c is, or is not,
	// a multiple of the order of T). The model decides; both kinds are emitted.
	for n := g.ShareOf(96, 4000); n > 0; n-- {
		seed := g.Bytes(32)
		pub, x, _ := ed.PublicFromSeed(seed)
		alpha := randAlpha(g)
		H, _ := ecvrf.EncodeToCurve(pub, alpha)
		T := tors[1+g.Rng.Intn(7)]
		gm := H.Mul(x).Add(T)
		wantValid := n%2 == 0
		for tries := 0; tries < 200; tries++ {
			k := ed.LE(g.Bytes(40))
			k.Mod(k, ed.L)
			c := ecvrfChallenge(pub, H.Encode(), gm.Encode(), ed.BaseMul(k).Encode(), H.Mul(k).Encode())
			if T.Mul(c).IsIdentity() != wantValid {
				continue
			}
			sc := new(big.Int).Mul(c, x)
			sc.Add(sc, k).Mod(sc, ed.L)
			pi := append(append(append([]byte(nil), gm.Encode()...), ed.ToLE(c, 16)...), ed.ToLE(sc, 32)...)
			emitV("gamma_torsion_crafted", pub, alpha, pi)
			break
		}
	}
	// random
	for n := g.ShareOf(300, 10000); n > 0; n-- {
		pi := g.Bytes(80)
		pi[79] &= 0x0f
		pub, alpha, _, _ := honest(g)
		emitV("random", pub, alpha, pi)
	}

	// decode
	for n := g.ShareOf(4000, 200000); n > 0; n-- {
		x := g.Bytes(80)
		switch g.Rng.Intn(8) {
		case 0: // arbitrary length
			x = g.Bytes(g.Rng.Intn(101))
		case 1: // s near L
			d := big.NewInt(int64(g.Rng.Intn(5) - 2))
			copy(x[48:], ed.ToLE(d.Add(d, ed.L), 32))
		case 2: // small-order / non-canonical Gamma
			l := append(append([][]byte(nil), smallEnc...), ed.NonCanonicalY()...)
			copy(x, l[g.Rng.Intn(len(l))])
			x[79] &= 0x0f
		case 3: // valid point, s with cleared top bits
			copy(x, ed.BaseMul(ed.LE(g.Bytes(32))).Encode())
			x[79] &= 0x0f
		case 4:
			copy(x, ed.BaseMul(ed.LE(g.Bytes(32))).Encode())
			x[79] &= 0x1f
		default:
			x[79] &= 0x0f
		}
		g.Emit("decode", fw.Pack(x))
	}
	for n := g.ShareOf(300, 8000); n > 0; n-- {
		g.Emit("reuse", fw.Pack(fw.U64(g.Rng.Uint64())))
	}
	for n := g.ShareOf(200, 5000); n > 0; n-- {
		g.Emit("related", fw.Pack(fw.U64(g.Rng.Uint64())))
	}
	for n := g.ShareOf(32, 1600); n > 0; n-- {
		g.Emit("concurrent", fw.Pack(fw.U64(g.Rng.Uint64())))
	}
	// uniqueness
	for n := g.ShareOf(200, 5000); n > 0; n-- {
		g.Emit("unique", fw.Pack(g.Bytes(32), randAlpha(g), g.Bytes(8)))
	}
}

// ecvrfChallenge mirrors RFC 9381 section 5.4.3 for the forged-proof generator.
func ecvrfChallenge(p1, p2, p3, p4, p5 []byte) *big.Int {
	return ecvrf.Challenge(p1, p2, p3, p4, p5)
}
