// Package c20 checks the amd64 assembly and the portable Curl permutation
// against the definition of the round function, lane by lane, and fences the
// assembly's buffers with guard pages and canaries.
package c20

import (
	"crypto/sha256"
	"encoding/json"
	"fmt"
	"math/bits"
	"math/rand"
	"os"
	"os/exec"
	"path/filepath"
	"sync"
	"sync/atomic"

	"github.com/iotaledger/iota.go/trinary"
	"github.com/wollac/iota-crypto-demo/pkg/curl"

	"verif/harness/fw"
	"verif/harness/oracle/curlp"
)

func init() {
	fw.Register(&fw.Prop{
		ID:                  "C20",
		DeadlockIsViolation: true, // the calls of this property are synchronous functions of their inputs: a call blocked for good inside the library is a violation
		Rule: "bit-sliced states (2 x 729 words): uniform random words, all-zero, all-one, a single bit, a single word, every lane a valid trit state, lanes with the fourth code (0,0), lane-permuted copies (permuting lanes must commute with the permutation), states captured from real sponge use. Each state goes through the build-selected transform (assembly in the default build) on plain arrays, through the portable transform, through the build-selected transform with all four buffers inside guard-page arenas flush against the upper and then the lower guard (stray access = fault with the address as witness; canaries in the RW slack), and through a per-lane model: 81 rounds of the round function on 2-bit (l,h) codes with the 364/-365 walk, built from the boolean s-box formula and self-tested against the Curl-P truth table. All results must agree on all 2 x 729 words; concurrent: both permutations called from 8 goroutines at once on their own buffers must give the model's results; digests of all results must be equal in the default and purego builds. " +
			"Non-trivial: distinct states other than all-zero / all-one.",
		Assumptions: []string{"the routine has no data-dependent branch or address (loop counters are immediates), so one fenced execution per placement observes every access it can make", "the fence sees accesses within 1 MiB of a buffer", "amd64 only", "per-lane model in harness/prop/c20 (self-tested against the Curl-P truth table and the single-lane model of oracle/curlp)"},
		Builds:      []string{"default", "default+cpuoff", "purego", "386", "race"}, // +cpuoff: the default binary with GODEBUG=cpu.all=off (fallback paths of run-time CPU dispatch)
		// race build: only the classes in which several goroutines are inside the library at once, under the race detector
		RaceClasses: []string{"concurrent"},
		SelfTest:    selfTest,
		Gen:         gen,
		Judge:       judge,
		Render: func(class string, key []byte) interface{} {
			p := fw.Unpack(key)
			return map[string]interface{}{"state_style": styles[p[0][0]], "state_seed": fw.GetU64(p[1])}
		},
		Required: []string{"fenced executions (upper placement)", "fenced executions (lower placement)", "lanes modelled", "three-way agreement", "lane permutation checked", "concurrent executions"},
		Post: func(r *fw.RunResult) {
			if r.Tier == "thorough" || os.Getenv("VERIF_ASMTRACE") == "1" {
				asmTrace(r)
			}
			d, p := r.BuildDigests["default"], r.BuildDigests["purego"]
			if c := r.BuildDigests["default+cpuoff"]; c != d {
				p = c
			}
			r.Extra["build_digests_equal"] = d == p && d != ""
			if d != p && r.ViolTotal == 0 && !r.Incomplete {
				r.AddViolation(fw.Violation{Class: "cross-build", VClass: "digest",
					Message: fmt.Sprintf("transform results differ between the default (assembly) build and the purego build or the default build run with GODEBUG=cpu.all=off: per-shard digests %s vs %s", d, p)})
			}
		},
	})
}

// asmTrace single-steps the assembly routine in a ptrace'd child (bin/vmon asmtrace) and
// checks every executed memory access; an unavailable tracer leaves the sub-monitor inconclusive
// (recorded in the evidence) while the fence and the differential still decide.
func asmTrace(r *fw.RunResult) {
	out, err := exec.Command(filepath.Join(r.Root, "bin", "vmon"), "asmtrace").Output()
	var rep struct {
		Available bool                     `json:"available"`
		Reason    string                   `json:"reason"`
		Runs      []map[string]interface{} `json:"runs"`
		SameTrace bool                     `json:"relative_traces_identical"`
		Problems  []string                 `json:"problems"`
	}
	if jerr := json.Unmarshal(out, &rep); jerr != nil {
		r.Extra["asm_single_step_trace"] = fmt.Sprintf("unavailable: %v %v", err, jerr)
		return
	}
	if !rep.Available {
		r.Extra["asm_single_step_trace"] = "unavailable: " + rep.Reason
		return
	}
	r.Extra["asm_single_step_trace"] = map[string]interface{}{"inputs_traced": len(rep.Runs), "relative_traces_identical": rep.SameTrace, "first_run": rep.Runs[0]}
	for _, p := range rep.Problems {
		r.AddViolation(fw.Violation{Class: "asm-trace", VClass: "access", Message: "single-step trace of the assembly routine: " + p, Build: "default"})
	}
}

var styles = []string{"random words", "all zero", "all one", "single bit", "single word", "valid trits in every lane", "some lanes with the (0,0) code", "captured from sponge use", "sparse random"}

const lanes = bits.UintSize // 64 lanes on amd64, 32 in the 386 build

type state struct{ l, h [curl.StateSize]uint }

// sboxBit is the boolean s-box of the property on single bits.
func sboxBit(aL, aH, bL, bH uint8) (uint8, uint8) {
	tmp := aL & (aH ^ bL)
	return (^tmp) & 1, ((aL ^ bH) | tmp) & 1
}

// table[a][b] for 2-bit codes c = l | h<<1
var table [4][4]uint8

func init() {
	for a := uint8(0); a < 4; a++ {
		for b := uint8(0); b < 4; b++ {
			l, h := sboxBit(a&1, a>>1, b&1, b>>1)
			table[a][b] = l | h<<1
		}
	}
}

func codeOf(t int8) uint8 {
	switch t {
	case 1:
		return 2 // l=0,h=1
	case -1:
		return 1 // l=1,h=0
	}
	return 3 // l=1,h=1
}

// walk of the scratchpad index: 0, 364, 728, 363, ...
var walk [curl.StateSize + 1]int

func init() {
	p := 0
	for i := range walk {
		walk[i] = p
		if p < 365 {
			p += 364
		} else {
			p -= 365
		}
	}
}

// modelLane applies 81 rounds to one lane of 2-bit codes.
func modelLane(st *[curl.StateSize]uint8) {
	var tmp [curl.StateSize]uint8
	for r := 0; r < curl.NumRounds; r++ {
		tmp = *st
		for i := 0; i < curl.StateSize; i++ {
			st[i] = table[tmp[walk[i]]][tmp[walk[i+1]]]
		}
	}
}

// model applies the definition to all 64 lanes.
func model(in *state) *state {
	out := &state{}
	var lane [curl.StateSize]uint8
	for j := uint(0); j < lanes; j++ {
		for i := range lane {
			lane[i] = uint8(in.l[i]>>j&1) | uint8(in.h[i]>>j&1)<<1
		}
		modelLane(&lane)
		for i, c := range lane {
			out.l[i] |= uint(c&1) << j
			out.h[i] |= uint(c>>1) << j
		}
	}
	return out
}

func selfTest() error {
	if err := curlp.SelfTest(); err != nil {
		return err
	}
	truth := [11]int8{1, 0, -1, 2, 1, -1, 0, 2, -1, 1, 0}
	for _, a := range []int8{-1, 0, 1} {
		for _, b := range []int8{-1, 0, 1} {
			want := truth[int(a)+int(b)*4+5]
			if got := table[codeOf(a)][codeOf(b)]; got != codeOf(want) {
				return fmt.Errorf("c20 model: s-box formula disagrees with the Curl-P truth table on (%d,%d)", a, b)
			}
		}
	}
	// the lane model equals the single-lane trit model on a valid state
	r := rand.New(rand.NewSource(5))
	var trits [curlp.StateLen]int8
	var lane [curl.StateSize]uint8
	for i := range trits {
		trits[i] = int8(r.Intn(3) - 1)
		lane[i] = codeOf(trits[i])
	}
	curlp.Transform(&trits)
	modelLane(&lane)
	for i := range trits {
		if lane[i] != codeOf(trits[i]) {
			return fmt.Errorf("c20 model: lane model differs from the single-lane Curl-P model at %d", i)
		}
	}
	return nil
}

func makeState(style byte, seed uint64) *state {
	r := fw.SubRng(int64(seed), "c20-state")
	s := &state{}
	switch style {
	case 0:
		for i := range s.l {
			s.l[i], s.h[i] = uint(r.Uint64()), uint(r.Uint64())
		}
	case 1:
	case 2:
		for i := range s.l {
			s.l[i], s.h[i] = ^uint(0), ^uint(0)
		}
	case 3:
		if r.Intn(2) == 0 {
			s.l[r.Intn(729)] = 1 << uint(r.Intn(lanes))
		} else {
			s.h[r.Intn(729)] = 1 << uint(r.Intn(lanes))
		}
	case 4:
		i := r.Intn(729)
		s.l[i], s.h[i] = uint(r.Uint64()), uint(r.Uint64())
	case 5, 6:
		for i := range s.l {
			for j := uint(0); j < lanes; j++ {
				c := codeOf(int8(r.Intn(3) - 1))
				if style == 6 && j%5 == 0 && r.Intn(4) == 0 {
					c = 0
				}
				s.l[i] |= uint(c&1) << j
				s.h[i] |= uint(c>>1) << j
			}
		}
	case 7:
		c := curl.NewCurlP81()
		n := 1 + r.Intn(lanes)
		src := make([]trinary.Trits, n)
		for j := range src {
			src[j] = make(trinary.Trits, 243)
			for k := range src[j] {
				src[j][k] = int8(r.Intn(3) - 1)
			}
		}
		if err := c.Absorb(src, 243); err != nil {
			panic(err)
		}
		c.CopyState(s.l[:], s.h[:])
	default:
		for k := 0; k < 40; k++ {
			s.l[r.Intn(729)] ^= uint(r.Uint64())
			s.h[r.Intn(729)] ^= uint(r.Uint64())
		}
	}
	return s
}

func placement(upper bool) string {
	if upper {
		return "upper"
	}
	return "lower"
}

func diff(a, b *state) string {
	for i := range a.l {
		if a.l[i] != b.l[i] || a.h[i] != b.h[i] {
			return fmt.Sprintf("word %d: l=%016x h=%016x vs l=%016x h=%016x", i, a.l[i], a.h[i], b.l[i], b.h[i])
		}
	}
	return ""
}

// judgeConcurrent: both permutations are called from 8 goroutines at once, each on its own buffers;
// the results must be the ones the per-lane model gives for each state.
func judgeConcurrent(seed uint64, o *fw.Obs) {
	o.Nontrivial()
	const nStates = 4
	ins := make([]*state, nStates)
	wants := make([]*state, nStates)
	for i := range ins {
		ins[i] = makeState(byte([]int{0, 5, 6, 8}[i]), seed+uint64(i))
		wants[i] = model(ins[i])
	}
	o.Add("lanes modelled", nStates*lanes)
	const G = 8
	var wg sync.WaitGroup
	var bad atomic.Value
	for g := 0; g < G; g++ {
		wg.Add(1)
		go func(g int) {
			defer wg.Done()
			defer func() {
				if x := recover(); x != nil {
					bad.Store(fmt.Sprintf("panic in a concurrent call: %v", x))
				}
			}()
			var out state
			for n := 0; n < 60 && bad.Load() == nil; n++ {
				k := (n + g) % nStates
				l, h := ins[k].l, ins[k].h
				which := "build-selected transform"
				if (n+g)%2 == 0 {
					curl.VerifTransform(&out.l, &out.h, &l, &h)
				} else {
					which = "portable transform"
					curl.VerifTransformGeneric(&out.l, &out.h, &l, &h)
				}
				if d := diff(&out, wants[k]); d != "" {
					bad.Store(fmt.Sprintf("with %d goroutines transforming their own buffers at once, the %s differs from the definition: %s", G, which, d))
					return
				}
			}
		}(g)
	}
	wg.Wait()
	if b := bad.Load(); b != nil {
		o.Fail("concurrent", "%s", b.(string))
		return
	}
	o.Count("concurrent executions")
}

func judge(class string, key []byte, o *fw.Obs) {
	p := fw.Unpack(key)
	if class == "concurrent" {
		judgeConcurrent(fw.GetU64(p[1]), o)
		return
	}
	style, seed := p[0][0], fw.GetU64(p[1])
	in := makeState(style, seed)
	if style != 1 && style != 2 {
		o.Nontrivial()
	}
	want := model(in)
	o.Add("lanes modelled", lanes)
	// guard-page fence, both placements (first, so that a stray access is reported as such)
	for _, upper := range []bool{true, false} {
		got, ok := fenced(o, in, upper, byte(seed))
		if !ok {
			return
		}
		o.Count(fmt.Sprintf("fenced executions (%s placement)", placement(upper)))
		if d := diff(got, want); d != "" {
			o.Fail("definition", "fenced transform (%s placement) differs from the definition: %s", placement(upper), d)
			return
		}
	}
	// build-selected and portable implementation on ordinary Go arrays
	var sel, gen state
	inL, inH := in.l, in.h
	if !o.Try("transform (build-selected)", func() { curl.VerifTransform(&sel.l, &sel.h, &inL, &inH) }) {
		return
	}
	inL, inH = in.l, in.h
	if !o.Try("transformGeneric", func() { curl.VerifTransformGeneric(&gen.l, &gen.h, &inL, &inH) }) {
		return
	}
	if d := diff(&sel, want); d != "" {
		o.Fail("definition", "build-selected transform differs from 81 rounds of the round function: %s", d)
		return
	}
	if d := diff(&gen, want); d != "" {
		o.Fail("definition", "portable transform differs from 81 rounds of the round function: %s", d)
		return
	}
	o.Count("three-way agreement")
	// metamorphic: permuting lanes commutes with the permutation (rotation by k bits)
	if seed%4 == 0 {
		k := uint(1 + seed%(lanes-1))
		var rot, rout state
		for i := range in.l {
			rot.l[i] = in.l[i]<<k | in.l[i]>>(lanes-k)
			rot.h[i] = in.h[i]<<k | in.h[i]>>(lanes-k)
		}
		rl, rh := rot.l, rot.h
		if !o.Try("transform (build-selected)", func() { curl.VerifTransform(&rout.l, &rout.h, &rl, &rh) }) {
			return
		}
		for i := range want.l {
			if rout.l[i] != want.l[i]<<k|want.l[i]>>(lanes-k) || rout.h[i] != want.h[i]<<k|want.h[i]>>(lanes-k) {
				o.Fail("lanes", "rotating the lanes by %d does not commute with the permutation at word %d", k, i)
				return
			}
		}
		o.Count("lane permutation checked")
	}
	hsh := sha256.New()
	for i := range sel.l {
		fmt.Fprintf(hsh, "%x,%x;", sel.l[i], sel.h[i])
	}
	o.Out(hsh.Sum(nil))
}

func gen(g *fw.Gen) {
	if g.Build == "race" {
		// race build: only the class in which several goroutines are inside the library at once is generated
		// (the generator of the other classes is expensive under the race detector's instrumentation)
		for n := g.ShareOf(32, 1600); n > 0; n-- {
			g.Emit("concurrent", fw.Pack([]byte{0}, fw.U64(g.Rng.Uint64())))
		}
		return
	}
	for n := g.ShareOf(32, 1600); n > 0; n-- {
		g.Emit("concurrent", fw.Pack([]byte{0}, fw.U64(g.Rng.Uint64())))
	}
	for n := g.ShareOf(4000, 60000); n > 0; n-- {
		style := byte(g.Rng.Intn(len(styles)))
		if style == 1 || style == 2 {
			if g.Rng.Intn(8) != 0 {
				style = 0
			}
		}
		g.Emit("state", fw.Pack([]byte{style}, fw.U64(g.Rng.Uint64())))
	}
}
