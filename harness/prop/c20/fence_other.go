//go:build !(amd64 && linux)

package c20

import (
	"github.com/wollac/iota-crypto-demo/pkg/curl"

	"verif/harness/fw"
)

// fenced: there is no assembly routine (and no guard-page fence) on this target; the build-selected
// transform, which is the portable one here, is run on ordinary arrays.
func fenced(o *fw.Obs, in *state, upper bool, seed byte) (*state, bool) {
	out := &state{}
	l, h := in.l, in.h
	if !o.Try("transform (build-selected)", func() { curl.VerifTransform(&out.l, &out.h, &l, &h) }) {
		return nil, false
	}
	return out, true
}
