package c20

import (
	"fmt"
	"syscall"
	"unsafe"
)

const (
	pageSize  = 4096
	guardSize = 1 << 20
	rwSize    = 2 * pageSize
	bufBytes  = 729 * 8
)

// arena is [1 MiB PROT_NONE][2 pages RW][1 MiB PROT_NONE]; the 5832-byte
// buffer is placed flush against the upper or the lower guard.
type arena struct {
	mem  []byte
	name string
}

func newArena(name string) (*arena, error) {
	mem, err := syscall.Mmap(-1, 0, 2*guardSize+rwSize, syscall.PROT_NONE, syscall.MAP_ANON|syscall.MAP_PRIVATE)
	if err != nil {
		return nil, err
	}
	if err := syscall.Mprotect(mem[guardSize:guardSize+rwSize], syscall.PROT_READ|syscall.PROT_WRITE); err != nil {
		return nil, err
	}
	return &arena{mem: mem, name: name}, nil
}

func (a *arena) rw() []byte { return a.mem[guardSize : guardSize+rwSize] }

// place returns the buffer at the chosen placement: upper = its last byte is the last RW byte.
func (a *arena) place(upper bool) (*[729]uint, int) {
	off := 0
	if upper {
		off = rwSize - bufBytes
	}
	return (*[729]uint)(unsafe.Pointer(&a.rw()[off])), off
}

// fillCanary writes the pattern into the RW bytes outside the buffer.
func (a *arena) fillCanary(off int, seed byte) {
	rw := a.rw()
	for i := range rw {
		if i < off || i >= off+bufBytes {
			rw[i] = seed ^ byte(i*131>>3)
		}
	}
}

// checkCanary returns the first RW byte outside the buffer that changed.
func (a *arena) checkCanary(off int, seed byte) error {
	rw := a.rw()
	for i := range rw {
		if i < off || i >= off+bufBytes {
			if rw[i] != seed^byte(i*131>>3) {
				return fmt.Errorf("byte at offset %d relative to the start of buffer %s was overwritten", i-off, a.name)
			}
		}
	}
	return nil
}

// locate describes a faulting address relative to the arenas' buffers.
func locate(addr uintptr, as []*arena, offs []int) string {
	for k, a := range as {
		base := uintptr(unsafe.Pointer(&a.mem[0]))
		if addr >= base && addr < base+uintptr(len(a.mem)) {
			buf := base + guardSize + uintptr(offs[k])
			return fmt.Sprintf("address 0x%x = buffer %s %+d bytes (buffer is [0, %d))", addr, a.name, int64(addr)-int64(buf), bufBytes)
		}
	}
	return fmt.Sprintf("address 0x%x (outside all arenas)", addr)
}
