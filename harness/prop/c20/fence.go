//go:build amd64 && linux

package c20

import (
	"fmt"
	"runtime/debug"
	"syscall"
	"unsafe"

	"github.com/wollac/iota-crypto-demo/pkg/curl"

	"verif/harness/fw"
)

const (
	pageSize  = 4096
	guardSize = 1 << 20
	rwSize    = 2 * pageSize
	bufBytes  = 729 * 8
)

// arena is [1 MiB PROT_NONE][2 pages RW][1 MiB PROT_NONE]; the 5832-byte
// buffer is placed flush against the upper or the lower guard.
type arena struct {
	mem  []byte
	name string
}

func newArena(name string) (*arena, error) {
	mem, err := syscall.Mmap(-1, 0, 2*guardSize+rwSize, syscall.PROT_NONE, syscall.MAP_ANON|syscall.MAP_PRIVATE)
	if err != nil {
		return nil, err
	}
	if err := syscall.Mprotect(mem[guardSize:guardSize+rwSize], syscall.PROT_READ|syscall.PROT_WRITE); err != nil {
		return nil, err
	}
	return &arena{mem: mem, name: name}, nil
}

func (a *arena) rw() []byte { return a.mem[guardSize : guardSize+rwSize] }

// place returns the buffer at the chosen placement: upper = its last byte is the last RW byte.
func (a *arena) place(upper bool) (*[729]uint, int) {
	off := 0
	if upper {
		off = rwSize - bufBytes
	}
	return (*[729]uint)(unsafe.Pointer(&a.rw()[off])), off
}

// fillCanary writes the pattern into the RW bytes outside the buffer.
func (a *arena) fillCanary(off int, seed byte) {
	rw := a.rw()
	for i := range rw {
		if i < off || i >= off+bufBytes {
			rw[i] = seed ^ byte(i*131>>3)
		}
	}
}

// checkCanary returns the first RW byte outside the buffer that changed.
func (a *arena) checkCanary(off int, seed byte) error {
	rw := a.rw()
	for i := range rw {
		if i < off || i >= off+bufBytes {
			if rw[i] != seed^byte(i*131>>3) {
				return fmt.Errorf("byte at offset %d relative to the start of buffer %s was overwritten", i-off, a.name)
			}
		}
	}
	return nil
}

// locate describes a faulting address relative to the arenas' buffers.
func locate(addr uintptr, as []*arena, offs []int) string {
	for k, a := range as {
		base := uintptr(unsafe.Pointer(&a.mem[0]))
		if addr >= base && addr < base+uintptr(len(a.mem)) {
			buf := base + guardSize + uintptr(offs[k])
			return fmt.Sprintf("address 0x%x = buffer %s %+d bytes (buffer is [0, %d))", addr, a.name, int64(addr)-int64(buf), bufBytes)
		}
	}
	return fmt.Sprintf("address 0x%x (outside all arenas)", addr)
}

var arenas []*arena

func getArenas() []*arena {
	if arenas == nil {
		for _, n := range []string{"lto", "hto", "lfrom", "hfrom"} {
			a, err := newArena(n)
			if err != nil {
				panic(err)
			}
			arenas = append(arenas, a)
		}
	}
	return arenas
}

// fenced runs the build-selected transform with all four buffers in guard-page arenas.
func fenced(o *fw.Obs, in *state, upper bool, seed byte) (*state, bool) {
	as := getArenas()
	var bufs [4]*[729]uint
	offs := make([]int, 4)
	for k, a := range as {
		bufs[k], offs[k] = a.place(upper)
		a.fillCanary(offs[k], seed+byte(k))
		for i := range bufs[k] {
			bufs[k][i] = 0xdeadbeefdeadbeef
		}
	}
	*bufs[2], *bufs[3] = in.l, in.h
	ok := true
	func() {
		old := debug.SetPanicOnFault(true)
		defer debug.SetPanicOnFault(old)
		defer func() {
			if r := recover(); r != nil {
				ok = false
				where := fmt.Sprint(r)
				if ae, is := r.(interface{ Addr() uintptr }); is {
					where = locate(ae.Addr(), as, offs)
				}
				o.Fail("fence", "memory fault inside the permutation (buffers flush against the %s guard): %s; %v", placement(upper), where, r)
			}
		}()
		curl.VerifTransform(bufs[0], bufs[1], bufs[2], bufs[3])
	}()
	if !ok {
		return nil, false
	}
	for k, a := range as {
		if err := a.checkCanary(offs[k], seed+byte(k)); err != nil {
			o.Fail("canary", "stray write (buffers flush against the %s guard): %v", placement(upper), err)
			return nil, false
		}
	}
	return &state{l: *bufs[0], h: *bufs[1]}, true
}
