#!/bin/bash
# Entry point of every registered check:  run_check.sh <ID> <quick|thorough>
#                                         run_check.sh build            (setup: build all binaries)
#                                         run_check.sh replay <file>
# Rebuilds the monitors against /repo's current working tree (hooks on: -tags verif).
set -u
ROOT="$(cd "$(dirname "${BASH_SOURCE[0]}")" && pwd)"
export VERIF_ROOT="$ROOT"
export GOFLAGS=-mod=mod GOPROXY=off GOSUMDB=off GOTOOLCHAIN=local
if [ -z "${GOCACHE:-}" ]; then
  if [ -n "${HOME:-}" ] && [ -d "$HOME" ]; then export GOCACHE="$HOME/.cache/go-build"; else export GOCACHE="$ROOT/work/gocache"; fi
fi
REPO="${VERIF_REPO:-/repo}"
if [ "${1:-}" = "replay" ] && [ -n "${2:-}" ] && [ -e "$2" ]; then set -- replay "$(readlink -f "$2")"; fi  # relative replay paths
cd "$ROOT/harness" || exit 2
mkdir -p "$ROOT/bin" "$ROOT/evidence" "$ROOT/replays" "$ROOT/work"

# the harness module replaces the library with $REPO; keep go.sum in step with it
if [ "$REPO" != "/repo" ]; then
  MODFILE="$ROOT/work/go.$$.mod"
  sed "s#=> /repo#=> $REPO#" go.mod > "$MODFILE"; cp go.sum "${MODFILE%.mod}.sum"
  MODARG="-modfile=$MODFILE"
else
  MODARG=""
fi

build() { # $1 = variant
  case "$1" in
    default) go build $MODARG -tags verif -o "$ROOT/bin/vmon" ./cmd/vmon ;;
    purego)  go build $MODARG -tags "verif purego" -o "$ROOT/bin/vmon-purego" ./cmd/vmon ;;
    race)    go build $MODARG -race -tags verif -o "$ROOT/bin/vmon-race" ./cmd/vmon ;;
    386)     GOARCH=386 go build $MODARG -tags verif -o "$ROOT/bin/vmon-386" ./cmd/vmon ;;
  esac
}

need_builds() { # which binaries a property needs
  case "$1" in
    C06)     echo "default purego 386" ;;
    C20)     echo "default purego race 386" ;;
    C13|C01|C03|C09|C10|C14|C15|C16|C18) echo "default race 386" ;;
    C02|C04|C05|C07|C08|C11|C12|C17|C19) echo "default 386" ;;
    *)       echo "default" ;;
  esac
}

cmd="${1:-}"
case "$cmd" in
  build)
    for v in default purego race; do
      build $v || { echo "build of variant $v failed"; exit 2; }
    done
    build 386 || echo "note: the 32-bit (GOARCH=386) variant could not be built; it will be skipped"
    exit 0 ;;
  replay)
    # replays run in the build variant the violation was observed in (recorded in the replay file)
    b="$(python3 -c "import json,sys;print(json.load(open(sys.argv[1])).get('build','default'))" "$2" 2>/dev/null || echo default)"
    env_extra=""
    case "$b" in *+cpuoff) env_extra="GODEBUG=cpu.all=off"; b="${b%+cpuoff}";; esac
    case "$b" in purego|race|386) ;; *) b=default;; esac
    build $b || exit 2
    bin="$ROOT/bin/vmon"; [ "$b" != default ] && bin="$ROOT/bin/vmon-$b"
    exec env $env_extra "$bin" replay "$2" ;;
  "")
    echo "usage: run_check.sh <ID> <quick|thorough> | build | replay <file>"; exit 2 ;;
esac

ID="$cmd"; TIER="${2:-${VERIF_TIER:-quick}}"
for v in $(need_builds "$ID"); do
  if [ "$v" = "386" ]; then
    # extra variant: if the 32-bit build fails the native variants still decide (the supervisor notes the skip)
    build 386 > "$ROOT/work/build-$ID-386.log" 2>&1 || rm -f "$ROOT/bin/vmon-386"
    continue
  fi
  if ! build $v > "$ROOT/work/build-$ID-$v.log" 2>&1; then
    cat "$ROOT/work/build-$ID-$v.log"
    echo "INCONCLUSIVE property=$ID reason=build of variant $v against $REPO failed"
    exit 2
  fi
done
[ -n "$MODARG" ] && rm -f "$MODFILE" "${MODFILE%.mod}.sum"
if [ "$ID" = "C09" ]; then
  # independent NFKD oracle: python's unicodedata writes the passphrase/word corpus for this seed and tier
  PY="$(command -v python3 || echo /usr/bin/python3)"
  export VERIF_C09_CORPUS="$ROOT/work/c09-corpus-$$.jsonl"
  if [ "$TIER" = "thorough" ]; then NP=300000; NW=600000; else NP=8000; NW=24000; fi
  if ! "$PY" "$ROOT/tools/nfkd_corpus.py" "${VERIF_SEED:-1}" $NP $NW > "$VERIF_C09_CORPUS"; then
    echo "INCONCLUSIVE property=C09 reason=python NFKD corpus could not be generated"; exit 2
  fi
  "$ROOT/bin/vmon" run "$ID" "$TIER"; rc=$?
  rm -f "$VERIF_C09_CORPUS"
  exit $rc
fi
exec "$ROOT/bin/vmon" run "$ID" "$TIER"
